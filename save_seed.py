#!/usr/bin/env python3
"""save_seed.py <PROP> <slug> <needs> <caught_by> — copies a confirmed seeded change from /tmp/wt-<PROP>/seed into /verif/seeded/<PROP>-<slug>/"""
import json, os, shutil, sys
prop, slug, needs, caught = sys.argv[1:5]
src = "/tmp/wt-%s/seed" % prop
dst = "/verif/seeded/%s-%s" % (prop, slug)
os.makedirs(dst, exist_ok=True)
for f in os.listdir(src):
    shutil.copy(os.path.join(src, f), os.path.join(dst, f))
out = open("/tmp/seed_%s.out" % prop).read() if os.path.exists("/tmp/seed_%s.out" % prop) else ""
lines = [l[:300] for l in out.splitlines() if l.startswith("VIOLATION") or "quick:" in l]
json.dump({
    "property": prop,
    "breaks": open(os.path.join(src, "notes.md")).read()[:1500],
    "needs_to_manifest": needs,
    "confirmed": "in scratch worktree /tmp/wt-%s: repository suite passes with the change (55 tests), the demonstration fails with it and passes without it (confirm_seed.sh)" % prop,
    "ran": "git -C /repo apply patch.diff; python3 check.py %s --tier quick; git -C /repo checkout -- .  (seedtest.sh)" % prop,
    "check_output": lines,
    "caught_by": caught,
}, open(os.path.join(dst, "meta.json"), "w"), indent=1)
print("saved", dst)
