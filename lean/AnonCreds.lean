import AnonCreds.Model.Basic
import AnonCreds.Model.Claims
import AnonCreds.Model.Wire
import AnonCreds.Props.C18
import AnonCreds.Props.C20
import AnonCreds.Props.C14
import AnonCreds.Props.C13
