import AnonCreds.Model.Issue
/-
C15 — issuance signs exactly schema-conformant claims. `signAccepts` (the loop of
`Issuer::sign_credential` with its early returns) accepts a claim vector iff it is `Conformant`, the
declarative predicate of the property. Validity of the returned signature and handle: C17
(`bbs_sign_verify`, `ps_sign_verify`) and C13/C14 (`issued_handle_verifies`).
-/
namespace AC.C15
open AC AC.Issue

/-- one position conforms: type matches and every validator applies and holds -/
def PosOk (c : ClaimData) (t : ClaimSchemaM) : Prop :=
  c.type = t.type ∧ ∀ v ∈ t.validators, v.isValid c = some true

/-- revocation identifiers of a vector, in order -/
def revIds : List ClaimData → List Bytes
  | [] => []
  | .revocation id :: rest => id :: revIds rest
  | _ :: rest => revIds rest

/-- the property's predicate: schema length, every position conforms, exactly one revocation claim,
whose identifier is not revoked -/
def Conformant (schema : List ClaimSchemaM) (revoked : Bytes → Bool) (claims : List ClaimData) : Prop :=
  claims.length = schema.length ∧ (∀ p ∈ claims.zip schema, PosOk p.1 p.2) ∧
  ∃ id, revIds claims = [id] ∧ revoked id = false

theorem go_true (vs : List Validator) (c : ClaimData) (acc : Bool) :
    schemaValid.go c vs acc = some true ↔ acc = true ∧ ∀ v ∈ vs, v.isValid c = some true := by
  induction vs generalizing acc with
  | nil => simp [schemaValid.go]
  | cons v rest ih =>
    simp only [schemaValid.go]
    cases hv : v.isValid c with
    | none => simp [hv]
    | some b =>
      simp only [ih, Bool.and_eq_true, List.mem_cons, forall_eq_or_imp, hv, Option.some.injEq]
      constructor
      · rintro ⟨⟨h1, h2⟩, h3⟩; exact ⟨h1, h2, h3⟩
      · rintro ⟨h1, h2, h3⟩; exact ⟨⟨h1, h2⟩, h3⟩

theorem schemaValid_true (vs : List Validator) (c : ClaimData) :
    schemaValid vs c = some true ↔ ∀ v ∈ vs, v.isValid c = some true := by
  unfold schemaValid; rw [go_true]; simp

/-- how the loop threads the revocation claim: a second one is an error -/
def combine : Option Bytes → List Bytes → Option (Option Bytes)
  | rev, [] => some rev
  | rev, i :: rest => if rev.isSome then none else combine (some i) rest

theorem combine_none (ids : List Bytes) (id : Bytes) :
    combine none ids = some (some id) ↔ ids = [id] := by
  cases ids with
  | nil => simp [combine]
  | cons i rest =>
    cases rest with
    | nil => simp [combine]
    | cons j r => simp [combine]

theorem combine_none_none (ids : List Bytes) : combine none ids = some none ↔ ids = [] := by
  cases ids with
  | nil => simp [combine]
  | cons i rest => cases rest <;> simp [combine]

/-- the scan succeeds iff every position conforms and the revocation claims combine -/
theorem scan_spec (ps : List (ClaimData × ClaimSchemaM)) (rev : Option Bytes) (out : Option Bytes) :
    scan ps rev = some out ↔
      (∀ p ∈ ps, PosOk p.1 p.2) ∧ combine rev (revIds (ps.map (·.1))) = some out := by
  induction ps generalizing rev with
  | nil => simp [scan, combine, revIds]
  | cons p rest ih =>
    obtain ⟨c, t⟩ := p
    simp only [scan, List.map_cons, List.mem_cons, forall_eq_or_imp]
    by_cases hty : c.type = t.type
    · simp only [hty, ne_eq, not_true_eq_false, if_false]
      cases hsv : schemaValid t.validators c with
      | none =>
        have : ¬ (∀ v ∈ t.validators, v.isValid c = some true) := by
          rw [← schemaValid_true, hsv]; simp
        simp [PosOk, this]
      | some b =>
        cases b with
        | false =>
          have : ¬ (∀ v ∈ t.validators, v.isValid c = some true) := by
            rw [← schemaValid_true, hsv]; simp
          simp [PosOk, this]
        | true =>
          have hv : ∀ v ∈ t.validators, v.isValid c = some true := (schemaValid_true _ _).mp hsv
          have hpos : PosOk c t := ⟨hty, hv⟩
          cases c with
          | revocation id =>
            simp only [revIds, combine, hpos, true_and]
            by_cases hr : rev.isSome = true
            · simp [hr]
            · simp only [hr, Bool.false_eq_true, if_false, ih]
          | hashed v pf => simp only [ih, revIds, hpos, true_and]
          | number v => simp only [ih, revIds, hpos, true_and]
          | scalar v => simp only [ih, revIds, hpos, true_and]
          | enumeration e => simp only [ih, revIds, hpos, true_and]
    · simp [hty, PosOk]

theorem map_fst_zip (claims : List ClaimData) (schema : List ClaimSchemaM) (h : claims.length = schema.length) :
    (claims.zip schema).map (·.1) = claims := by
  rw [List.map_fst_zip]; omega

/-- **The issuer accepts a claim vector exactly when it is conformant** (and then signs it) -/
theorem sign_ok_iff_conformant (schema : List ClaimSchemaM) (revoked : Bytes → Bool) (claims : List ClaimData) :
    (signAccepts schema revoked claims).isSome = true ↔ Conformant schema revoked claims := by
  unfold signAccepts Conformant
  by_cases hl : claims.length = schema.length
  · simp only [hl, ne_eq, not_true_eq_false, if_false, true_and]
    cases hs : scan (claims.zip schema) none with
    | none =>
      simp only [Option.isSome_none, Bool.false_eq_true, false_iff]
      rintro ⟨hp, id, hid, _⟩
      have := (scan_spec (claims.zip schema) none (some id)).mpr
        ⟨hp, by rw [map_fst_zip _ _ hl]; exact (combine_none _ _).mpr hid⟩
      rw [hs] at this; cases this
    | some out =>
      have hspec := (scan_spec (claims.zip schema) none out).mp hs
      rw [map_fst_zip _ _ hl] at hspec
      obtain ⟨hp, hcomb⟩ := hspec
      cases out with
      | none =>
        have hnil := (combine_none_none _).mp hcomb
        simp only [Option.isSome_none, Bool.false_eq_true, false_iff]
        rintro ⟨_, id, hid, _⟩; rw [hnil] at hid; cases hid
      | some i =>
        have hone := (combine_none _ _).mp hcomb
        by_cases hr : revoked i = true
        · simp only [hr, if_true, Option.isSome_none, Bool.false_eq_true, false_iff]
          rintro ⟨_, id, hid, hrev⟩
          rw [hone] at hid; cases hid; rw [hr] at hrev; cases hrev
        · have hr' : revoked i = false := by simpa using hr
          simp only [hr', Bool.false_eq_true, if_false, Option.isSome_some, true_iff]
          exact ⟨hp, i, hone, hr'⟩
  · simp [hl]

/-- non-vacuity: a two-claim schema with a length validator accepts a conformant vector and rejects
a second revocation claim -/
example : (signAccepts [⟨.revocation, []⟩, ⟨.hashed, [.length (some 1) (some 3)]⟩] (fun _ => false)
    [.revocation [1], .hashed [65, 66] true]).isSome = true := by decide
example : (signAccepts [⟨.revocation, []⟩, ⟨.revocation, []⟩] (fun _ => false)
    [.revocation [1], .revocation [2]]).isSome = false := by decide

end AC.C15
