import AnonCreds.Proofs.PrefixInj
/-
C04 — context binding. The list of transcript items absorbed before any proof material is an
injective function of (nonce, schema id, statements in order with every modelled field): two contexts
with equal item lists are equal, so a presentation accepted under two different contexts needs a
collision of the Fiat–Shamir hash on two *different* item lists (merlin frames label and length of
each item; its collision resistance is trusted). The model's item list is compared byte for byte
with the items the real verifier appends (M2), for every generated and every mutated schema.
-/
namespace AC.C04
open AC AC.Transcript

theorem str_injective (s t : String) (h : str s = str t) : s = t := by
  unfold str at h
  have h1 : s.toUTF8.data = t.toUTF8.data := Array.toList_inj.mp h
  have h2 : s.toUTF8 = t.toUTF8 := by
    cases hs : s.toUTF8; cases ht : t.toUTF8
    simp_all
  exact String.toByteArray_inj.mp h2

theorem uint_inj (n m : Nat) (h : uint n = uint m) : n = m := uvarint_injective n m h

/-- bounds of range statements are `isize`; any window of width 2^128 would do -/
def I128 (v : Int) : Prop := -(2 ^ 127 : Int) ≤ v ∧ v < (2 ^ 127 : Int)

theorem emod_window (a K : Int) (hK : 0 < K) (h1 : -K ≤ a) (h2 : a < K) :
    a % (2 * K) = if 0 ≤ a then a else a + 2 * K := by
  by_cases h0 : 0 ≤ a
  · simp only [h0, if_true]
    exact Int.emod_eq_of_lt h0 (by omega)
  · simp only [h0, if_false]
    have e : a % (2 * K) = (a + 2 * K) % (2 * K) := by rw [Int.add_emod_right]
    rw [e]
    exact Int.emod_eq_of_lt (by omega) (by omega)

theorem uintI_inj (a b : Int) (ha : I128 a) (hb : I128 b) (h : uintI a = uintI b) : a = b := by
  unfold uintI at h
  have := uvarint_injective _ _ h
  unfold I128 at ha hb
  have e : (2:Int) ^ 128 = 2 * 2 ^ 127 := by
    rw [show (128:Nat) = 127 + 1 from rfl, Int.pow_succ]; omega
  have hK : (0:Int) < 2 ^ 127 := by decide
  rw [e] at this
  generalize (2:Int) ^ 127 = K at *
  rw [emod_window a K hK ha.1 ha.2, emod_window b K hK hb.1 hb.2] at this
  split at this <;> split at this <;> omega

/-- well-formed statement: range bounds are machine integers -/
def StmtWF : StmtT → Prop
  | .range _ _ _ _ lo hi => (∀ l, lo = some l → I128 l) ∧ (∀ u, hi = some u → I128 u)
  | _ => True

/-! ### per-element encoders -/

theorem blind_prefixInj : PrefixInj (fun b : Bytes => [(⟨"blind claim", b⟩ : Item)]) := by
  intro a a' r r' h
  simp only [List.cons_append, List.nil_append, List.cons.injEq, Item.mk.injEq, true_and] at h
  exact h

theorem claimIndex_prefixInj : PrefixInj (fun (p : Nat × Bytes) =>
    [(⟨"claim indices label length", uint p.2.length⟩ : Item), ⟨"claim indices label", p.2⟩,
     ⟨"claim indices index", uint p.1⟩]) := by
  intro ⟨i, l⟩ ⟨i', l'⟩ r r' h
  simp only [List.cons_append, List.nil_append, List.cons.injEq, Item.mk.injEq, true_and] at h
  obtain ⟨_, h2, h3, h4⟩ := h
  exact ⟨by rw [h2, uint_inj _ _ h3], h4⟩

theorem disclosed_prefixInj : PrefixInj (fun (p : Nat × Bytes) =>
    [(⟨"disclosed message label index", uint p.1⟩ : Item), ⟨"disclosed message label", p.2⟩]) := by
  intro ⟨i, l⟩ ⟨i', l'⟩ r r' h
  simp only [List.cons_append, List.nil_append, List.cons.injEq, Item.mk.injEq, true_and] at h
  obtain ⟨h1, h2, h3⟩ := h
  exact ⟨by rw [h2, uint_inj _ _ h1], h3⟩

theorem ref_prefixInj : PrefixInj (fun (p : Bytes × Nat) =>
    [(⟨"reference statement id", p.1⟩ : Item), ⟨"reference statement claim index", uint p.2⟩]) := by
  intro ⟨i, l⟩ ⟨i', l'⟩ r r' h
  simp only [List.cons_append, List.nil_append, List.cons.injEq, Item.mk.injEq, true_and] at h
  obtain ⟨h1, h2, h3⟩ := h
  exact ⟨by rw [h1, uint_inj _ _ h2], h3⟩

/-! ### credential schema, issuer -/

theorem credSchema_prefixInj : PrefixInj credSchemaItems := by
  intro s s' r r' h
  obtain ⟨id, lb, ds, bc, ci, nc⟩ := s
  obtain ⟨id', lb', ds', bc', ci', nc'⟩ := s'
  simp only [credSchemaItems, List.cons_append, List.nil_append, List.append_assoc,
    List.cons.injEq, Item.mk.injEq, true_and] at h
  obtain ⟨_, hid, _, hlb, _, hds, hbl, h⟩ := h
  have hbl' : bc.length = bc'.length := uint_inj _ _ hbl
  obtain ⟨hbc, h⟩ := blind_prefixInj.flatMap_sameLen bc bc' _ _ hbl' h
  simp only [List.cons_append, List.cons.injEq, Item.mk.injEq, true_and] at h
  obtain ⟨hcl, h⟩ := h
  have hcl' : (indexed ci).length = (indexed ci').length := by
    simp [indexed, uint_inj _ _ hcl]
  obtain ⟨hci, h⟩ := claimIndex_prefixInj.flatMap_sameLen (indexed ci) (indexed ci') _ _ hcl' h
  simp only [List.cons_append, List.nil_append, List.cons.injEq, Item.mk.injEq, true_and] at h
  obtain ⟨hnc, hr⟩ := h
  refine ⟨?_, hr⟩
  rw [hid, hlb, hds, hbc, indexed_inj _ _ hci, uint_inj _ _ hnc]

theorem issuer_prefixInj : PrefixInj issuerItems := by
  intro i i' r r' h
  obtain ⟨id, vk, rk, rg, ek, sc⟩ := i
  obtain ⟨id', vk', rk', rg', ek', sc'⟩ := i'
  simp only [issuerItems, List.cons_append, List.nil_append, List.append_assoc,
    List.cons.injEq, Item.mk.injEq, true_and] at h
  obtain ⟨h1, h2, h3, h4, h5, h⟩ := h
  obtain ⟨hs, hr⟩ := credSchema_prefixInj _ _ _ _ h
  exact ⟨by rw [h1, h2, h3, h4, h5, hs], hr⟩

/-! ### statements -/

theorem tag_ne {a b : String} (h : a ≠ b) : str a ≠ str b := fun e => h (str_injective a b e)

/-- the optional bound of a range statement, with its version flag -/
def boundItems (flag val : String) : Option Int → List Item
  | none => [⟨flag, [0]⟩]
  | some l => [⟨flag, [1]⟩, ⟨val, uintI l⟩]

theorem bound_prefixInj (flag val : String) (a a' : Option Int) (r r' : List Item)
    (ha : ∀ l, a = some l → I128 l) (ha' : ∀ l, a' = some l → I128 l)
    (h : boundItems flag val a ++ r = boundItems flag val a' ++ r') : a = a' ∧ r = r' := by
  cases a with
  | none =>
    cases a' with
    | none =>
      simp only [boundItems, List.cons_append, List.nil_append, List.cons.injEq, Item.mk.injEq, true_and] at h
      exact ⟨rfl, h⟩
    | some l' =>
      exfalso
      simp only [boundItems, List.cons_append, List.nil_append, List.cons.injEq, Item.mk.injEq, true_and] at h
      exact absurd h.1 (by decide)
  | some l =>
    cases a' with
    | none =>
      exfalso
      simp only [boundItems, List.cons_append, List.nil_append, List.cons.injEq, Item.mk.injEq, true_and] at h
      exact absurd h.1 (by decide)
    | some l' =>
      simp only [boundItems, List.cons_append, List.nil_append, List.cons.injEq, Item.mk.injEq, true_and] at h
      exact ⟨by rw [uintI_inj l l' (ha l rfl) (ha' l' rfl) h.1], h.2⟩

theorem stmt_prefixInj (s s' : StmtT) (r r' : List Item) (hw : StmtWF s) (hw' : StmtWF s')
    (h : stmtItems s ++ r = stmtItems s' ++ r') : s = s' ∧ r = r' := by
  cases s <;> cases s'
  -- different kinds: the "statement type" payloads differ
  all_goals first
    | (exfalso
       simp only [stmtItems, List.cons_append, List.nil_append, List.append_assoc, List.cons.injEq,
         Item.mk.injEq, true_and] at h
       exact absurd h.1 (tag_ne (by decide)))
    | skip
  -- signature
  · rename_i id d is id' d' is'
    simp only [stmtItems, List.cons_append, List.nil_append, List.append_assoc, List.cons.injEq,
      Item.mk.injEq, true_and] at h
    obtain ⟨hid, hl, h⟩ := h
    have hl' : (indexed d).length = (indexed d').length := by simp [indexed, uint_inj _ _ hl]
    obtain ⟨hd, h⟩ := disclosed_prefixInj.flatMap_sameLen (indexed d) (indexed d') _ _ hl' h
    obtain ⟨hi, hr⟩ := issuer_prefixInj _ _ _ _ h
    exact ⟨by rw [hid, indexed_inj _ _ hd, hi], hr⟩
  -- revocation
  · simp only [stmtItems, List.cons_append, List.nil_append, List.cons.injEq, Item.mk.injEq, true_and] at h
    obtain ⟨h1, h2, h3, h4, h5, hr⟩ := h
    exact ⟨by rw [h1, h2, uint_inj _ _ h3, h4, h5], hr⟩
  -- membership
  · simp only [stmtItems, List.cons_append, List.nil_append, List.cons.injEq, Item.mk.injEq, true_and] at h
    obtain ⟨h1, h2, h3, h4, h5, hr⟩ := h
    exact ⟨by rw [h1, h2, uint_inj _ _ h3, h4, h5], hr⟩
  -- equality
  · rename_i id refs id' refs'
    simp only [stmtItems, List.cons_append, List.nil_append, List.append_assoc, List.cons.injEq,
      Item.mk.injEq, true_and] at h
    obtain ⟨hid, hl, h⟩ := h
    obtain ⟨hrf, hr⟩ := ref_prefixInj.flatMap_sameLen refs refs' _ _ (uint_inj _ _ hl) h
    exact ⟨by rw [hid, hrf], hr⟩
  -- commitment
  · simp only [stmtItems, List.cons_append, List.nil_append, List.cons.injEq, Item.mk.injEq, true_and] at h
    obtain ⟨h1, h2, h3, h4, h5, hr⟩ := h
    exact ⟨by rw [h1, h2, uint_inj _ _ h3, h4, h5], hr⟩
  -- range
  · rename_i id rf sg c lo hi id' rf' sg' c' lo' hi'
    have e : ∀ (i r s : Bytes) (c : Nat) (l u : Option Int), stmtItems (.range i r s c l u) =
        [⟨"statement type", str "range proof"⟩, ⟨"statement id", i⟩,
         ⟨"reference commitment statement id", r⟩, ⟨"reference signature statement id", s⟩,
         ⟨"claim index", uint c⟩] ++ (boundItems "lower version" "lower" l ++ boundItems "upper version" "upper" u) := by
      intro i r s c l u; cases l <;> cases u <;> rfl
    rw [e, e] at h
    simp only [List.cons_append, List.nil_append, List.append_assoc, List.cons.injEq, Item.mk.injEq, true_and] at h
    obtain ⟨h1, h2, h3, h4, h⟩ := h
    obtain ⟨hlo, h⟩ := bound_prefixInj _ _ lo lo' _ _ hw.1 hw'.1 h
    obtain ⟨hhi, hr⟩ := bound_prefixInj _ _ hi hi' _ _ hw.2 hw'.2 h
    exact ⟨by rw [h1, h2, h3, uint_inj _ _ h4, hlo, hhi], hr⟩
  -- verifiable encryption
  · rename_i id al rf c mg k id' al' rf' c' mg' k'
    simp only [stmtItems, List.cons_append, List.nil_append, List.cons.injEq, Item.mk.injEq, true_and] at h
    obtain ⟨h1, h2, h3, h4, h5, h6, hr⟩ := h
    have hal : al = al' := by
      cases al <;> cases al' <;> first | rfl | (exfalso; revert h2; decide)
    exact ⟨by rw [h1, hal, h3, uint_inj _ _ h4, h5, h6], hr⟩
  -- encrypt-and-decrypt
  · simp only [stmtItems, List.cons_append, List.nil_append, List.cons.injEq, Item.mk.injEq, true_and] at h
    obtain ⟨h1, h2, h3, h4, h5, hr⟩ := h
    exact ⟨by rw [h1, h2, uint_inj _ _ h3, h4, h5], hr⟩

/-- all statements of a schema well formed -/
def SchemaWF (stmts : List (Bytes × StmtT)) : Prop := ∀ p ∈ stmts, StmtWF p.2

theorem keyed_flatMap_inj :
    ∀ (l l' : List (Bytes × StmtT)) (r r' : List Item), SchemaWF l → SchemaWF l' → l.length = l'.length →
      l.flatMap (fun p => (⟨"presentation statement id", p.1⟩ : Item) :: stmtItems p.2) ++ r
        = l'.flatMap (fun p => (⟨"presentation statement id", p.1⟩ : Item) :: stmtItems p.2) ++ r' →
      l = l' ∧ r = r' := by
  intro l
  induction l with
  | nil =>
    intro l' r r' _ _ hl hh
    cases l' with
    | nil => exact ⟨rfl, by simpa using hh⟩
    | cons _ _ => simp at hl
  | cons a l ih =>
    intro l' r r' hw hw' hl hh
    cases l' with
    | nil => simp at hl
    | cons a' l' =>
      simp only [List.flatMap_cons, List.cons_append, List.append_assoc, List.cons.injEq,
        Item.mk.injEq, true_and] at hh
      obtain ⟨hk, hh⟩ := hh
      obtain ⟨hs, hh⟩ := stmt_prefixInj a.2 a'.2 _ _ (hw a (by simp)) (hw' a' (by simp)) hh
      obtain ⟨hl2, hr⟩ := ih l' r r' (fun p hp => hw p (by simp [hp])) (fun p hp => hw' p (by simp [hp]))
        (by simpa using hl) hh
      exact ⟨by rw [Prod.ext hk hs, hl2], hr⟩

/-- **Context binding.** Equal public transcripts ⇒ equal nonce, schema id and statements (every
field of every statement, their map keys and their order). -/
theorem publicItems_injective (g1 g2 nonce nonce' sid sid' : Bytes) (stmts stmts' : List (Bytes × StmtT))
    (hw : SchemaWF stmts) (hw' : SchemaWF stmts')
    (h : publicItems g1 g2 nonce sid stmts = publicItems g1 g2 nonce' sid' stmts') :
    nonce = nonce' ∧ sid = sid' ∧ stmts = stmts' := by
  simp only [publicItems, curveItems, schemaItems, List.cons_append, List.nil_append, List.append_assoc,
    List.cons.injEq, Item.mk.injEq, true_and] at h
  obtain ⟨hn, hs, hl, h⟩ := h
  have := keyed_flatMap_inj stmts stmts' [] [] hw hw' (uint_inj _ _ hl) (by simpa using h)
  exact ⟨hn, hs, this.1⟩

/-- consequently: a presentation object accepted under two contexts was accepted on two different
hashed prefixes unless the contexts coincide — every parameter in the property's list is a field of
`StmtT` / `IssuerT` / `CredSchemaT`, the nonce or the schema id -/
theorem context_binding (g1 g2 nonce nonce' sid sid' : Bytes) (stmts stmts' : List (Bytes × StmtT))
    (hw : SchemaWF stmts) (hw' : SchemaWF stmts')
    (hne : (nonce, sid, stmts) ≠ (nonce', sid', stmts')) :
    publicItems g1 g2 nonce sid stmts ≠ publicItems g1 g2 nonce' sid' stmts' := by
  intro h
  obtain ⟨h1, h2, h3⟩ := publicItems_injective g1 g2 nonce nonce' sid sid' stmts stmts' hw hw' h
  exact hne (by rw [h1, h2, h3])

/-- non-vacuity: a schema with a range statement is well formed -/
example : SchemaWF [([1], .range [1] [2] [3] 2 (some (-5)) none)] := by
  intro p hp
  simp at hp
  subst hp
  refine ⟨?_, ?_⟩
  · intro l hl; cases hl; unfold I128; decide
  · intro u hu; cases hu

end AC.C04
