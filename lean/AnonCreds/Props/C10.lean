import AnonCreds.Props.C05
import AnonCreds.Props.C03
/-
C10 — verifiable encryption: whatever verifies decrypts to the signed claim.
`C05.elgamal_sound` extracts from two accepting transcripts `c1 = ρ•g`, `c2 = m•M + ρ•K` with `m` the
difference quotient of the *shared* message response (the signed value by C17); the theorems here
take that opening as hypothesis and derive what the key holder obtains.
-/
namespace AC.C10
open AC.Sigma
variable {F G : Type} [Field F] [AddCommGroup G] [Module F G]

/-- group decryption: `c2 - sk•c1 = m•M` for every accepted ciphertext (key `K = sk•g`) -/
theorem decrypt_correct (g M c1 c2 : G) (sk m ρ : F) (h1 : c1 = ρ • g) (h2 : c2 = m • M + ρ • (sk • g)) :
    c2 - sk • c1 = m • M := C05.elgamal_decrypts g M c1 c2 sk m ρ h1 h2

/-- pseudonyms: the decrypted value is a function of the signed scalar and the generator only … -/
theorem pseudonym_stable (g M c1 c2 c1' c2' : G) (sk m ρ ρ' : F)
    (h1 : c1 = ρ • g) (h2 : c2 = m • M + ρ • (sk • g))
    (h1' : c1' = ρ' • g) (h2' : c2' = m • M + ρ' • (sk • g)) :
    c2 - sk • c1 = c2' - sk • c1' := by
  rw [decrypt_correct g M c1 c2 sk m ρ h1 h2, decrypt_correct g M c1' c2' sk m ρ' h1' h2']

/-- … and two different generators give the same pseudonym only for the zero scalar -/
theorem pseudonym_generators (M M' : G) (m : F) (h : m • M = m • M') : m = 0 ∨ M = M' := by
  by_cases hm : m = 0
  · exact Or.inl hm
  · exact Or.inr (smul_right_injective G hm h)

/-- byte decomposition: if every byte ciphertext opens to `(byteᵢ, bᵢ)`, the weighted sum check
`Σ wᵢ•c2ᵢ = c2` holds and `c2 = m•M + ρ•K`, then `(Σ wᵢ byteᵢ - m)•M + (Σ wᵢ bᵢ - ρ)•K = 0` -/
theorem bytes_relation (M K c2 : G) (ws bytes bs : List F) (m ρ : F)
    (hl : ws.length = bytes.length) (hl' : ws.length = bs.length)
    (hsum : msm (List.zipWith (fun by_ b => by_ • M + b • K) bytes bs) ws = c2)
    (hc2 : c2 = m • M + ρ • K) :
    ((List.zipWith (· * ·) ws bytes).sum - m) • M + ((List.zipWith (· * ·) ws bs).sum - ρ) • K = 0 := by
  rw [C03.byte_sum_complete M K ws bytes bs hl hl'] at hsum
  rw [hc2] at hsum
  linear_combination (norm := module) hsum

/-- hence, unless the statement's generator and the encryption key satisfy a discrete-log relation,
the bytes represent the signed scalar **modulo the group order** -/
theorem bytes_sound (M K c2 : G) (ws bytes bs : List F) (m ρ : F)
    (hl : ws.length = bytes.length) (hl' : ws.length = bs.length)
    (hsum : msm (List.zipWith (fun by_ b => by_ • M + b • K) bytes bs) ws = c2)
    (hc2 : c2 = m • M + ρ • K)
    (hind : ∀ a b : F, a • M + b • K = 0 → a = 0 ∧ b = 0) :
    (List.zipWith (· * ·) ws bytes).sum = m := by
  have := hind _ _ (bytes_relation M K c2 ws bytes bs m ρ hl hl' hsum hc2)
  exact sub_eq_zero.mp this.1

/-- `decrypt_scalar` after the repair: the integer read from the 32 bytes is reduced modulo `r`; if it is
congruent to the canonical scalar `m < r` the result is `m` — in particular for the bytes of `m + r` -/
theorem reduce_recovers (r B m : Nat) (hm : m < r) (hcong : B % r = m % r) : B % r = m := by
  rw [hcong, Nat.mod_eq_of_lt hm]

/-- the pinned decoder insisted on `B < r` and therefore failed on the valid representation `m + r` -/
theorem pinned_rejects_m_plus_r (r m : Nat) : ¬ (m + r < r) := by omega

/-- encrypt-and-decrypt: a claim returned by `decrypt_and_verify` satisfies
`enc(claim)•M_proof = c2 - sk•c1`; with the (now enforced) `M_proof = M ≠ 0` its encoding is the signed
scalar -/
theorem ved_returns_signed (M c1 c2 g : G) (sk m ρ e : F) (hM : M ≠ 0)
    (h1 : c1 = ρ • g) (h2 : c2 = m • M + ρ • (sk • g)) (hchk : e • M = c2 - sk • c1) : e = m := by
  rw [decrypt_correct g M c1 c2 sk m ρ h1 h2] at hchk
  have : (e - m) • M = 0 := by rw [sub_smul, hchk, sub_self]
  rcases smul_eq_zero.mp this with h0 | h0
  · exact sub_eq_zero.mp h0
  · exact absurd h0 hM

/-- with a generator carried in the proof and not compared to the statement (pinned, finding F09) any
other encoding `e'` passes the check for the generator `(m/e')•M` -/
theorem pinned_generator_swap (M : G) (m e' : F) (he : e' ≠ 0) : e' • ((m / e') • M) = m • M := by
  rw [smul_smul, mul_div_cancel₀ _ he]

/-- the Schnorr relation of the encrypt-and-decrypt statement must be recomputed under the **statement's**
generator `M`: the link to the signed claim is the message term `pm • M` (`pm` = the signature proof's
response). Recomputed under a generator `N` carried in the proof, the relation holds for `N = 0`, `c2 = b•K`,
whatever the signed claim and whatever `pm` is — and the decryption check `e'•N = c2 - sk•c1` then passes
for every claim `e'` (seeded change `ved-r2-under-carried-generator`; caught by the hand-written holder) -/
theorem ved_identity_generator_unbinds (K g : G) (sk b r c pm e' : F) (hK : K = sk • g) :
    (-c) • (b • K) + pm • (0 : G) + (r + c * b) • K = r • K ∧
    e' • (0 : G) = b • K - sk • (b • g) := by
  subst hK
  constructor <;> module

/-- under the statement's generator the same relation does bind: two accepting answers to one commitment
with different challenges give `c2 = m•M + b•K` with `m` the witness of the signature proof's response
(`C05.elgamal_sound`), and `ved_returns_signed` then gives the signed claim -/
theorem ved_statement_generator_binds (M K c2 R2 : G) (c c' pm pm' pb pb' : F) (hc : c ≠ c')
    (h : R2 = (-c) • c2 + pm • M + pb • K) (h' : R2 = (-c') • c2 + pm' • M + pb' • K) :
    c2 = ((pm - pm') / (c - c')) • M + ((pb - pb') / (c - c')) • K := by
  have hd : c - c' ≠ 0 := sub_ne_zero.mpr hc
  have e1 : (c - c') • c2 = (pm - pm') • M + (pb - pb') • K := by
    have := h.symm.trans h'
    have h3 : (c - c') • c2 = ((-c') • c2 + pm' • M + pb' • K) - ((-c) • c2 + pm • M + pb • K)
        + ((pm - pm') • M + (pb - pb') • K) := by module
    rw [h3, ← this, sub_self, zero_add]
  have : c2 = (c - c')⁻¹ • ((c - c') • c2) := by rw [smul_smul, inv_mul_cancel₀ hd, one_smul]
  rw [this, e1, smul_add, smul_smul, smul_smul, div_eq_inv_mul, div_eq_inv_mul]

/-- presence of the decryptable part is decided by the statement (repair of F07) -/
def partCheck (allow hasPart : Bool) : Bool := allow == hasPart

theorem requested_part_present (hasPart : Bool) (h : partCheck true hasPart = true) : hasPart = true := by
  cases hasPart <;> simp_all [partCheck]

end AC.C10
