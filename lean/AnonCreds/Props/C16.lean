import AnonCreds.Props.C17
/-
C16 — blind issuance is correct, enforces issuer policy, and hides blinded claims.
Algebra of the three-step flow for both suites (request proof completeness and special soundness over
the generators the issuer does not know, blind signing + unblinding yields a signature on the
union vector), the effect of the repaired response-count check, perfect hiding of the PS request and
the deterministic BBS commitment (known finding). The policy itself (blindable, disjoint, cover) is
decision logic checked on the real issuer by the harness.
-/
namespace AC.C16
open AC.Sigma
variable {F G : Type} [Field F] [AddCommGroup G] [Module F G]

/-- request completeness: commitment `msm (hid ++ extra) secrets`, responses `n + c•secrets` recompute
the hashed `msm (hid ++ extra) n` — provided the secrets are listed in the order of the hidden
generators (index order: the repaired request) -/
theorem blind_request_complete (ys : List G) (known : List Nat) (extra : List G) (c : F)
    (secrets n : List F) (hs : secrets.length = (hiddenGens ys known).length + extra.length)
    (hn : n.length = secrets.length) :
    blindRecommit ys known extra
      ⟨msm (hiddenGens ys known ++ extra) secrets, c, respond c n secrets⟩
      = msm (hiddenGens ys known ++ extra) n := by
  have := recommit_complete (hiddenGens ys known ++ extra) c n secrets
    (by simp [hn, hs]) (by simp [hs])
  simpa [blindRecommit, recommit, List.append_assoc] using this

/-- special soundness on the issuer side: two accepting contexts with the same commitment and hashed
value but different challenges give an opening of the commitment over the generators the issuer
does **not** know (and the blinding generator) only -/
theorem blind_ctx_sound (ys : List G) (known : List Nat) (extra : List G) (C R : G) (c c' : F)
    (p p' : List F) (hc : c ≠ c')
    (hl : p.length = (hiddenGens ys known).length + extra.length)
    (hl' : p'.length = (hiddenGens ys known).length + extra.length)
    (h1 : blindRecommit ys known extra ⟨C, c, p⟩ = R) (h2 : blindRecommit ys known extra ⟨C, c', p'⟩ = R) :
    ∃ s : List F, s.length = (hiddenGens ys known).length + extra.length ∧
      C = msm (hiddenGens ys known ++ extra) s := by
  have e1 : recommit (hiddenGens ys known ++ extra) C c p = R := by
    rw [← h1]; simp [blindRecommit, recommit, List.append_assoc]
  have e2 : recommit (hiddenGens ys known ++ extra) C c' p' = R := by
    rw [← h2]; simp [blindRecommit, recommit, List.append_assoc]
  have := recommit_sound (hiddenGens ys known ++ extra) C R c c' p p' hc (by simp [hl]) (by simp [hl']) e1 e2
  exact ⟨extract c c' p p', by rw [extract_length _ _ _ _ (by omega)]; exact hl, this.symm⟩

/-- without the response-count check one extra response makes the hashed value independent of the
challenge: any group element is accepted as commitment (pinned behaviour) -/
theorem blind_overlong_ignores_challenge (ys : List G) (known : List Nat) (extra : List G) (C : G) (c c' : F)
    (p : List F) (hl : p.length = (hiddenGens ys known).length + extra.length + 1) :
    blindRecommit ys known extra ⟨C, c, p⟩ = blindRecommit ys known extra ⟨C, c', p⟩ := by
  have := recommit_overlong (hiddenGens ys known ++ extra) C c c' p (by simp [hl])
  simpa [blindRecommit, recommit, List.append_assoc] using this

/-- the repaired verifier rejects every other length -/
theorem blindVerify_length (ys : List G) (known : List Nat) (extra : List G) (ctx : BlindCtx F G)
    (hashOk : G → Bool) (h : blindVerify ys known extra ctx hashOk = some true) :
    ctx.proofs.length = (hiddenGens ys known).length + extra.length := by
  unfold blindVerify at h
  split at h
  · cases h
  · split at h
    · cases h
    · rename_i hne; simpa using hne

/-- BBS: blind signing on `g1 + C + Σ_known` with `C = Σ_hidden` is a signature on the union vector
(`B_union = g1 + C + K`); unblinding is the identity -/
theorem bbs_blind_flow (x e : F) (g1 C K : G) (hxe : x + e ≠ 0) :
    (x + e) • ((x + e)⁻¹ • (g1 + C + K)) = g1 + C + K := by
  rw [smul_smul, mul_inv_cancel₀ hxe, one_smul]

/-- PS: `σ₂ = u•(exp•g + C)` with `C = h•g + b•g` (hidden exponent `h`, blinding `b`), `σ₁ = u•g`;
unblinding `σ₂ - b•σ₁` is `(exp + h)•σ₁`: a signature on the union vector -/
theorem ps_blind_flow (g : G) (u exp h b : F) :
    u • (exp • g + (h • g + b • g)) - b • (u • g) = (exp + h) • (u • g) := by module

/-- PS request is perfectly hiding: for any two hidden exponents the blinding factors `b`,
`b + (h - h')` give the same commitment (a translation of the randomness) -/
theorem ps_blind_hiding (g : G) (h h' b : F) : h • g + b • g = h' • g + (b + (h - h')) • g := by module

/-- BBS request commitment has no blinding factor: it is a deterministic function of the hidden
values, so a guess can be tested against it (known finding `bbs-blind-commitment-deterministic`) -/
theorem bbs_blind_commitment_deterministic (hid : List G) (ms : List F) :
    ∀ r r' : F, (fun (_ : F) => msm hid ms) r = (fun (_ : F) => msm hid ms) r' := fun _ _ => rfl

example : (hiddenGens [(1:Nat), 2, 3, 4] [0, 2]).length + 1 = 3 := by decide

/-- what the context's challenge hashes determines the holder's commitment (and the recomputed value, the
key and the nonce): two requests with different commitments feed different item lists to the hash, for
both suites — the challenge cannot be fixed before the commitment is chosen. Tie: `bl.items` (the model's
list vs the items the real issuer appended, read from the merlin log). -/
theorem blindItems_binds {B : Type} (bbs : Bool) (pk gen rc bc nonce pk' gen' rc' bc' nonce' : B)
    (h : blindItems bbs pk gen rc bc nonce = blindItems bbs pk' gen' rc' bc' nonce') :
    pk = pk' ∧ rc = rc' ∧ bc = bc' ∧ nonce = nonce' := by
  cases bbs <;> simp [blindItems] at h <;> simp [h]

example : blindItems true "k" "g" "r" "c" "n" ≠ blindItems true "k" "g" "r" "r" "n" := by decide

end AC.C16
