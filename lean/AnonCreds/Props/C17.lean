import AnonCreds.Proofs.Sigma
/-
C17 — signature suites: signatures and proofs of knowledge bind key and messages.
Pairing equations are read through the secret key (bilinearity + non-degeneracy of the BLS12-381
pairing, trusted): `e(A, w + e•g2) = e(B, g2)` with `w = x•g2` is `(x + e) • A = B`;
`e(a_bar, w) = e(b_bar, g2)` is `b_bar = x • a_bar`; the PS equation `e(σ₁, X + m'W + Σ mᵢYᵢ) = e(σ₂, g2)`
is `σ₂ = (x + m'ω + Σ mᵢ yᵢ) • σ₁`.
-/
namespace AC.C17
open AC.Sigma
variable {F G : Type} [Field F] [AddCommGroup G] [Module F G]

/-! ### BBS signatures -/

/-- message commitment `B = g1 + Σ mᵢ yᵢ` -/
def bbsB (g1 : G) (ys : List G) (msgs : List F) : G := g1 + msm ys msgs

/-- `Signature::verify` (secret-key reading) -/
def BbsValid (x e : F) (A : G) (g1 : G) (ys : List G) (msgs : List F) : Prop :=
  A ≠ 0 ∧ (x + e) • A = bbsB g1 ys msgs

/-- `Signature::new`: `A = (x+e)⁻¹ • B`; the code returns an error when `x + e = 0` or `A = 0` -/
theorem bbs_sign_verify (x e : F) (g1 : G) (ys : List G) (msgs : List F)
    (hxe : x + e ≠ 0) (hB : bbsB g1 ys msgs ≠ 0) :
    BbsValid x e ((x + e)⁻¹ • bbsB g1 ys msgs) g1 ys msgs := by
  refine ⟨?_, ?_⟩
  · intro h
    apply hB
    have := congrArg (fun v => (x + e) • v) h
    simpa [smul_smul, mul_inv_cancel₀ hxe] using this
  · rw [smul_smul, mul_inv_cancel₀ hxe, one_smul]

/-- a signature valid for two message vectors under one key: the two vectors have the same image
under the key's generators (a discrete-log relation among hash-derived generators otherwise) -/
theorem bbs_message_binding (x e : F) (A g1 : G) (ys : List G) (msgs msgs' : List F)
    (h : BbsValid x e A g1 ys msgs) (h' : BbsValid x e A g1 ys msgs') :
    msm ys msgs = msm ys msgs' := by
  have := h.2.symm.trans h'.2
  unfold bbsB at this
  exact add_left_cancel this

/-- a signature valid under two secret keys for the same messages: the keys are equal -/
theorem bbs_key_binding (x x' e : F) (A g1 : G) (ys : List G) (msgs : List F)
    (h : BbsValid x e A g1 ys msgs) (h' : BbsValid x' e A g1 ys msgs) : x = x' := by
  have e1 := h.2.trans h'.2.symm
  have : (x - x') • A = 0 := by
    have : (x + e) • A - (x' + e) • A = 0 := sub_eq_zero.mpr e1
    rw [← sub_smul] at this
    simpa using this
  rcases smul_eq_zero.mp this with h0 | h0
  · exact sub_eq_zero.mp h0
  · exact absurd h0 h.1

/-- changing the `e` component: valid `(A, e)` and `(A, e')` on the same key and messages force `e = e'` -/
theorem bbs_component_binding_e (x e e' : F) (A g1 : G) (ys : List G) (msgs : List F)
    (h : BbsValid x e A g1 ys msgs) (h' : BbsValid x e' A g1 ys msgs) : e = e' := by
  have e1 := h.2.trans h'.2.symm
  have : (e - e') • A = 0 := by
    have : (x + e) • A - (x + e') • A = 0 := sub_eq_zero.mpr e1
    rw [← sub_smul] at this
    simpa using this
  rcases smul_eq_zero.mp this with h0 | h0
  · exact sub_eq_zero.mp h0
  · exact absurd h0 h.1

/-- changing the `A` component: for fixed `e` the point is determined -/
theorem bbs_component_binding_A (x e : F) (A A' g1 : G) (ys : List G) (msgs : List F) (hxe : x + e ≠ 0)
    (h : BbsValid x e A g1 ys msgs) (h' : BbsValid x e A' g1 ys msgs) : A = A' := by
  have e1 := h.2.trans h'.2.symm
  exact smul_right_injective G hxe e1

/-! ### BBS proof of knowledge -/

/-- completeness for every revealed/hidden partition: with `a_bar = r•A`, `b_bar = r•B - e•a_bar`,
secrets `(hidden messages, r⁻¹' e, r⁻¹')` for `r⁻¹' = (-r)⁻¹`, any nonces `n`, the recomputed commitment
equals the prover's `t = msm (hid ++ [a_bar, b_bar]) n` and the pairing relation `b_bar = x • a_bar`
holds. `hpart` says the revealed list and the hidden messages partition the signed vector. -/
theorem bbs_pok_complete (x e r c : F) (A g1 : G) (ys : List G) (msgs ms : List F)
    (rvl : List (Nat × F)) (n : List F) (hr : r ≠ 0)
    (hsig : (x + e) • A = bbsB g1 ys msgs)
    (hpart : msm ys msgs = msm (hiddenGens ys (rvl.map (·.1))) ms + revealedSum ys rvl)
    (hms : ms.length = (hiddenGens ys (rvl.map (·.1))).length)
    (hn : n.length = ms.length + 2) :
    let abar := r • A
    let bbar := r • bbsB g1 ys msgs - e • abar
    let hid := hiddenGens ys (rvl.map (·.1))
    let secrets := ms ++ [(-r)⁻¹ * e, (-r)⁻¹]
    bbsRecommit g1 ys rvl c ⟨abar, bbar, msm (hid ++ [abar, bbar]) n, respond c n secrets⟩
        = msm (hid ++ [abar, bbar]) n
      ∧ bbar = x • abar := by
  intro abar bbar hid secrets
  have hnr : -r ≠ 0 := neg_ne_zero.mpr hr
  constructor
  · have hlen : (hid ++ [abar, bbar]).length = n.length := by simp [hid, hn, hms]
    have hlen2 : (hid ++ [abar, bbar]).length = secrets.length := by simp [hid, secrets, hms]
    have hrel : msm (hid ++ [abar, bbar]) secrets = bbsLhs g1 ys rvl := by
      simp only [secrets]
      rw [msm_append _ _ _ _ hms.symm]
      simp only [msm_cons, msm_nil_left, add_zero, bbsLhs]
      have hb : bbsB g1 ys msgs = g1 + (msm hid ms + revealedSum ys rvl) := by
        unfold bbsB; rw [hpart]
      simp only [bbar, abar, hb, smul_sub, smul_add, smul_smul]
      have h1 : (-r)⁻¹ * r = -1 := by field_simp
      have h2 : (-r)⁻¹ * e * r = -e := by field_simp
      have h3 : (-r)⁻¹ * (e * r) = -e := by field_simp
      rw [h1, h2, h3]
      module
    have := recommit_complete (hid ++ [abar, bbar]) c n secrets hlen hlen2
    rw [hrel] at this
    simpa [bbsRecommit, recommit, hid, List.append_assoc] using this
  · simp only [bbar, abar]
    rw [← hsig, smul_smul, smul_smul, smul_smul, ← sub_smul]
    congr 1; ring

/-- special soundness: two accepting recomputations (same `a_bar, b_bar, t`, different challenges,
response vectors of the checked length) give hidden messages and `(s₁, s₂)` with
`g1 + Σ_revealed + msm hid ms + s₁•a_bar + s₂•b_bar = 0` -/
theorem bbs_pok_sound (g1 : G) (ys : List G) (rvl : List (Nat × F)) (abar bbar t : G)
    (c c' : F) (p p' : List F) (hc : c ≠ c')
    (hl : p.length = (hiddenGens ys (rvl.map (·.1))).length + 2)
    (hl' : p'.length = (hiddenGens ys (rvl.map (·.1))).length + 2)
    (h1 : t = bbsRecommit g1 ys rvl c ⟨abar, bbar, t, p⟩)
    (h2 : t = bbsRecommit g1 ys rvl c' ⟨abar, bbar, t, p'⟩) :
    ∃ (ms : List F) (s1 s2 : F), ms.length = (hiddenGens ys (rvl.map (·.1))).length ∧
      g1 + revealedSum ys rvl + msm (hiddenGens ys (rvl.map (·.1))) ms + s1 • abar + s2 • bbar = 0 := by
  set hid := hiddenGens ys (rvl.map (·.1)) with hhid
  have e1 : recommit (hid ++ [abar, bbar]) (bbsLhs g1 ys rvl) c p = t := by
    rw [h1]; simp [bbsRecommit, recommit, hid, List.append_assoc]
  have e2 : recommit (hid ++ [abar, bbar]) (bbsLhs g1 ys rvl) c' p' = t := by
    rw [h2]; simp [bbsRecommit, recommit, hid, List.append_assoc]
  have hs := recommit_sound (hid ++ [abar, bbar]) (bbsLhs g1 ys rvl) t c c' p p' hc
    (by simp [hl]) (by simp [hl']) e1 e2
  -- split the extracted vector
  set s := extract c c' p p' with hs_def
  have hslen : s.length = hid.length + 2 := by
    rw [hs_def, extract_length _ _ _ _ (by omega)]; exact hl
  obtain ⟨ms, r, hsr, hm⟩ : ∃ m r, s = m ++ r ∧ m.length = hid.length :=
    ⟨s.take hid.length, s.drop hid.length, (List.take_append_drop _ _).symm, by simp [hslen]⟩
  have hr : r.length = 2 := by rw [hsr] at hslen; simp at hslen; omega
  match r, hr with
  | [s1, s2], _ =>
    refine ⟨ms, s1, s2, hm, ?_⟩
    rw [hsr, msm_append _ _ _ _ hm.symm] at hs
    simp only [msm_cons, msm_nil_left, add_zero, bbsLhs] at hs
    linear_combination (norm := module) hs

/-- the extracted relation together with the pairing check is a BBS signature on the full vector
(`B = g1 + Σ_revealed + msm hid ms`), provided `s₂ ≠ 0`: `A := -s₂ • a_bar`, `e := s₁/s₂` -/
theorem bbs_extracted_is_signature (x s1 s2 : F) (abar bbar B : G)
    (hrel : B + s1 • abar + s2 • bbar = 0) (hpair : bbar = x • abar) (hs2 : s2 ≠ 0) :
    (x + s1 / s2) • ((-s2) • abar) = B := by
  subst hpair
  rw [smul_smul]
  have : (x + s1 / s2) * -s2 = -(s1 + s2 * x) := by field_simp; ring
  rw [this]
  linear_combination (norm := module) (-1 : F) • hrel

/-- without the response-count check one extra response makes the recomputed commitment
independent of the challenge (pinned behaviour, finding F02) -/
theorem bbs_overlong_ignores_challenge (g1 : G) (ys : List G) (rvl : List (Nat × F))
    (π : BbsPok F G) (c c' : F)
    (hl : π.proof.length = (hiddenGens ys (rvl.map (·.1))).length + 3) :
    bbsRecommit g1 ys rvl c π = bbsRecommit g1 ys rvl c' π := by
  have := recommit_overlong (hiddenGens ys (rvl.map (·.1)) ++ [π.abar, π.bbar]) (bbsLhs g1 ys rvl) c c' π.proof
    (by simp [hl])
  simpa [bbsRecommit, recommit, List.append_assoc] using this

/-- the verifier as coded rejects every response vector of another length -/
theorem bbsVerify_length [DecidableEq G] (g1 : G) (ys : List G) (rvl : List (Nat × F)) (c : F)
    (π : BbsPok F G) (pk : Bool) (h : bbsVerify g1 ys rvl c π pk = true) :
    π.proof.length = (hiddenGens ys (rvl.map (·.1))).length + 2 ∧ π.t = bbsRecommit g1 ys rvl c π
      ∧ π.abar ≠ 0 ∧ π.bbar ≠ 0 ∧ pk = true := by
  simp only [bbsVerify, Bool.and_eq_true, Bool.not_eq_true', Bool.or_eq_false_iff,
    decide_eq_false_iff_not, decide_eq_true_eq] at h
  exact ⟨h.1.1.2, h.1.2, h.1.1.1.1.1.1.1, h.1.1.1.1.1.1.2, h.2⟩

/-- **Why `t` has to enter the challenge hash.** For *every* challenge, every response vector of the right length and
every pair `(Ā, B̄)` that passes the pairing test (a harvested pair re-randomised does), the point
`t := bbsRecommit …` makes the verifier accept. If the challenge did not depend on `t`, anybody could pick the responses,
learn the challenge and solve for `t` — a proof without any signature (seeded change `bbs-t-not-hashed`, caught by the
simulated-proof attack of C01). With `t` hashed the challenge is fixed only after `t`, and `bbs_pok_sound` applies. -/
theorem bbs_simulatable_when_t_is_free [DecidableEq G] (g1 : G) (ys : List G) (rvl : List (Nat × F)) (c : F)
    (abar bbar : G) (resp : List F) (ha : abar ≠ 0) (hb : bbar ≠ 0)
    (hl : resp.length = (hiddenGens ys (rvl.map (·.1))).length + 2)
    (hidx : rvl.all (fun p => decide (p.1 < ys.length)) = true) (hnd : (rvl.map (·.1)).Nodup)
    (ht : bbsRecommit g1 ys rvl c ⟨abar, bbar, 0, resp⟩ ≠ 0) :
    bbsVerify g1 ys rvl c ⟨abar, bbar, bbsRecommit g1 ys rvl c ⟨abar, bbar, 0, resp⟩, resp⟩ true = true := by
  have hrec : bbsRecommit g1 ys rvl c ⟨abar, bbar, bbsRecommit g1 ys rvl c ⟨abar, bbar, 0, resp⟩, resp⟩
      = bbsRecommit g1 ys rvl c ⟨abar, bbar, 0, resp⟩ := rfl
  simp only [bbsVerify, Bool.and_eq_true, Bool.not_eq_true', Bool.or_eq_false_iff,
    decide_eq_false_iff_not, decide_eq_true_eq, and_true]
  exact ⟨⟨⟨⟨⟨⟨ha, hb⟩, ht⟩, hidx⟩, hnd⟩, hl⟩, hrec.symm ▸ rfl⟩

/-! ### PS -/

/-- PS verification equation (secret-key reading) -/
def PsValid (x ω : F) (yk : List F) (σ1 σ2 : G) (m' : F) (msgs : List F) : Prop :=
  σ1 ≠ 0 ∧ σ2 = (x + m' * ω + (List.zipWith (· * ·) msgs yk).sum) • σ1

/-- `Signature::new`: `σ₂ = (x + m'ω + Σ mᵢyᵢ) • σ₁` verifies -/
theorem ps_sign_verify (x ω m' : F) (yk msgs : List F) (σ1 : G) (h : σ1 ≠ 0) :
    PsValid x ω yk σ1 ((x + m' * ω + (List.zipWith (· * ·) msgs yk).sum) • σ1) m' msgs := ⟨h, rfl⟩

/-- a PS signature valid under two exponents: the exponents agree (so a changed message, key or `m'`
changes the exponent polynomial — equality of exponents is a relation among the secret yᵢ) -/
theorem ps_exponent_binding (k k' : F) (σ1 σ2 : G) (h : σ1 ≠ 0) (h1 : σ2 = k • σ1) (h2 : σ2 = k' • σ1) :
    k = k' := by
  have : (k - k') • σ1 = 0 := by rw [sub_smul, ← h1, ← h2, sub_self]
  rcases smul_eq_zero.mp this with h0 | h0
  · exact sub_eq_zero.mp h0
  · exact absurd h0 h

/-- PS special soundness: the hashed "blind commitment" recomputed for two challenges from response
vectors of the checked length yields `t, m', ms` with `J = t•g2 + m'•w + msm hid ms` -/
theorem ps_pok_sound {G1 : Type} (g2 w : G) (ys : List G) (known : List Nat) (σ1 σ2 : G1) (J R : G)
    (c c' : F) (p p' : List F) (hc : c ≠ c')
    (hl : p.length = (hiddenGens ys known).length + 2) (hl' : p'.length = (hiddenGens ys known).length + 2)
    (h1 : psRecommit g2 w ys known c ⟨σ1, σ2, J, p⟩ = R)
    (h2 : psRecommit g2 w ys known c' ⟨σ1, σ2, J, p'⟩ = R) :
    ∃ (t m' : F) (ms : List F), ms.length = (hiddenGens ys known).length ∧
      J = t • g2 + m' • w + msm (hiddenGens ys known) ms := by
  set hid := hiddenGens ys known
  have e1 : recommit ([g2, w] ++ hid) J c p = R := by rw [← h1]; simp [psRecommit, recommit, hid]
  have e2 : recommit ([g2, w] ++ hid) J c' p' = R := by rw [← h2]; simp [psRecommit, recommit, hid]
  have hs := recommit_sound ([g2, w] ++ hid) J R c c' p p' hc (by simp [hl]) (by simp [hl']) e1 e2
  set s := extract c c' p p' with hs_def
  have hslen : s.length = hid.length + 2 := by
    rw [hs_def, extract_length _ _ _ _ (by omega)]; exact hl
  match s, hslen with
  | t :: m' :: ms, hlen =>
    refine ⟨t, m', ms, by simpa using hlen, ?_⟩
    simp only [List.cons_append, List.nil_append, msm_cons] at hs
    rw [← hs]; module

/-- the extracted opening of `J` and the pairing check give a PS signature `(σ₁, σ₂ - t•σ₁, m')` on the
full vector: if `σ₂ = (x + j) • σ₁` where `j = t + m'ω + Σ mᵢyᵢ` is the exponent of `X + J + Σ_revealed` -/
theorem ps_extracted_is_signature (x ω t m' sm : F) (σ1 σ2 : G) (h : σ2 = (x + (t + m' * ω + sm)) • σ1) :
    σ2 - t • σ1 = (x + m' * ω + sm) • σ1 := by
  rw [h, ← sub_smul]; congr 1; ring

/-- PS completeness of the hashed commitment: responses `n + c•(t, m', ms)` recompute `msm Bs n` -/
theorem ps_pok_complete {G1 : Type} (g2 w : G) (ys : List G) (known : List Nat) (σ1 σ2 : G1)
    (c t m' : F) (ms n : List F) (hms : ms.length = (hiddenGens ys known).length)
    (hn : n.length = ms.length + 2) :
    psRecommit g2 w ys known c
      ⟨σ1, σ2, msm ([g2, w] ++ hiddenGens ys known) (t :: m' :: ms), respond c n (t :: m' :: ms)⟩
      = msm ([g2, w] ++ hiddenGens ys known) n := by
  have := recommit_complete ([g2, w] ++ hiddenGens ys known) c n (t :: m' :: ms)
    (by simp [hn, hms]) (by simp [hms])
  simpa [psRecommit, recommit] using this

/-- non-vacuity: hypotheses of the soundness theorems are met by honest proofs (completeness), and a
concrete instance of the length condition -/
example : (hiddenGens [(1:Nat), 2, 3] [1]).length + 2 = 4 := by decide

/-! ### why a key with a generator at infinity must be refused

`bbs_message_binding` binds the message vector only through `msm ys`: a key one of whose generators is the
point at infinity does not bind the message at that position at all — every value there verifies. The
code refuses such keys (`PublicKey::is_invalid`, *any* generator at infinity); the seeded change
`bbs-key-invalid-all-vs-any` weakened that test and is caught by the degenerate-key scenarios. -/

theorem msm_zero_generator (ys : List G) (msgs : List F) (i : Nat) (a : F) (h : ys[i]? = some 0) :
    msm ys (msgs.set i a) = msm ys msgs := by
  induction ys generalizing msgs i with
  | nil => simp at h
  | cons y ys ih =>
    cases msgs with
    | nil => simp
    | cons m ms =>
      cases i with
      | zero =>
        simp at h
        subst h
        simp [msm]
      | succ i =>
        simp at h
        simp [msm, ih ms i h]

theorem bbs_degenerate_key_unbinds (x e : F) (A g1 : G) (ys : List G) (msgs : List F) (i : Nat) (a : F)
    (h0 : ys[i]? = some 0) (h : BbsValid x e A g1 ys msgs) : BbsValid x e A g1 ys (msgs.set i a) := by
  refine ⟨h.1, ?_⟩
  rw [h.2]
  unfold bbsB
  rw [msm_zero_generator ys msgs i a h0]

/-- non-vacuity: a concrete key with its second generator at infinity, two vectors differing there -/
example : msm ([3, 0, 5] : List ℚ) ([1, 7, 2] : List ℚ) = msm ([3, 0, 5] : List ℚ) ([1, 9, 2] : List ℚ) := by
  simp [msm]

end AC.C17
