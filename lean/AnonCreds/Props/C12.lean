import AnonCreds.Props.C07
/-
C12 — unlinkability of presentations from the same credential. The only signature-derived values
a presentation transmits are the randomised elements; in a group of prime order (one-dimensional:
every non-zero element generates) their distribution does not depend on the signature they were
derived from: a bijection of the holder's randomness maps the elements derived from one valid
signature to those derived from any other valid signature under the same key. The rest of the
presentation is a witness-indistinguishable Σ-protocol (C07) over those elements.
-/
namespace AC.C12
variable {F G : Type} [Field F] [AddCommGroup G] [Module F G]

/-- BBS: `a_bar = r•A`. For signatures `A`, `A' = a•A` (`a ≠ 0`) the randomiser `r' = r/a` gives the same
element; `b_bar = x•a_bar` is determined by it (valid signatures). `r ↦ r/a` is a bijection of F∖{0}. -/
theorem bbs_randomisation (A : G) (a r : F) (ha : a ≠ 0) :
    r • A = (r / a) • (a • A) ∧ (r ≠ 0 → r / a ≠ 0) := by
  constructor
  · rw [smul_smul, div_mul_cancel₀ _ ha]
  · intro hr; exact div_ne_zero hr ha

/-- PS: `(σ₁', σ₂') = (r•σ₁, r•(σ₂ + t•σ₁))` with `σ₂ = k•σ₁`. For another valid signature
`(τ₁, τ₂) = (a•σ₁, k'•τ₁)` the randomness `(r/a, t + k - k')` yields the same pair; the map is a bijection
of (F∖{0}) × F. -/
theorem ps_randomisation (σ1 : G) (a k k' r t : F) (ha : a ≠ 0) :
    let τ1 := a • σ1
    r • σ1 = (r / a) • τ1 ∧
    r • (k • σ1 + t • σ1) = (r / a) • (k' • τ1 + (t + k - k') • τ1) := by
  intro τ1
  constructor
  · simp only [τ1]; rw [smul_smul, div_mul_cancel₀ _ ha]
  · simp only [τ1, smul_smul, ← add_smul]
    congr 1
    field_simp
    ring

/-- accumulator proof: the witness enters as `E_C = C + (σ+ρ)•Z`; for two witnesses `C`, `C' = C + δ•Z`
(one-dimensional group, `Z ≠ 0`) shifting `σ` by `-δ` gives the same element -/
theorem vb20_blinding (C Z : G) (δ σ ρ : F) :
    C + (σ + ρ) • Z = (C + δ • Z) + ((σ - δ) + ρ) • Z := by module

/-- sanity: without the randomiser the element is the signature itself — equal across presentations
of one credential and different across credentials, i.e. linkable -/
theorem unrandomised_is_linkable (A A' : G) (h : A ≠ A') : (1 : F) • A ≠ (1 : F) • A' := by
  simpa using h

/-- why the proof's coins must be independent of its secrets (tie: the `c12:pok-coins-related` oracle on
coins recovered from two answers to one commitment): if the BBS randomiser `r` is reused as the Schnorr
nonce of its own inverse (`r_inv = -1/r`, response `s = r + c·r_inv`), the transmitted response and the
challenge put `r` among the roots of a public quadratic — anyone can solve it and unblind
`A = (1/r)•a_bar`, a value that is the same in every presentation of the credential. -/
theorem randomiser_as_nonce_is_solvable (r c : F) (hr : r ≠ 0) :
    let s := r + c * (-(1 / r))
    r * r - s * r - c = 0 := by
  intro s
  simp only [s]
  field_simp
  ring

/-- … and the unblinded element links: two presentations of one credential with randomisers `r`, `r'`
give `(1/r)•(r•A) = (1/r')•(r'•A)` -/
theorem unblinded_elements_coincide (A : G) (r r' : F) (hr : r ≠ 0) (hr' : r' ≠ 0) :
    (1 / r) • (r • A) = (1 / r') • (r' • A) := by
  rw [smul_smul, smul_smul, one_div_mul_cancel hr, one_div_mul_cancel hr']

example : let r : ℚ := 2; let c : ℚ := 6; r * r - (r + c * (-(1 / r))) * r - c = 0 := by norm_num

end AC.C12
