import AnonCreds.Proofs.Num
import AnonCreds.Proofs.Pack
/-
C18 — claim encodings are deterministic, collision-free, monotone and reversible.
Property theorems only; helper lemmas live in `Proofs/`. Determinism is by construction (the
encodings are Lean functions). `I64 v` is the domain of `isize` on the 64-bit targets the crate supports.
-/
namespace AC.C18
open AC

def I64 (v : Int) : Prop := -(two63 : Int) ≤ v ∧ v < (two63 : Int)

/-- the sign-bit flip is translation by 2^63 on all of i64 -/
theorem zeroCenter_eq_add (v : Int) (h : I64 v) : (zeroCenter v : Int) = v + (two63 : Int) :=
  zeroCenter_cast v h.1 h.2

/-- order preservation: `a < b → enc a < enc b` (as 64-bit integers, hence as field elements) -/
theorem number_strictMono (a b : Int) (ha : I64 a) (hb : I64 b) (hab : a < b) :
    numberToScalar a < numberToScalar b := by
  have := zeroCenter_cast a ha.1 ha.2
  have := zeroCenter_cast b hb.1 hb.2
  unfold numberToScalar; omega

theorem number_injective (a b : Int) (ha : I64 a) (hb : I64 b)
    (h : numberToScalar a = numberToScalar b) : a = b := by
  have h1 := zeroCenter_cast a ha.1 ha.2
  have h2 := zeroCenter_cast b hb.1 hb.2
  unfold numberToScalar at h
  rw [h] at h1; omega

/-- the encoding fits 64 bits, so it is a canonical scalar -/
theorem number_canonical (v : Int) (h : I64 v) : numberToScalar v < rOrder := by
  have := zeroCenter_lt v h.1 h.2
  have : two64 < rOrder := by decide
  unfold numberToScalar; omega

/-- invertibility: `NumberClaim::from(to_scalar(v)) = v` on all of i64 -/
theorem number_roundtrip (v : Int) (h : I64 v) : numberFromScalar (numberToScalar v) = v :=
  number_roundtrip' v h.1 h.2

/-- packing ≤ 31 bytes always succeeds, yields a canonical scalar, and unpacks to the input -/
theorem pack_unpack_bytes (b : Bytes) (h : b.length ≤ 31) :
    ∃ n, encodeBytes b = .ok n ∧ n < rOrder ∧ decodeToBytes n = .ok b := by
  have hc := packBuffer_canonical b h
  refine ⟨beVal (packBuffer b), ?_, hc, ?_⟩
  · unfold encodeBytes
    have : ¬ b.length > 31 := by omega
    simp [this, hc]
  · unfold decodeToBytes decodeToBytesAt tailOfLen
    have hl := packBuffer_length b h
    have e : toBE 32 (beVal (packBuffer b)) = packBuffer b := by
      have := toBE_beVal (packBuffer b); rwa [hl] at this
    rw [e, packBuffer_head b h]
    have : ¬ b.length > 31 := by omega
    simp [this, packBuffer_drop b h]

/-- strings: `decode_to_str (encode_str s) = s` for valid UTF-8 of at most 31 bytes -/
theorem pack_unpack_str (b : Bytes) (h : b.length ≤ 31) (hu : utf8Valid b = true) :
    ∃ n, encodeBytes b = .ok n ∧ decodeToStr n = .ok b := by
  obtain ⟨n, h1, _, h3⟩ := pack_unpack_bytes b h
  refine ⟨n, h1, ?_⟩
  unfold decodeToStr
  unfold decodeToBytes decodeToBytesAt at h3
  rw [h3]; simp [hu]

theorem pack_rejects_long (b : Bytes) (h : 31 < b.length) : encodeBytes b = .err := by
  unfold encodeBytes; simp [h]

/-- packing is injective -/
theorem pack_injective (a b : Bytes) (n : Nat) (ha : encodeBytes a = .ok n) (hb : encodeBytes b = .ok n) :
    a = b := by
  have la : a.length ≤ 31 := by
    by_cases h : 31 < a.length
    · rw [pack_rejects_long a h] at ha; cases ha
    · omega
  have lb : b.length ≤ 31 := by
    by_cases h : 31 < b.length
    · rw [pack_rejects_long b h] at hb; cases hb
    · omega
  obtain ⟨n1, h1, _, d1⟩ := pack_unpack_bytes a la
  obtain ⟨n2, h2, _, d2⟩ := pack_unpack_bytes b lb
  rw [ha] at h1; rw [hb] at h2
  cases h1; cases h2
  rw [d1] at d2; cases d2; rfl

/-! ### byte codec -/

theorem bytes_roundtrip_number (v : Int) (h : I64 v) :
    ClaimData.fromBytes true .number (ClaimData.number v).toBytes = .ok (.number v) := by
  have e8 : (256:Nat) ^ 8 = two64 := rfl
  have hlt : asU64 v < 256 ^ 8 := e8 ▸ asU64_lt v h.1 h.2
  simp only [ClaimData.toBytes, ClaimData.fromBytes, toBE_length]
  simp only [beVal_toBE 8 _ hlt, asI64_asU64 v h.1 h.2]
  simp

theorem bytes_roundtrip_scalar (s : Nat) (h : s < rOrder) :
    ClaimData.fromBytes true .scalar (ClaimData.scalar s).toBytes = .ok (.scalar s) := by
  have hlt : s < 256 ^ 32 := by
    have : rOrder < 256 ^ 32 := by decide
    omega
  simp only [ClaimData.toBytes, ClaimData.fromBytes, toBE_length, beVal_toBE 32 _ hlt]
  simp [h]

theorem bytes_roundtrip_hashed (v : Bytes) :
    ClaimData.fromBytes true .hashed (ClaimData.hashed v false).toBytes = .ok (.hashed v false) := rfl

theorem bytes_roundtrip_revocation16 (id : Bytes) (hl : id.length = 16) (hu : utf8Valid id = true) :
    ClaimData.fromBytes true .revocation (ClaimData.revocation id).toBytes = .ok (.revocation id) := by
  simp [ClaimData.toBytes, ClaimData.fromBytes, hl, hu]

/-- recorded gaps of the byte codec (known findings F18): the flag is lost, enumerations and
revocation identifiers of other lengths do not decode -/
theorem bytes_roundtrip_loses_print_friendly (v : Bytes) :
    ClaimData.fromBytes true .hashed (ClaimData.hashed v true).toBytes = .ok (.hashed v false) := rfl

theorem bytes_roundtrip_enumeration_fails (e : EnumClaim) :
    ClaimData.fromBytes true .enumeration (ClaimData.enumeration e).toBytes = .err := rfl

theorem bytes_roundtrip_revocation_other_length (id : Bytes) (hl : id.length ≠ 16) :
    ClaimData.fromBytes true .revocation (ClaimData.revocation id).toBytes = .err := by
  simp [ClaimData.toBytes, ClaimData.fromBytes, hl]

/-! ### collision freedom of the hash-encoded claims (modulo a hash collision, which is exhibited) -/

/-- pre-hash encoding of enumerations is injective for tags below 256 bytes and sizes below 2^16 -/
theorem enum_prehash_injective (a b : EnumClaim)
    (ha : a.dst.length < 256) (hb : b.dst.length < 256) (hta : a.total < 65536) (htb : b.total < 65536)
    (h : (ClaimData.enumeration a).preHash = (ClaimData.enumeration b).preHash) : a = b := by
  simp only [ClaimData.preHash, Option.some.injEq] at h
  have hlen := congrArg List.length h
  simp [toLE_length] at hlen
  have hd : a.dst = b.dst := by
    have := List.append_inj h (by simp [toLE_length, hlen])
    have := List.append_inj this.1 (by simp [hlen])
    have := List.append_inj this.1 (by simp [hlen])
    exact this.1
  have h' := h
  rw [hd] at h'
  simp only [List.append_assoc, List.append_cancel_left_eq] at h'
  have h2 := List.append_inj h' (by simp [toLE_length])
  have hv : a.value = b.value := by simpa using h2.2
  have ht : a.total = b.total := by
    have e1 := leVal_toLE 2 a.total (by omega)
    have e2 := leVal_toLE 2 b.total (by omega)
    rw [h2.1] at e1; omega
  cases a; cases b; simp_all

/-- two claims of the same type with the same field element carry the same value, or the two
different hash inputs are a collision of the hash-to-scalar map -/
theorem enc_injective_mod_hash (h : Bytes → Nat) (a b : ClaimData) (hty : a.type = b.type)
    (hwa : match a with
      | .number v => I64 v
      | .enumeration e => e.dst.length < 256 ∧ e.total < 65536
      | _ => True)
    (hwb : match b with
      | .number v => I64 v
      | .enumeration e => e.dst.length < 256 ∧ e.total < 65536
      | _ => True)
    (he : a.toScalar h = b.toScalar h) :
    (match a, b with
      | .hashed x _, .hashed y _ => x = y
      | a, b => a = b) ∨ ∃ x y : Bytes, x ≠ y ∧ h x = h y := by
  cases a with
  | hashed x p =>
    cases b with
    | hashed y q =>
      simp only [ClaimData.toScalar, ClaimData.preHash, Option.getD_some] at he
      by_cases hxy : x = y
      · exact Or.inl hxy
      · exact Or.inr ⟨x, y, hxy, he⟩
    | _ => simp [ClaimData.type] at hty
  | number x =>
    cases b with
    | number y =>
      left; simp only [ClaimData.toScalar] at he
      simp [number_injective x y hwa hwb he]
    | _ => simp [ClaimData.type] at hty
  | scalar x =>
    cases b with
    | scalar y => left; simpa [ClaimData.toScalar] using he
    | _ => simp [ClaimData.type] at hty
  | revocation x =>
    cases b with
    | revocation y =>
      simp only [ClaimData.toScalar, ClaimData.preHash, Option.getD_some] at he
      by_cases hxy : x = y
      · left; simp [hxy]
      · right; exact ⟨accSalt ++ x, accSalt ++ y, by simpa using hxy, he⟩
    | _ => simp [ClaimData.type] at hty
  | enumeration x =>
    cases b with
    | enumeration y =>
      by_cases hxy : (ClaimData.enumeration x).preHash = (ClaimData.enumeration y).preHash
      · left
        have := enum_prehash_injective x y hwa.1 hwb.1 hwa.2 hwb.2 hxy
        simp [this]
      · right
        simp only [ClaimData.toScalar] at he
        refine ⟨((ClaimData.enumeration x).preHash).getD [], ((ClaimData.enumeration y).preHash).getD [], ?_, he⟩
        intro hc; apply hxy
        simp only [ClaimData.preHash, Option.getD_some] at hc ⊢
        rw [hc]
    | _ => simp [ClaimData.type] at hty

/-- known finding: the enumeration size is truncated to 16 bits before hashing, so two different
enumeration claims share one encoding whatever the hash function is -/
theorem enum_total_truncated (h : Bytes → Nat) :
    (ClaimData.enumeration ⟨[112], 0, 3⟩).toScalar h = (ClaimData.enumeration ⟨[112], 0, 65539⟩).toScalar h
    ∧ (⟨[112], 0, 3⟩ : EnumClaim) ≠ ⟨[112], 0, 65539⟩ := by
  constructor
  · rfl
  · decide

/-- non-vacuity: concrete values meet the hypotheses used above -/
example : I64 (-5) ∧ I64 0 ∧ I64 9223372036854775807 ∧ I64 (-9223372036854775808) := by
  unfold I64 two63; decide
example : encodeBytes [104, 105] = .ok (2 * 256 ^ 31 + 104 * 256 + 105) := by decide

end AC.C18
