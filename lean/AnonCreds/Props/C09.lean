import AnonCreds.Props.C05
import AnonCreds.Model.Verify
/-
C09 — equality statements are accepted only for identical signed values.
The equality verifier collects, for every referenced (statement, claim index), the hidden-message
response (the lookup of C05) and requires them all equal. Soundness: if that holds for two
challenges, the witnesses the signature extractors assign to those messages — the difference
quotients — are equal; with C17 they are the signed values. Completeness: one shared nonce and equal
values give equal responses (C03.equality_complete), and the honest prover assigns one nonce to every
connected group of references (correspondence: chained-equality scenarios of C03).
-/
namespace AC.C09
variable {F : Type} [Field F]

/-- all responses equal to the first one, for both challenges ⇒ all extracted messages equal -/
theorem equality_sound (c c' : F) (ps ps' : List F) (p0 p0' : F)
    (h : ∀ p ∈ ps, p = p0) (h' : ∀ p ∈ ps', p = p0') (k : Nat) (x x' : F)
    (hk : ps[k]? = some x) (hk' : ps'[k]? = some x') :
    (x - x') / (c - c') = (p0 - p0') / (c - c') := by
  rw [h x (List.mem_of_getElem? hk), h' x' (List.mem_of_getElem? hk')]

open AC.Verify (allEqual)

theorem allEqual_spec [DecidableEq F] (p : F) (ps : List F) (h : allEqual (p :: ps) = true) :
    ∀ q ∈ ps, q = p := by
  intro q hq
  simp only [allEqual, List.all_eq_true, beq_iff_eq] at h
  exact h q hq

/-- a holder with differing signed values cannot satisfy the test for two challenges: if the
extracted messages differ, the responses differ for at least one of the two challenges -/
theorem unequal_values_rejected (c c' p1 p1' p2 p2' : F) (hc : c ≠ c')
    (hne : (p1 - p1') / (c - c') ≠ (p2 - p2') / (c - c')) : p1 ≠ p2 ∨ p1' ≠ p2' := by
  by_contra hcon
  have : p1 = p2 ∧ p1' = p2' := by
    constructor <;> by_contra h <;> exact hcon (by first | exact Or.inl h | exact Or.inr h)
  exact hne (by rw [this.1, this.2])

/-- completeness: a shared nonce and equal values -/
theorem equal_values_accepted [DecidableEq F] (n c m : F) (k : Nat) :
    allEqual (List.replicate (k + 1) (n + c * m)) = true := by
  simp [allEqual, List.replicate_succ]

/-- the comparison covers **every pair** of collected responses (not only neighbours, and not only disjoint
pairs): whatever the number of references, two positions with different responses make the test fail -/
theorem allEqual_every_pair [DecidableEq F] (l : List F) (h : allEqual l = true) (i j : Nat) (x y : F)
    (hi : l[i]? = some x) (hj : l[j]? = some y) : x = y := by
  cases l with
  | nil => simp at hi
  | cons p ps =>
    have hp := allEqual_spec p ps h
    have key : ∀ (k : Nat) (z : F), (p :: ps)[k]? = some z → z = p := by
      intro k z hk
      cases k with
      | zero => simp at hk; exact hk.symm
      | succ k => simp at hk; exact hp z (List.mem_of_getElem? hk)
    rw [key i x hi, key j y hj]

theorem allEqual_false_of_differing [DecidableEq F] (l : List F) (i j : Nat) (x y : F)
    (hi : l[i]? = some x) (hj : l[j]? = some y) (hne : x ≠ y) : allEqual l = false := by
  cases h : allEqual l with
  | false => rfl
  | true => exact absurd (allEqual_every_pair l h i j x y hi hj) hne

/-- the pattern a pairwise-in-chunks comparison misses: `[x, x, y]` -/
example : allEqual ([5, 5, 6] : List ℚ) = false := by decide
example : allEqual ([5, 5, 6, 6] : List ℚ) = false := by decide

section verdict
open AC.Verify AC.Sigma
variable [DecidableEq F]

theorem mapM_some_forall {α β : Type} (f : α → Option β) :
    ∀ (l : List α) (rs : List β), l.mapM f = some rs → ∀ a ∈ l, ∃ b, f a = some b := by
  intro l
  induction l with
  | nil => intro rs _ a ha; cases ha
  | cons x xs ih =>
    intro rs h a ha
    rw [List.mapM_cons] at h
    cases hx : f x with
    | none => rw [hx] at h; simp at h
    | some b =>
      rw [hx] at h
      cases hxs : xs.mapM f with
      | none => rw [hxs] at h; simp at h
      | some bs =>
        rcases List.mem_cons.mp ha with rfl | ha'
        · exact ⟨b, hx⟩
        · exact ih bs hxs a ha'

/-- a reference to a **disclosed** claim has no hidden response: the lookup fails (revealed indices distinct) -/
theorem linkedResponse_disclosed (n off : Nat) (rvl : List Nat) (proof : List F) (claim : Nat)
    (hs : (rvl.mergeSort (· ≤ ·)).Pairwise (· < ·)) (hc : claim ∈ rvl) :
    linkedResponse n off rvl proof claim = none := by
  unfold linkedResponse
  cases h : hiddenProofs n off (rvl.mergeSort (· ≤ ·)) proof with
  | none => rfl
  | some l =>
    have hA := (AC.C05.hiddenProofs_sorted n off _ proof l hs h).1
    have hmem : claim ∈ rvl.mergeSort (· ≤ ·) := (List.mem_mergeSort).mpr hc
    have : l.find? (·.1 == claim) = none := by
      rw [List.find?_eq_none]
      intro x hx hbeq
      have hx1 : x.1 = claim := by simpa using hbeq
      have := (hA x.1 x.2 (by simpa using hx)).2.1
      exact this (hx1 ▸ hmem)
    simp [this]

/-- **An equality statement one of whose references is disclosed is rejected**, whatever the other references
and whatever the responses: nothing links a disclosed value to the hidden ones (the prover refuses the
combination too; seeded change `disclosed-reference-skipped` dropped the reference instead) -/
theorem equalityVerdict_disclosed_reference (offset claim : Nat) (refs : List (Nat × List Nat × List F))
    (r : Nat × List Nat × List F) (hr : r ∈ refs)
    (hs : (r.2.1.mergeSort (· ≤ ·)).Pairwise (· < ·)) (hc : claim ∈ r.2.1) :
    equalityVerdict offset claim refs = false := by
  unfold equalityVerdict
  cases h : refs.mapM (fun r => linkedResponse r.1 offset r.2.1 r.2.2 claim) with
  | none => rfl
  | some rs =>
    obtain ⟨b, hb⟩ := mapM_some_forall _ refs rs h r hr
    rw [linkedResponse_disclosed r.1 offset r.2.1 r.2.2 claim hs hc] at hb
    cases hb

end verdict

example : allEqual ([5, 5, 5] : List ℚ) = true := by decide

end AC.C09
