import AnonCreds.Props.C05
import AnonCreds.Model.Verify
/-
C09 — equality statements are accepted only for identical signed values.
The equality verifier collects, for every referenced (statement, claim index), the hidden-message
response (the lookup of C05) and requires them all equal. Soundness: if that holds for two
challenges, the witnesses the signature extractors assign to those messages — the difference
quotients — are equal; with C17 they are the signed values. Completeness: one shared nonce and equal
values give equal responses (C03.equality_complete), and the honest prover assigns one nonce to every
connected group of references (correspondence: chained-equality scenarios of C03).
-/
namespace AC.C09
variable {F : Type} [Field F]

/-- all responses equal to the first one, for both challenges ⇒ all extracted messages equal -/
theorem equality_sound (c c' : F) (ps ps' : List F) (p0 p0' : F)
    (h : ∀ p ∈ ps, p = p0) (h' : ∀ p ∈ ps', p = p0') (k : Nat) (x x' : F)
    (hk : ps[k]? = some x) (hk' : ps'[k]? = some x') :
    (x - x') / (c - c') = (p0 - p0') / (c - c') := by
  rw [h x (List.mem_of_getElem? hk), h' x' (List.mem_of_getElem? hk')]

open AC.Verify (allEqual)

theorem allEqual_spec [DecidableEq F] (p : F) (ps : List F) (h : allEqual (p :: ps) = true) :
    ∀ q ∈ ps, q = p := by
  intro q hq
  simp only [allEqual, List.all_eq_true, beq_iff_eq] at h
  exact h q hq

/-- a holder with differing signed values cannot satisfy the test for two challenges: if the
extracted messages differ, the responses differ for at least one of the two challenges -/
theorem unequal_values_rejected (c c' p1 p1' p2 p2' : F) (hc : c ≠ c')
    (hne : (p1 - p1') / (c - c') ≠ (p2 - p2') / (c - c')) : p1 ≠ p2 ∨ p1' ≠ p2' := by
  by_contra hcon
  have : p1 = p2 ∧ p1' = p2' := by
    constructor <;> by_contra h <;> exact hcon (by first | exact Or.inl h | exact Or.inr h)
  exact hne (by rw [this.1, this.2])

/-- completeness: a shared nonce and equal values -/
theorem equal_values_accepted [DecidableEq F] (n c m : F) (k : Nat) :
    allEqual (List.replicate (k + 1) (n + c * m)) = true := by
  simp [allEqual, List.replicate_succ]

example : allEqual ([5, 5, 5] : List ℚ) = true := by decide

end AC.C09
