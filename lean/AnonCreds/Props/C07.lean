import AnonCreds.Props.C17
/-
C07 — undisclosed claims stay confidential, including low-entropy ones.
Perfect statements (no computational assumption), for every challenge: (1) a linear Σ-protocol is
witness-indistinguishable — two witnesses of the same statement give identical (commitment, responses)
under a bijection of the nonces; (2) a Pedersen commitment with an independent blinding factor is
perfectly hiding (one-dimensional group); (3) the randomised signature elements a_bar / (σ₁', σ₂') do
not depend on which valid signature was used (C12). Together: signature, commitment, range (its
bulletproof is trusted zero-knowledge) and equality statements reveal nothing about hidden claims.
ElGamal ciphertexts (c1, c2), the byte ciphertexts and the accumulator-witness encryption hide only
computationally (DDH / DLIN, trusted) — by design they are decryptable.
The pinned tree violated (2): the explicit public tests are proved below; the harness ran them on
the real code before the repairs and keeps running the whole catalogue.
-/
namespace AC.C07
open AC.Sigma
variable {F G : Type} [Field F] [AddCommGroup G] [Module F G]

/-- pointwise difference of two witness vectors -/
def diff (s s' : List F) : List F := List.zipWith (· - ·) s s'

theorem msm_diff (Bs : List G) (s s' : List F) (h1 : Bs.length = s.length) (h2 : Bs.length = s'.length) :
    msm Bs (diff s s') = msm Bs s - msm Bs s' := by
  induction Bs generalizing s s' with
  | nil => simp
  | cons b bs ih =>
    cases s with
    | nil => simp at h1
    | cons a as =>
      cases s' with
      | nil => simp at h2
      | cons a' as' =>
        simp only [diff, List.zipWith_cons_cons, msm_cons]
        have := ih as as' (by simpa using h1) (by simpa using h2)
        simp only [diff] at this
        rw [this]; module

/-- **Witness indistinguishability** of every linear Σ-protocol of the code: if `s` and `s'` are
witnesses of the same statement (`msm Bs s = msm Bs s'`), shifting the nonces by `c•(s - s')` turns the
honest transcript for `s` into the honest transcript for `s'` — same commitment, same responses -/
theorem sigma_witness_indistinguishable (Bs : List G) (c : F) (n s s' : List F)
    (h0 : Bs.length = n.length) (h1 : Bs.length = s.length) (h2 : Bs.length = s'.length)
    (hst : msm Bs s = msm Bs s') :
    let n' := respond c n (diff s s')
    msm Bs n' = msm Bs n ∧ respond c n' s' = respond c n s := by
  intro n'
  constructor
  · simp only [n']
    rw [msm_respond Bs c n (diff s s') h0 (by simp [diff, ← h1, ← h2]), msm_diff Bs s s' h1 h2, hst]
    simp
  · exact respond_shift c n s s' (by omega) (by omega)

/-- the nonce shift is a bijection (its inverse is the shift by the opposite difference) -/
theorem shift_involutive (c : F) (n s s' : List F) (h1 : n.length = s.length) (h2 : n.length = s'.length) :
    respond c (respond c n (diff s s')) (diff s' s) = n := by
  induction n generalizing s s' with
  | nil => simp [respond]
  | cons a as ih =>
    cases s with
    | nil => simp at h1
    | cons b bs =>
      cases s' with
      | nil => simp at h2
      | cons b' bs' =>
        have l1 : as.length = bs.length := by simpa using h1
        have l2 : as.length = bs'.length := by simpa using h2
        have := ih bs bs' l1 l2
        simp only [respond, diff, List.zipWith_cons_cons, List.cons.injEq] at *
        exact ⟨by ring, this⟩

/-- **Perfect hiding of the commitment statement** after the repair (independent blinding factor `b`):
in a one-dimensional group (`M = μ•B`) every candidate value has exactly one blinding factor giving
the same commitment, and `b ↦ b + μ(m - m')` is a translation -/
theorem commitment_hiding (M B : G) (μ m m' b : F) (hM : M = μ • B) :
    m • M + b • B = m' • M + (b + μ * (m - m')) • B := by
  subst hM; module

/-- the pinned prover used the claim's Schnorr nonce `n` as blinding factor while publishing
`p = n + c m`: the public value `C - p•B` is `m•(M - c•B)` … -/
theorem pinned_commitment_test (M B : G) (m n c : F) :
    (m • M + n • B) - (n + c * m) • B = m • (M - c • B) := by module

/-- … which separates any two candidates whenever `M ≠ c•B` -/
theorem pinned_commitment_separates (M B : G) (m m' c : F) (hne : m ≠ m') (hM : M - c • B ≠ 0) :
    m • (M - c • B) ≠ m' • (M - c • B) := by
  intro h
  have : (m - m') • (M - c • B) = 0 := by rw [sub_smul, h, sub_self]
  rcases smul_eq_zero.mp this with h0 | h0
  · exact hne (sub_eq_zero.mp h0)
  · exact hM h0

/-- pinned ElGamal randomness = Schnorr nonce: `p•g - c1 = (c m)•g` -/
theorem pinned_elgamal_test (g : G) (m b c : F) : (b + c * m) • g - b • g = (c * m) • g := by module

/-- pinned per-byte nonce = byte ciphertext randomness: `messageᵢ•g - c1ᵢ = (c·byteᵢ)•g`, 256 candidates -/
theorem pinned_byte_test (g : G) (byte bi c : F) : (bi + c * byte) • g - bi • g = (c * byte) • g := by module

/-- after the repairs the published response `p = n + c m` is blinded by a nonce `n` that occurs in no
transmitted point except inside Schnorr commitments that are themselves sums with independent nonces;
for the commitment statement: the view `(C, R, p_m, p_b)` for value `m` with randomness `(n, b, r)` equals
the view for `m'` with randomness `(n + c(m-m'), b + μ(m-m'), r - cμ(m-m'))` (translations, hence a
bijection of the randomness); the hashed Schnorr commitment `R` is recomputed from these by the verifier's
formula and therefore equal as well -/
theorem commitment_view_simulatable (B : G) (μ m m' n b r c : F) :
    let M := μ • B
    let b' := b + μ * (m - m')
    let n' := n + c * (m - m')
    let r' := r - c * (μ * (m - m'))
    m • M + b • B = m' • M + b' • B                      -- same commitment C
    ∧ n + c * m = n' + c * m'                           -- same message response
    ∧ r + c * b = r' + c * b'                           -- same blinder response
    := by
  intro M b' n' r'
  refine ⟨by simp only [M, b']; module, by simp only [n']; ring, by simp only [r', b']; ring⟩

example : diff ([5, 7] : List ℚ) [1, 2] = [4, 5] := by norm_num [diff]

/-- **Recorded finding (encrypt-and-decrypt statement).** The symmetric key that protects the claim text is
derived from `b • K`. With the ElGamal component `c2 = m • M + b • K` public, a candidate `m` gives the
key material back: the authenticated ciphertext then confirms or refutes the guess (replayed on the real
code by the `ved-aes-key-from-candidate` distinguisher). -/
theorem ved_key_material_from_candidate (m b : F) (M K : G) : (m • M + b • K) - m • M = b • K := by
  module

/-- … and a wrong candidate gives other key material (for `M ≠ 0`) -/
theorem ved_wrong_candidate_other_material (m m' b : F) (M K : G) (hM : M ≠ 0) (hne : m ≠ m') :
    (m • M + b • K) - m' • M ≠ b • K := by
  intro h
  have : (m - m') • M = 0 := by
    have e : (m • M + b • K) - m' • M = b • K + (m - m') • M := by module
    rw [e] at h
    simpa using h
  rcases smul_eq_zero.mp this with h1 | h1
  · exact hne (sub_eq_zero.mp h1)
  · exact hM h1

/-- a per-byte element transmitted without randomness (`b • M`, e.g. a ciphertext left at the identity for a
zero byte) is a test for the byte: two byte values give the same element only if they are equal
(`M ≠ 0`) — oracle `byte-element-without-randomness` -/
theorem byte_element_without_randomness_separates (b b' : F) (M : G) (hM : M ≠ 0) (h : b • M = b' • M) :
    b = b' := by
  have : (b - b') • M = 0 := by rw [sub_smul, h, sub_self]
  rcases smul_eq_zero.mp this with h1 | h1
  · exact sub_eq_zero.mp h1
  · exact absurd h1 hM

/-- with fresh randomness `r • K` (`K ≠ 0` independent of `M`) every byte value is consistent with the element -/
theorem byte_element_with_randomness_hides (b b' r : F) (M K : G) (k : F) (hk : k ≠ 0) (hK : K = k⁻¹ • M) :
    ∃ r' : F, b • M + r • K = b' • M + r' • K := by
  refine ⟨r + (b - b') * k, ?_⟩
  subst hK
  simp only [smul_smul]
  have : ((r + (b - b') * k) * k⁻¹) = r * k⁻¹ + (b - b') := by field_simp
  rw [this]
  module


end AC.C07
