import AnonCreds.Proofs.Vb20
/-
C14 — public witness updates agree with secret-key recomputation.
`F` any field, `G` any `F`-vector space (in particular BLS12-381 G1 over 𝔽_r). The pairing check
`e(C, yP̃ + Q̃) = e(V, P̃)` of `MembershipWitness::verify` is, by bilinearity and non-degeneracy,
`(y + α) • C = V`; that reading of the pairing is part of the trusted base.
-/
namespace AC.C14
open AC.Vb20
variable {F : Type} [Field F] [DecidableEq F] {G : Type} [AddCommGroup G] [Module F G]
set_option linter.unusedSectionVars false

/-- the witness relation checked by `MembershipWitness::verify` -/
def IsWitness (α y : F) (C V : G) : Prop := (y + α) • C = V

/-- `MembershipWitness::new` produces a witness (for `y + α ≠ 0`) -/
theorem mwNew_isWitness (α y : F) (V : G) (h : y + α ≠ 0) : IsWitness α y (mwNew α y V) V := by
  unfold IsWitness mwNew
  rw [smul_smul, add_comm α y, mul_inv_cancel₀ h, one_smul]

/-- witnesses are unique: anything that verifies is the from-scratch witness -/
theorem isWitness_unique (α y : F) (C V : G) (h : y + α ≠ 0) (hw : IsWitness α y C V) :
    C = mwNew α y V := by
  unfold IsWitness at hw; unfold mwNew
  rw [← hw, smul_smul, add_comm α y, inv_mul_cancel₀ h, one_smul]

/-- **Batch update.** For every batch of additions and deletions not containing `y`, every secret key
and every witness that verifies against the old accumulator, the witness updated from the
published coefficients alone verifies against the new accumulator. -/
theorem batch_update_isWitness (α y : F) (V C : G) (adds dels : List F)
    (hd : ∀ d ∈ dels, d + α ≠ 0) (hdel : dad y dels ≠ 0)
    (hw : IsWitness α y C V) :
    IsWitness α y (mwBatchUpdate C y adds dels (accUpdate α V adds dels).2) (accUpdate α V adds dels).1 := by
  have hb := batchAdd_ne_zero α dels hd
  unfold IsWitness at *
  simp only [accUpdate, mwBatchUpdate, evaluateDelta, hdel, if_false, polyEvalG_map_smul]
  by_cases hω : createCoefficients α adds dels = []
  · -- no coefficients: the batch is empty, accumulator and witness are unchanged
    obtain ⟨rfl, rfl⟩ := createCoefficients_eq_nil α adds dels hω
    simp [hω, batchDel, batchAdd, hw]
  · simp only [hω, if_false, mwApply, batchDel]
    exact apply_delta_witness α y _ _ _ _ _ C V hdel hb (createCoefficients_eval α y adds dels hd) hw

/-- … and therefore equals the witness recomputed from scratch with the secret key -/
theorem batch_update_eq_recomputed (α y : F) (V : G) (adds dels : List F)
    (hy : y + α ≠ 0) (hd : ∀ d ∈ dels, d + α ≠ 0) (hdel : dad y dels ≠ 0) :
    mwBatchUpdate (mwNew α y V) y adds dels (accUpdate α V adds dels).2
      = mwNew α y (accUpdate α V adds dels).1 :=
  isWitness_unique α y _ _ hy
    (batch_update_isWitness α y V _ adds dels hd hdel (mwNew_isWitness α y V hy))

/-- a batch is a pair (additions, deletions); the accumulator history and the stepwise update -/
def runAcc (α : F) (V : G) : List (List F × List F) → G
  | [] => V
  | b :: bs => runAcc α (accUpdate α V b.1 b.2).1 bs

def runWitness (α : F) (y : F) (V C : G) : List (List F × List F) → G
  | [] => C
  | b :: bs =>
    runWitness α y (accUpdate α V b.1 b.2).1 (mwBatchUpdate C y b.1 b.2 (accUpdate α V b.1 b.2).2) bs

/-- **Every history of batches** (any number, any sizes incl. empty sides): updating batch by batch
from the published data yields a verifying witness, as long as `y` is never deleted. -/
theorem history_update_isWitness (α y : F) (V C : G) (bs : List (List F × List F))
    (hd : ∀ b ∈ bs, ∀ d ∈ b.2, d + α ≠ 0) (hdel : ∀ b ∈ bs, dad y b.2 ≠ 0)
    (hw : IsWitness α y C V) :
    IsWitness α y (runWitness α y V C bs) (runAcc α V bs) := by
  induction bs generalizing V C with
  | nil => simpa [runWitness, runAcc] using hw
  | cons b bs ih =>
    simp only [runWitness, runAcc]
    apply ih
    · intro b' hb'; exact hd b' (by simp [hb'])
    · intro b' hb'; exact hdel b' (by simp [hb'])
    · exact batch_update_isWitness α y V C b.1 b.2 (hd b (by simp)) (hdel b (by simp)) hw

/-! ### one multi-batch call over the whole history (`evaluate_deltas`) -/

/-- the data the issuer publishes along a history of batches, starting from accumulator `V` -/
def published (α : F) (V : G) : List (List F × List F) → List (List F × List F × List G)
  | [] => []
  | b :: bs => (b.1, b.2, (accUpdate α V b.1 b.2).2) :: published α (accUpdate α V b.1 b.2).1 bs

theorem prodD_published (α y : F) (V : G) (bs : List (List F × List F)) :
    prodD y (published α V bs) = (bs.map fun b => dad y b.2).prod := by
  induction bs generalizing V with
  | nil => simp [published, prodD]
  | cons b bs ih => simp [published, prodD, ih]

/-- telescoping identity behind `evaluate_deltas` -/
theorem deltasPoly_eval (α y : F) (V : G) (bs : List (List F × List F)) (pre : F)
    (hd : ∀ b ∈ bs, ∀ d ∈ b.2, d + α ≠ 0) :
    (y + α) • evalG (deltasPoly y pre (published α V bs)) y
      = pre • (prodD y (published α V bs) • runAcc α V bs - prodA y (published α V bs) • V) := by
  induction bs generalizing V pre with
  | nil => simp [published, deltasPoly, evalG, prodD, prodA, runAcc]
  | cons b bs ih =>
    have hdb : ∀ d ∈ b.2, d + α ≠ 0 := hd b (by simp)
    have hb := batchAdd_ne_zero α b.2 hdb
    have hω := createCoefficients_eval α y b.1 b.2 hdb
    simp only [published, deltasPoly, prodD, prodA, runAcc, evalG_polyAddG, evalG_map_smul', smul_add]
    rw [ih _ _ (fun b' hb' => hd b' (by simp [hb']))]
    simp only [accUpdate, evalG_map_smul, batchDel]
    set ω := polyEval (createCoefficients α b.1 b.2) y with hωd
    set PA := prodA y (published α ((batchAdd α b.1 * (batchAdd α b.2)⁻¹) • V) bs) with hPA
    set PD := prodD y (published α ((batchAdd α b.1 * (batchAdd α b.2)⁻¹) • V) bs) with hPD
    set Vend := runAcc α ((batchAdd α b.1 * (batchAdd α b.2)⁻¹) • V) bs with hVend
    have key : ((y + α) * ω) • V = (batchAdd α b.1 * (batchAdd α b.2)⁻¹ * dad y b.2 - dad y b.1) • V := by
      congr 1
      rw [mul_comm]; rw [hω]; field_simp
    have e : (y + α) • ((PA * pre) • ω • V) = (PA * pre) • (((y + α) * ω) • V) := by
      simp only [smul_smul]; congr 1; ring
    rw [e, key]
    module

theorem prodD_ne_zero (α y : F) (V : G) (bs : List (List F × List F)) (hdel : ∀ b ∈ bs, dad y b.2 ≠ 0) :
    prodD y (published α V bs) ≠ 0 := by
  induction bs generalizing V with
  | nil => simp [published, prodD]
  | cons b bs ih =>
    simp only [published, prodD]
    exact mul_ne_zero (hdel b (by simp)) (ih _ (fun b' hb' => hdel b' (by simp [hb'])))

/-- when nothing at all is published the accumulator did not move -/
theorem deltasPoly_nil (α y : F) (V : G) (bs : List (List F × List F)) (pre : F)
    (h : deltasPoly y pre (published α V bs) = []) : runAcc α V bs = V := by
  induction bs generalizing V pre with
  | nil => simp [runAcc]
  | cons b bs ih =>
    simp only [published, deltasPoly] at h
    obtain ⟨h1, h2⟩ := polyAddG_eq_nil _ _ h
    have hc : createCoefficients α b.1 b.2 = [] := by
      simp only [accUpdate, List.map_eq_nil_iff] at h1
      exact h1
    obtain ⟨ha, hd⟩ := createCoefficients_eq_nil α b.1 b.2 hc
    simp only [runAcc]
    rw [ih _ _ h2]
    simp [accUpdate, ha, hd, batchAdd, batchDel]

/-- **Multi-batch update.** For every history of batches (any number, any sizes, empty ones included)
none of which deletes `y`, the witness updated by **one** `multi_batch_update` call over all the
published data verifies against the final accumulator. -/
theorem multi_batch_update_isWitness (α y : F) (V C : G) (bs : List (List F × List F))
    (hd : ∀ b ∈ bs, ∀ d ∈ b.2, d + α ≠ 0) (hdel : ∀ b ∈ bs, dad y b.2 ≠ 0)
    (hw : IsWitness α y C V) :
    IsWitness α y (mwMultiBatchUpdate C y (published α V bs)) (runAcc α V bs) := by
  have hD := prodD_ne_zero α y V bs hdel
  unfold IsWitness at *
  unfold mwMultiBatchUpdate evaluateDeltas
  simp only [hD, if_false]
  cases hp : deltasPoly y 1 (published α V bs) with
  | nil =>
    simp only [polyEvalG]
    rw [deltasPoly_nil α y V bs 1 hp]; exact hw
  | cons p0 ps =>
    rw [polyEvalG_some, ← hp]
    simp only [mwApply]
    have key := deltasPoly_eval α y V bs 1 hd
    rw [one_smul] at key
    set PD := prodD y (published α V bs)
    set PA := prodA y (published α V bs)
    set E := evalG (deltasPoly y 1 (published α V bs)) y
    have e1 : (y + α) • ((PA * PD⁻¹) • C + PD⁻¹ • E) = (PA * PD⁻¹) • ((y + α) • C) + PD⁻¹ • ((y + α) • E) := by
      module
    rw [e1, hw, key]
    have : (PA * PD⁻¹) • V + PD⁻¹ • (PD • runAcc α V bs - PA • V) = (PD⁻¹ * PD) • runAcc α V bs := by
      module
    rw [this, inv_mul_cancel₀ hD, one_smul]

/-- … which therefore equals the witness obtained batch by batch, and the one recomputed with the secret key -/
theorem multi_batch_eq_stepwise (α y : F) (V C : G) (bs : List (List F × List F))
    (hy : y + α ≠ 0) (hd : ∀ b ∈ bs, ∀ d ∈ b.2, d + α ≠ 0) (hdel : ∀ b ∈ bs, dad y b.2 ≠ 0)
    (hw : IsWitness α y C V) :
    mwMultiBatchUpdate C y (published α V bs) = runWitness α y V C bs := by
  rw [isWitness_unique α y _ _ hy (multi_batch_update_isWitness α y V C bs hd hdel hw),
      isWitness_unique α y _ _ hy (history_update_isWitness α y V C bs hd hdel hw)]


theorem dad_eq_zero_of_mem (y : F) (dels : List F) (h : y ∈ dels) : dad y dels = 0 := by
  induction dels with
  | nil => simp at h
  | cons d ds ih =>
    simp only [dad]
    rcases List.mem_cons.mp h with rfl | h'
    · simp
    · simp [ih h']

/-- **Deleted element.** If `y` is among the deletions the update procedure leaves the witness
unchanged … -/
theorem deleted_no_update (y : F) (C : G) (adds dels : List F) (coefs : List G) (h : y ∈ dels) :
    mwBatchUpdate C y adds dels coefs = C := by
  simp [mwBatchUpdate, evaluateDelta, dad_eq_zero_of_mem y dels h]

/-- … and an unchanged witness verifies against the new accumulator only if the accumulator did
not move. -/
theorem stale_witness_verifies_iff (α y : F) (C V V' : G) (hw : IsWitness α y C V) :
    IsWitness α y C V' ↔ V' = V := by
  unfold IsWitness at *
  constructor
  · intro h; rw [← h, hw]
  · intro h; rw [h, hw]

/-- single-step update, one addition -/
theorem single_step_addition (α y a : F) (V C : G) (hw : IsWitness α y C V) :
    IsWitness α y (mwUpdate C y V ((a + α) • V) [a] []) ((a + α) • V) := by
  unfold IsWitness at *
  simp only [mwUpdate, mwUpdate.go, mwUpdateAdds]
  rw [smul_add, smul_smul, ← hw, smul_smul, smul_smul, ← add_smul]
  congr 1; ring

/-- single-step update, one deletion `d ≠ y` -/
theorem single_step_deletion (α y d : F) (V C : G) (hd : d + α ≠ 0) (hne : d - y ≠ 0)
    (hw : IsWitness α y C V) :
    IsWitness α y (mwUpdate C y V ((d + α)⁻¹ • V) [] [d]) ((d + α)⁻¹ • V) := by
  unfold IsWitness at *
  simp only [mwUpdate, mwUpdate.go, mwUpdateAdds, hne, if_false]
  rw [← hw]
  simp only [smul_sub, smul_smul, ← sub_smul]
  congr 1
  field_simp
  ring

/-- the single-step procedure is **not** correct for two additions in one call (known finding
`single-step-multi-element`): in every field, α = 0, y = 1, V = 1, additions 2 and 3 (new value
6 • V) give 5, not the witness 6 — the old accumulator is added twice. -/
theorem single_step_two_additions_wrong :
    ¬ IsWitness (0 : F) (1 : F) (mwUpdate (F := F) (G := F) 1 1 1 6 [2, 3] []) (6 : F) := by
  unfold IsWitness
  simp only [mwUpdate, mwUpdate.go, mwUpdateAdds, smul_eq_mul]
  intro h
  have : (1 : F) = 0 := by linear_combination (-1 : F) * h
  exact one_ne_zero this

/-- non-membership witnesses: the relation checked by `NonMembershipWitness::verify` is preserved by
batch updates (for `y` outside the deletions) -/
def IsNmWitness (α y : F) (w : NmWitness F G) (P V : G) : Prop := (y + α) • w.c + w.d • P = V

theorem nm_batch_update_isWitness (α y : F) (P V : G) (w : NmWitness F G) (adds dels : List F)
    (hd : ∀ d ∈ dels, d + α ≠ 0) (hdel : dad y dels ≠ 0)
    (hw : IsNmWitness α y w P V) :
    IsNmWitness α y (nmBatchUpdate w y adds dels (accUpdate α V adds dels).2) P (accUpdate α V adds dels).1 := by
  have hb := batchAdd_ne_zero α dels hd
  unfold IsNmWitness at *
  simp only [accUpdate, nmBatchUpdate, evaluateDelta, hdel, if_false, polyEvalG_map_smul]
  by_cases hω : createCoefficients α adds dels = []
  · obtain ⟨rfl, rfl⟩ := createCoefficients_eq_nil α adds dels hω
    simp [hω, batchDel, batchAdd, hw]
  · simp only [hω, if_false, nmApply, batchDel]
    exact apply_delta_nm_witness α y _ _ _ _ _ w.d w.c P V hdel hb
      (createCoefficients_eval α y adds dels hd) hw

/-- **Multi-batch update of a non-membership witness**, for every history not deleting … (the element
was never a member; `hdel` keeps the evaluation defined). -/
theorem nm_multi_batch_update_isWitness (α y : F) (P V : G) (w : NmWitness F G) (bs : List (List F × List F))
    (hd : ∀ b ∈ bs, ∀ d ∈ b.2, d + α ≠ 0) (hdel : ∀ b ∈ bs, dad y b.2 ≠ 0)
    (hw : IsNmWitness α y w P V) :
    IsNmWitness α y (nmMultiBatchUpdate w y (published α V bs)) P (runAcc α V bs) := by
  have hD := prodD_ne_zero α y V bs hdel
  unfold IsNmWitness at *
  unfold nmMultiBatchUpdate evaluateDeltas
  simp only [hD, if_false]
  cases hp : deltasPoly y 1 (published α V bs) with
  | nil =>
    simp only [polyEvalG]
    rw [deltasPoly_nil α y V bs 1 hp]; exact hw
  | cons p0 ps =>
    rw [polyEvalG_some, ← hp]
    simp only [nmApply]
    have key := deltasPoly_eval α y V bs 1 hd
    rw [one_smul] at key
    set PD := prodD y (published α V bs)
    set PA := prodA y (published α V bs)
    set E := evalG (deltasPoly y 1 (published α V bs)) y
    have e1 : (y + α) • ((PA * PD⁻¹) • w.c + PD⁻¹ • E) + (w.d * (PA * PD⁻¹)) • P
        = (PA * PD⁻¹) • ((y + α) • w.c + w.d • P) + PD⁻¹ • ((y + α) • E) := by
      module
    rw [e1, hw, key]
    have : (PA * PD⁻¹) • V + PD⁻¹ • (PD • runAcc α V bs - PA • V) = (PD⁻¹ * PD) • runAcc α V bs := by
      module
    rw [this, inv_mul_cancel₀ hD, one_smul]


/-- non-vacuity: a concrete history over ℚ-like arithmetic is covered (hypotheses satisfiable) -/
example : dad (5 : F) [] ≠ 0 := by simp [dad]

end AC.C14
