import AnonCreds.Model.Registry
import AnonCreds.Props.C14
/-
C13 — issuer registry coherence: atomic operations, bookkeeping matches accumulator.
The concrete state machine `Registry.step` (ordered sets + accumulator value) refines an abstract
status map `String → Status`; all bookkeeping clauses of the property are statements about that map.
-/
namespace AC.C13
open AC.Registry AC.Vb20

inductive Status where
  | never | active | revoked
deriving DecidableEq, Repr

section spec
variable {G : Type}

/-- abstraction: what the bookkeeping says about an identifier -/
def abs (s : State G) (id : String) : Status :=
  if id ∈ s.active then .active else if id ∈ s.elements then .revoked else .never

/-- the abstract specification: issue refuses revoked identifiers, revoke needs a duplicate-free batch
of active identifiers, refresh needs an active identifier; failures change nothing -/
def specStep (σ : String → Status) : Op → (String → Status) × Bool
  | .issue id => if σ id = .revoked then (σ, false) else (fun x => if x = id then .active else σ x, true)
  | .issueFail _ => (σ, false)
  | .revoke ids =>
    if (∀ id ∈ ids, σ id = .active) ∧ ids.Nodup then (fun x => if x ∈ ids then .revoked else σ x, true)
    else (σ, false)
  | .refresh id => (σ, decide (σ id = .active))
  | .persist => (σ, true)
  | .add ids => (fun x => if x ∈ ids ∧ σ x = .never then .active else σ x, true)

def specRun (σ : String → Status) : List Op → (String → Status)
  | [] => σ
  | op :: ops => specRun (specStep σ op).1 ops

/-- well-formedness of the concrete state -/
def WF (s : State G) : Prop := ∀ x, x ∈ s.active → x ∈ s.elements

theorem mem_insertIfAbsent (l : List String) (x y : String) :
    y ∈ insertIfAbsent l x ↔ y ∈ l ∨ y = x := by
  unfold insertIfAbsent
  split
  · constructor
    · intro h; exact Or.inl h
    · rintro (h | rfl) <;> assumption
  · simp

end spec

section refinement
variable {F G : Type} [Field F] [AddCommGroup G] [Module F G]

theorem step_revoke_ok (h : String → F) (α : F) (s : State G) (ids : List String)
    (hc : (ids.all (s.active.contains ·) && decide ids.Nodup) = true) :
    step h α s (.revoke ids) =
      (⟨s.elements, s.active.filter (fun x => !ids.contains x), batchDel α (ids.map h) • s.value⟩, .done) := by
  simp only [step]; rw [if_pos hc]

theorem step_revoke_err (h : String → F) (α : F) (s : State G) (ids : List String)
    (hc : ¬ (ids.all (s.active.contains ·) && decide ids.Nodup) = true) :
    step h α s (.revoke ids) = (s, .err) := by
  simp only [step]; rw [if_neg hc]

theorem specStep_revoke_ok (σ : String → Status) (ids : List String)
    (hc : (∀ id ∈ ids, σ id = .active) ∧ ids.Nodup) :
    specStep σ (.revoke ids) = (fun x => if x ∈ ids then .revoked else σ x, true) := by
  simp only [specStep]; rw [if_pos hc]

theorem specStep_revoke_err (σ : String → Status) (ids : List String)
    (hc : ¬ ((∀ id ∈ ids, σ id = .active) ∧ ids.Nodup)) :
    specStep σ (.revoke ids) = (σ, false) := by
  simp only [specStep]; rw [if_neg hc]

/-- **Atomicity.** An operation that returns an error leaves bookkeeping and value unchanged. -/
theorem error_leaves_state (h : String → F) (α : F) (s : State G) (op : Op)
    (he : (step h α s op).2.isErr = true) : (step h α s op).1 = s := by
  cases op with
  | issue id => simp only [step] at he ⊢; split <;> simp_all [Out.isErr]
  | issueFail id => rfl
  | revoke ids => simp only [step] at he ⊢; split <;> simp_all [Out.isErr]
  | refresh id => simp only [step] at he ⊢; split <;> simp_all [Out.isErr]
  | persist => rfl
  | add ids => simp [step, Out.isErr] at he

/-- saving and restoring is the identity on the modelled state -/
theorem persist_restore (h : String → F) (α : F) (s : State G) : (step h α s .persist).1 = s := rfl

/-- one `add` iteration on the abstract status: only a never-seen identifier changes (to active) -/
theorem abs_addOne (s : State G) (e : String) (hwf : WF s) :
    abs (addOne s e) = (fun x => if x = e ∧ abs s x = .never then .active else abs s x) ∧ WF (addOne s e) := by
  unfold addOne
  by_cases he : e ∈ s.elements
  · simp only [List.contains_eq_mem, he, decide_true, if_true]
    refine ⟨?_, hwf⟩
    funext x
    by_cases hx : x = e
    · subst hx
      have : abs s x ≠ .never := by
        unfold abs; by_cases h1 : x ∈ s.active <;> simp [h1, he]
      simp [this]
    · simp [hx]
  · have hna : e ∉ s.active := fun h => he (hwf e h)
    simp only [List.contains_eq_mem, he, decide_false, Bool.false_eq_true, if_false]
    refine ⟨?_, ?_⟩
    · funext x
      by_cases hx : x = e
      · subst hx
        simp [abs, mem_insertIfAbsent, he, hna]
      · simp [abs, mem_insertIfAbsent, hx]
    · intro x hx
      rw [mem_insertIfAbsent] at hx
      rcases hx with hx | hx
      · exact List.mem_append_left _ (hwf x hx)
      · subst hx; simp

theorem abs_addAll (s : State G) (ids : List String) (hwf : WF s) :
    abs (addAll s ids) = (fun x => if x ∈ ids ∧ abs s x = .never then .active else abs s x)
      ∧ WF (addAll s ids) := by
  induction ids generalizing s with
  | nil => simp [addAll, hwf]
  | cons e es ih =>
    obtain ⟨h1, h2⟩ := abs_addOne s e hwf
    obtain ⟨h3, h4⟩ := ih (addOne s e) h2
    have hfold : addAll s (e :: es) = addAll (addOne s e) es := rfl
    rw [hfold]
    refine ⟨?_, h4⟩
    rw [h3, h1]
    funext x
    by_cases hx : x = e
    · subst hx
      by_cases hn : abs s x = .never <;> simp [hn]
    · by_cases hxs : x ∈ es <;> simp [hx, hxs]

/-- **Refinement.** Each concrete step computes the specification's step on the abstract status map,
fails exactly when the specification fails, and preserves well-formedness. -/
theorem step_refines (h : String → F) (α : F) (s : State G) (op : Op) (hwf : WF s) :
    abs (step h α s op).1 = (specStep (abs s) op).1
    ∧ (step h α s op).2.isErr = !(specStep (abs s) op).2
    ∧ WF (step h α s op).1 := by
  cases op with
  | issue id =>
    have hrev : alreadyRevoked s id = true ↔ abs s id = .revoked := by
      unfold alreadyRevoked abs
      by_cases h1 : id ∈ s.active <;> by_cases h2 : id ∈ s.elements <;> simp [h1, h2]
    by_cases hr : abs s id = .revoked
    · have := hrev.mpr hr
      simp [step, specStep, this, hr, Out.isErr, hwf]
    · have hnr : alreadyRevoked s id = false := by
        cases hb : alreadyRevoked s id with
        | true => exact absurd (hrev.mp hb) hr
        | false => rfl
      simp only [step, specStep, hnr, hr, if_false, Out.isErr, Bool.not_true, Bool.false_eq_true]
      refine ⟨?_, trivial, ?_⟩
      · funext x
        simp only [abs, mem_insertIfAbsent]
        by_cases hx : x = id
        · simp [hx]
        · simp [hx]
      · intro x hx
        rw [mem_insertIfAbsent] at hx ⊢
        rcases hx with hx | hx
        · exact Or.inl (hwf x hx)
        · exact Or.inr hx
  | issueFail id => simp [step, specStep, Out.isErr, hwf]
  | revoke ids =>
    have hmemact : ∀ x, abs s x = .active ↔ x ∈ s.active := by
      intro x
      unfold abs
      by_cases h1 : x ∈ s.active <;> by_cases h2 : x ∈ s.elements <;> simp [h1, h2]
    have hall : (ids.all (s.active.contains ·) = true) ↔ ∀ id ∈ ids, abs s id = .active := by
      simp only [List.all_eq_true, List.contains_eq_mem, decide_eq_true_eq]
      constructor
      · intro hh id hid; exact (hmemact id).mpr (hh id hid)
      · intro hh id hid; exact (hmemact id).mp (hh id hid)
    by_cases hc : (∀ id ∈ ids, abs s id = .active) ∧ ids.Nodup
    · have hc' : (ids.all (s.active.contains ·) && decide ids.Nodup) = true := by
        simp only [Bool.and_eq_true, decide_eq_true_eq]; exact ⟨hall.mpr hc.1, hc.2⟩
      rw [step_revoke_ok h α s ids hc', specStep_revoke_ok _ ids hc]
      refine ⟨?_, rfl, ?_⟩
      · funext x
        by_cases hx : x ∈ ids
        · have hact : x ∈ s.active := (hmemact x).mp (hc.1 x hx)
          simp [abs, hx, hwf x hact]
        · simp [abs, hx]
      · intro x hx
        simp only [List.mem_filter] at hx
        exact hwf x hx.1
    · have hc' : ¬ ((ids.all (s.active.contains ·) && decide ids.Nodup) = true) := by
        intro hb
        simp only [Bool.and_eq_true, decide_eq_true_eq] at hb
        exact hc ⟨hall.mp hb.1, hb.2⟩
      rw [step_revoke_err h α s ids hc', specStep_revoke_err _ ids hc]
      exact ⟨rfl, rfl, hwf⟩
  | refresh id =>
    have hm : id ∈ s.active ↔ abs s id = .active := by
      unfold abs
      by_cases h1 : id ∈ s.active <;> by_cases h2 : id ∈ s.elements <;> simp [h1, h2]
    by_cases ha : abs s id = .active
    · have h1 : id ∈ s.active := hm.mpr ha
      simp [step, specStep, h1, ha, Out.isErr]; exact hwf
    · have h1 : id ∉ s.active := fun hh => ha (hm.mp hh)
      simp [step, specStep, h1, ha, Out.isErr]; exact hwf
  | persist => simp [step, specStep, Out.isErr, hwf]
  | add ids =>
    obtain ⟨h1, h2⟩ := abs_addAll s ids hwf
    simp only [step, specStep, Out.isErr, Bool.not_true]
    exact ⟨h1, trivial, h2⟩

/-- refinement along every history -/
theorem run_refines (h : String → F) (α : F) (s : State G) (ops : List Op) (hwf : WF s) :
    abs (run h α s ops) = specRun (abs s) ops ∧ WF (run h α s ops) := by
  induction ops generalizing s with
  | nil => exact ⟨rfl, hwf⟩
  | cons op ops ih =>
    obtain ⟨h1, _, h3⟩ := step_refines h α s op hwf
    simp only [run, specRun]
    rw [← h1]
    exact ih _ h3

end refinement

/-! ### consequences read off the specification -/

/-- a revoked identifier stays revoked under every operation … -/
theorem revoked_absorbing (σ : String → Status) (op : Op) (id : String) (h : σ id = .revoked) :
    (specStep σ op).1 id = .revoked := by
  cases op with
  | issue j =>
    simp only [specStep]
    split
    · exact h
    · rename_i hj
      by_cases e : id = j
      · subst e; exact absurd h hj
      · simp [e, h]
  | issueFail j => exact h
  | revoke ids =>
    simp only [specStep]
    split
    · by_cases e : id ∈ ids <;> simp [e, h]
    · exact h
  | refresh j => exact h
  | persist => exact h
  | add ids => simp [specStep, h]

/-- … hence along every history -/
theorem revoked_forever (σ : String → Status) (ops : List Op) (id : String) (h : σ id = .revoked) :
    specRun σ ops id = .revoked := by
  induction ops generalizing σ with
  | nil => exact h
  | cons op ops ih => exact ih _ (revoked_absorbing σ op id h)

/-- a revoked identifier is never issued or refreshed again -/
theorem revoked_never_reissued (σ : String → Status) (id : String) (h : σ id = .revoked) :
    (specStep σ (.issue id)).2 = false ∧ (specStep σ (.refresh id)).2 = false := by
  simp [specStep, h]

/-- refresh succeeds exactly for active identifiers -/
theorem refresh_iff_active (σ : String → Status) (id : String) :
    (specStep σ (.refresh id)).2 = true ↔ σ id = .active := by
  simp [specStep]

/-- a successful issuance makes the identifier active and touches no other identifier -/
theorem issue_effect (σ : String → Status) (id x : String) (h : (specStep σ (.issue id)).2 = true) :
    (specStep σ (.issue id)).1 x = if x = id then .active else σ x := by
  simp only [specStep] at h ⊢
  split <;> simp_all

/-- a successful revocation revokes exactly the batch -/
theorem revoke_effect (σ : String → Status) (ids : List String) (x : String)
    (h : (specStep σ (.revoke ids)).2 = true) :
    (specStep σ (.revoke ids)).1 x = if x ∈ ids then .revoked else σ x := by
  simp only [specStep] at h ⊢
  split <;> simp_all

/-- revocation needs every identifier active (issued, not revoked) and listed once -/
theorem revoke_ok_iff (σ : String → Status) (ids : List String) :
    (specStep σ (.revoke ids)).2 = true ↔ (∀ id ∈ ids, σ id = .active) ∧ ids.Nodup := by
  simp only [specStep]
  split <;> simp_all

/-! ### the published value -/

section value
variable {F G : Type} [Field F] [DecidableEq F] [AddCommGroup G] [Module F G]
set_option linter.unusedSectionVars false

theorem batchAdd_append (α : F) (xs ys : List F) :
    batchAdd α (xs ++ ys) = batchAdd α xs * batchAdd α ys := by
  induction xs with
  | nil => simp [batchAdd]
  | cons x xs ih => simp [batchAdd, ih, mul_assoc]

/-- the batch product does not depend on how a batch is cut into blocks (any block sizes, any number of blocks):
what a block-wise / parallel implementation of `batch_additions` has to preserve — in particular no block, and no
remainder shorter than a block, may be left out -/
theorem batchAdd_blocks (α : F) (blocks : List (List F)) :
    batchAdd α blocks.flatten = (blocks.map (batchAdd α)).prod := by
  induction blocks with
  | nil => simp [batchAdd]
  | cons b bs ih => simp [batchAdd_append, ih]

/-- … nor on the order of the identifiers -/
theorem batchAdd_perm (α : F) (xs ys : List F) (h : xs.Perm ys) : batchAdd α xs = batchAdd α ys := by
  induction h with
  | nil => rfl
  | cons x _ ih => simp [batchAdd, ih]
  | swap x y l => simp [batchAdd, mul_left_comm]
  | trans _ _ ih1 ih2 => exact ih1.trans ih2

/-- value invariant: there is a duplicate-free list `R` of exactly the revoked identifiers with
`value = (∏_{y ∈ R} (h y + α))⁻¹ • V₀` — every revoked identifier is divided out exactly once -/
def ValueInv (h : String → F) (α : F) (V0 : G) (s : State G) : Prop :=
  ∃ R : List String, R.Nodup ∧ (∀ x, x ∈ R ↔ abs s x = .revoked) ∧
    s.value = (batchAdd α (R.map h))⁻¹ • V0

theorem valueInv_init (h : String → F) (α : F) (V0 : G) : ValueInv h α V0 ⟨[], [], V0⟩ :=
  ⟨[], List.nodup_nil, by simp [abs], by simp [batchAdd]⟩

theorem valueInv_step (h : String → F) (α : F) (V0 : G) (s : State G) (op : Op)
    (hwf : WF s) (hv : ValueInv h α V0 s) : ValueInv h α V0 (step h α s op).1 := by
  obtain ⟨R, hnd, hmem, hval⟩ := hv
  obtain ⟨habs, herr, _⟩ := step_refines h α s op hwf
  cases op with
  | revoke ids =>
    by_cases hc : (∀ id ∈ ids, abs s id = .active) ∧ ids.Nodup
    · rw [specStep_revoke_ok _ ids hc] at habs herr
      have hok : (ids.all (s.active.contains ·) && decide ids.Nodup) = true := by
        by_contra hcon
        rw [step_revoke_err h α s ids hcon] at herr
        simp [Out.isErr] at herr
      refine ⟨R ++ ids, ?_, ?_, ?_⟩
      · refine List.Nodup.append hnd hc.2 ?_
        intro x hx hx'
        have := (hmem x).mp hx
        rw [hc.1 x hx'] at this
        cases this
      · intro x
        rw [habs]
        simp only [List.mem_append, hmem]
        by_cases hx : x ∈ ids
        · simp [hx]
        · simp [hx]
      · rw [step_revoke_ok h α s ids hok]
        simp only
        rw [hval, smul_smul, List.map_append, batchAdd_append, batchDel, mul_inv, mul_comm]
    · have hs : (step h α s (.revoke ids)).1 = s := by
        apply error_leaves_state
        rw [herr, specStep_revoke_err _ ids hc]; rfl
      rw [hs]; exact ⟨R, hnd, hmem, hval⟩
  | issue id =>
    refine ⟨R, hnd, ?_, ?_⟩
    · intro x
      rw [habs, hmem]
      simp only [specStep]
      split
      · rfl
      · rename_i hj
        by_cases e : x = id
        · subst e; simp [hj]
        · simp [e]
    · simp only [step]; split <;> exact hval
  | issueFail id => exact ⟨R, hnd, hmem, hval⟩
  | refresh id =>
    refine ⟨R, hnd, ?_, ?_⟩
    · intro x; rw [habs, hmem]; simp [specStep]
    · simp only [step]; split <;> exact hval
  | persist => exact ⟨R, hnd, hmem, hval⟩
  | add ids =>
    refine ⟨R, hnd, ?_, ?_⟩
    · intro x
      rw [habs, hmem]
      simp only [specStep]
      by_cases hx : x ∈ ids ∧ abs s x = .never
      · simp [hx]
      · simp [hx]
    · have hvalue : ∀ (t : State G) (l : List String), (addAll t l).value = t.value := by
        intro t l
        induction l generalizing t with
        | nil => rfl
        | cons e es ih =>
          have : addAll t (e :: es) = addAll (addOne t e) es := rfl
          rw [this, ih]
          unfold addOne; split <;> rfl
      simp only [step]; rw [hvalue]; exact hval

/-- the invariant holds in every reachable state -/
theorem valueInv_reachable (h : String → F) (α : F) (V0 : G) (ops : List Op) :
    ValueInv h α V0 (run h α ⟨[], [], V0⟩ ops) ∧ WF (run h α (⟨[], [], V0⟩ : State G) ops) := by
  suffices ∀ s : State G, WF s → ValueInv h α V0 s → ValueInv h α V0 (run h α s ops) ∧ WF (run h α s ops) from
    this _ (by intro x hx; simp at hx) (valueInv_init h α V0)
  induction ops with
  | nil => intro s hwf hv; exact ⟨hv, hwf⟩
  | cons op ops ih =>
    intro s hwf hv
    simp only [run]
    exact ih _ (step_refines h α s op hwf).2.2 (valueInv_step h α V0 s op hwf hv)

/-- every handle the issuer hands out (issuance or refresh) verifies against the value published at
that moment -/
theorem issued_handle_verifies (h : String → F) (α : F) (s : State G) (op : Op) (w : G) (id : String)
    (hop : op = .issue id ∨ op = .refresh id) (hne : h id + α ≠ 0)
    (hout : (step h α s op).2 = .handle w) :
    C14.IsWitness α (h id) w (step h α s op).1.value := by
  rcases hop with rfl | rfl
  · simp only [step] at hout ⊢
    by_cases hr : alreadyRevoked s id = true
    · rw [if_pos hr] at hout; cases hout
    · rw [if_neg hr] at hout ⊢
      cases hout; exact C14.mwNew_isWitness α (h id) s.value hne
  · simp only [step] at hout ⊢
    by_cases hr : s.active.contains id = true
    · rw [if_pos hr] at hout ⊢
      cases hout; exact C14.mwNew_isWitness α (h id) s.value hne
    · rw [if_neg hr] at hout; cases hout

/-- a handle valid for an earlier value verifies against the current one iff the value is unchanged;
after any successful non-empty revocation the value is `k⁻¹ • V` with `k = ∏ (h y + α)` -/
theorem stale_handle_verifies_iff (α y : F) (C V V' : G) (hw : C14.IsWitness α y C V) :
    C14.IsWitness α y C V' ↔ V' = V :=
  C14.stale_witness_verifies_iff α y C V V' hw

/-- the pinned `revoke` was not atomic: batch `[a, x]` with `a` active and `x` not fails after
removing `a` (replayed on the real code before the repair) -/
theorem pinned_revoke_partial_on_error (h : String → F) (α : F) (V : G) :
    (pinnedRevoke h α (⟨["a"], ["a"], V⟩ : State G) ["a", "x"]).2.isErr = true
    ∧ (pinnedRevoke h α (⟨["a"], ["a"], V⟩ : State G) ["a", "x"]).1.active = [] := by
  simp [pinnedRevoke, pinnedRevoke.go, Out.isErr]

end value

/-- non-vacuity: a concrete history on the specification: issue a, b; revoke [a]; a stays revoked,
b active, c never issued — the three statuses are distinguishable -/
example :
    let σ := specRun (fun _ => Status.never) [.issue "a", .issue "b", .revoke ["a"], .issue "a", .refresh "a"]
    σ "a" = .revoked ∧ σ "b" = .active ∧ σ "c" = .never := by decide

end AC.C13
