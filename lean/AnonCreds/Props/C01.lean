import AnonCreds.Model.Verify
import AnonCreds.Props.C17
/-
C01 — unforgeability: an accepted presentation is backed by a valid issuer signature.
Two layers. (1) Decision logic of `Presentation::verify`, for **every** presentation object and schema:
acceptance implies that every signature statement is matched with a *signature* proof that passed the
disclosed-claims check and its proof-of-knowledge verifier, after the challenge comparison succeeded.
(2) The algebra behind that verifier (C17): special soundness of the BBS / PS proof of knowledge for
response vectors of the checked length, whose extracted witness is a signature on the full vector.
Passing from (2) to "no efficient adversary" is the forking lemma + q-SDH / PS assumption (trusted).
-/
namespace AC.C01
open AC.Verify

theorem firstSome_none {α β} (f : α → Option β) (l : List α) (h : firstSome f l = none) :
    ∀ a ∈ l, f a = none := by
  induction l with
  | nil => intro a ha; cases ha
  | cons x xs ih =>
    intro a ha
    simp only [firstSome] at h
    cases hx : f x with
    | some b => rw [hx] at h; cases h
    | none =>
      rw [hx] at h
      rcases List.mem_cons.mp ha with rfl | ha'
      · exact hx
      · exact ih h a ha'

variable {F : Type} [DecidableEq F]

/-- what a passed plan stage consists of -/
theorem planStage_none (enc : ClaimData → F) (stmts : List Stmt) (p : Pres F)
    (h : planStage enc stmts p = none) :
    p.proofs.any (fun e => e.2.innerId != e.1) = false ∧
    firstSome (planSig enc p) (stmts.filterMap fun | .sig s => some s | _ => none) = none ∧
    firstSome (planPred stmts p) (stmts.filterMap fun | .pred q => some q | _ => none) = none := by
  unfold planStage at h
  simp only at h
  split at h
  · cases h
  · rename_i hid
    split at h
    · cases h
    · rename_i hsig
      exact ⟨by simpa using hid, hsig, h⟩

/-- acceptance ⇒ the plan stage passed, the challenge comparison succeeded and **every** statement's
verifier accepted -/
theorem verify_ok_checks (enc : ClaimData → F) (stmts : List Stmt) (p : Pres F) (ck : Checks)
    (h : verify enc stmts p ck = .ok) :
    planStage enc stmts p = none ∧ ck.challengeOk = true ∧ ∀ s ∈ stmts, ck.stmtOk s.id = true := by
  unfold verify at h
  split at h
  · cases h
  · rename_i hplan
    split at h
    · cases h
    · rename_i hc
      split at h
      · cases h
      · rename_i hf
        refine ⟨hplan, by simpa using hc, ?_⟩
        intro s hs
        have := List.find?_eq_none.mp hf s hs
        simpa using this

/-- acceptance ⇒ every proof of the presentation is stored under the statement id it carries -/
theorem verify_ok_proofs_under_own_id (enc : ClaimData → F) (stmts : List Stmt) (p : Pres F) (ck : Checks)
    (h : verify enc stmts p ck = .ok) : ∀ e ∈ p.proofs, e.2.innerId = e.1 := by
  have h1 := (planStage_none enc stmts p (verify_ok_checks enc stmts p ck h).1).1
  intro e he
  have := List.any_eq_false.mp h1 e he
  simpa using this

/-- acceptance ⇒ every signature statement of the schema carries a proof of the *signature* variant
whose inner map passed the disclosed-claims check against the reported claims (no statement is
skipped, whatever variants the presentation places under its id) -/
theorem verify_ok_covers_signature_statements (enc : ClaimData → F) (stmts : List Stmt) (p : Pres F)
    (ck : Checks) (h : verify enc stmts p ck = .ok) (s : SigStmt) (hs : Stmt.sig s ∈ stmts) :
    ∃ pr rep, p.proofs.lookup s.id = some pr ∧ pr.kind = .signature ∧
      p.disclosed.lookup s.id = some rep ∧ checkDisclosed enc s pr.inner rep = true ∧
      ck.stmtOk s.id = true := by
  obtain ⟨hplan, _, hall⟩ := verify_ok_checks enc stmts p ck h
  have hck := hall (.sig s) hs
  have hsig := (planStage_none enc stmts p hplan).2.1
  have hmem : s ∈ stmts.filterMap (fun | .sig s => some s | _ => none) := by
    rw [List.mem_filterMap]; exact ⟨.sig s, hs, rfl⟩
  have hp := firstSome_none _ _ hsig s hmem
  unfold planSig at hp
  split at hp
  · cases hp
  · rename_i pr hpr
    split at hp
    · cases hp
    · rename_i hk
      split at hp
      · cases hp
      · rename_i rep hrep
        split at hp
        · rename_i hcd
          exact ⟨pr, rep, hpr, by simpa using hk, hrep, hcd, hck⟩
        · cases hp

/-- acceptance ⇒ every predicate statement carries a proof of its own variant -/
theorem verify_ok_covers_predicates (enc : ClaimData → F) (stmts : List Stmt) (p : Pres F)
    (ck : Checks) (h : verify enc stmts p ck = .ok) (q : PredStmt) (hq : Stmt.pred q ∈ stmts) :
    ∃ pr, p.proofs.lookup q.id = some pr ∧ pr.kind = q.kind ∧ ck.stmtOk q.id = true := by
  obtain ⟨hplan, _, hall⟩ := verify_ok_checks enc stmts p ck h
  have hck := hall (.pred q) hq
  have hpred := (planStage_none enc stmts p hplan).2.2
  have hmem : q ∈ stmts.filterMap (fun | .pred q => some q | _ => none) := by
    rw [List.mem_filterMap]; exact ⟨.pred q, hq, rfl⟩
  have hp := firstSome_none _ _ hpred q hmem
  unfold planPred at hp
  split at hp
  · cases hp
  · rename_i pr hpr
    split at hp
    · cases hp
    · rename_i hk
      exact ⟨pr, hpr, by simpa using hk, hck⟩

/-- the pinned dispatch skipped a signature statement whose id carried another variant (finding F01):
in the repaired model such an object is rejected at the plan stage, for every schema containing the
statement, every other content and every outcome of the cryptographic checks -/
theorem other_variant_rejected (enc : ClaimData → F) (stmts : List Stmt) (s : SigStmt) (hs : Stmt.sig s ∈ stmts)
    (p : Pres F) (ck : Checks) (pr : ProofM F) (hp : p.proofs.lookup s.id = some pr) (hk : pr.kind ≠ .signature) :
    verify enc stmts p ck ≠ .ok := by
  intro h
  obtain ⟨pr', _, h1, h2, _⟩ := verify_ok_covers_signature_statements enc stmts p ck h s hs
  rw [hp] at h1; cases h1
  exact hk h2

/-- a missing proof is rejected likewise -/
theorem missing_proof_rejected (enc : ClaimData → F) (stmts : List Stmt) (s : SigStmt) (hs : Stmt.sig s ∈ stmts)
    (p : Pres F) (ck : Checks) (hp : p.proofs.lookup s.id = none) :
    verify enc stmts p ck ≠ .ok := by
  intro h
  obtain ⟨pr', _, h1, _⟩ := verify_ok_covers_signature_statements enc stmts p ck h s hs
  rw [hp] at h1; cases h1

/-! The cryptographic content of `ck.stmtOk s.id` for a signature statement is `bbsVerify` / `psVerify`
(Model/Sigma.lean); `C17.bbsVerify_length`, `C17.bbs_pok_sound`, `C17.bbs_extracted_is_signature`,
`C17.ps_pok_sound`, `C17.ps_extracted_is_signature` give: two accepting executions on the same hashed
commitments with different challenges yield a valid signature on a vector that carries the
checked scalars at the revealed positions. -/

/-- non-vacuity: an honest-shaped object is accepted by the model -/
example :
    verify (F := Nat) (fun _ => 7)
      [.sig ⟨"s", ["name"], ["id", "name"], [.revocation, .hashed]⟩]
      ⟨[("s", ⟨.signature, "s", [(1, 7)], some [0]⟩)], [("s", [("name", .hashed [65] true)])]⟩
      ⟨true, fun _ => true⟩ = .ok := by decide

end AC.C01
