import AnonCreds.Model.Codecs
import AnonCreds.Proofs.Pack
/-
C19 — wire formats round-trip. Theorems for the hand-written byte codecs (the crate's own codec logic):
`from_bytes (to_bytes x) = some x` for the repaired decoders, for every value; the pinned BBS decoder's
length test is shown unsatisfiable by any encoding. The serde-derived formats (JSON, CBOR, BARE through
third-party back ends) are exercised on the real code for every object kind; the one structural
fact about them that is a property of the crate's attributes — a positional format cannot decode a
struct whose serialiser skipped a field — is stated on a two-field model.
-/
namespace AC.C19
open AC AC.Codecs
variable {α : Type} {w : Nat}

theorem take_app (l rest : Bytes) (n : Nat) (h : l.length = n) : (l ++ rest).take n = l := by
  subst h; simp
theorem drop_app (l rest : Bytes) (n : Nat) (h : l.length = n) : (l ++ rest).drop n = rest := by
  subst h; simp

theorem read_enc (c : Fixed α w) (a : α) (rest : Bytes) : Codecs.read c (c.enc a ++ rest) = some (a, rest) := by
  unfold Codecs.read
  have hw := c.width a
  have h1 : ¬ (c.enc a ++ rest).length < w := by simp [hw]
  simp only [h1, if_false, take_app _ _ _ hw, drop_app _ _ _ hw, c.roundtrip a]

theorem readMany_write (c : Fixed α w) (l : List α) (rest : Bytes) :
    readMany c l.length (writeMany c l ++ rest) = some (l, rest) := by
  induction l with
  | nil => simp [readMany, writeMany]
  | cons a as ih =>
    simp only [List.length_cons, readMany, writeMany, List.flatMap_cons, List.append_assoc, read_enc]
    have := ih
    simp only [writeMany] at this
    rw [this]

theorem writeMany_length (c : Fixed α w) (l : List α) : (writeMany c l).length = l.length * w := by
  induction l with
  | nil => simp [writeMany]
  | cons a as ih =>
    simp only [writeMany, List.flatMap_cons, List.length_append, c.width a] at *
    rw [ih, List.length_cons, Nat.succ_mul]; omega

theorem readCount_u32 (n : Nat) (h : n < 2 ^ 32) (rest : Bytes) : readCount (u32be n ++ rest) = some (n, rest) := by
  unfold readCount u32be
  have hl : (toBE 4 n).length = 4 := toBE_length 4 n
  have h1 : ¬ (toBE 4 n ++ rest).length < 4 := by simp [hl]
  have h2 : (toBE 4 n ++ rest).take 4 = toBE 4 n := take_app _ _ _ hl
  have h3 : (toBE 4 n ++ rest).drop 4 = rest := drop_app _ _ _ hl
  have h4 : beVal (toBE 4 n) = n := beVal_toBE 4 n (by
    have : (256:Nat) ^ 4 = 2 ^ 32 := by decide
    omega)
  simp only [h1, if_false, h2, h3, h4]

/-- **PS public key** round trip, for every key with fewer than 2^32 generators -/
theorem psPk_roundtrip {G1 G2 : Type} (g1 : Fixed G1 48) (g2 : Fixed G2 96) (k : PsPk G1 G2)
    (hy : k.y.length < 2 ^ 32) (hb : k.yBlinds.length < 2 ^ 32) :
    psPkDecode g1 g2 (psPkEncode g1 g2 k) = some k := by
  unfold psPkDecode psPkEncode
  simp only [List.append_assoc, read_enc, readCount_u32 _ hy, readMany_write, readCount_u32 _ hb]
  have : (writeMany g1 k.yBlinds).length = k.yBlinds.length * 48 := writeMany_length g1 k.yBlinds
  have hm := readMany_write g1 k.yBlinds []
  simp only [List.append_nil] at hm
  simp [this, hm]

/-- **BBS proof of knowledge** round trip, for every proof with at least the two mandatory responses -/
theorem bbsPok_roundtrip {G1 F : Type} (g1 : Fixed G1 48) (sc : Fixed F 32) (p : BbsPokBytes G1 F)
    (h2 : 2 ≤ p.proof.length) :
    bbsPokDecode g1 sc (bbsPokEncode g1 sc p) = some p := by
  unfold bbsPokDecode bbsPokEncode
  have hl : (g1.enc p.abar ++ g1.enc p.bbar ++ g1.enc p.t ++ writeMany sc p.proof).length
      = 48 * 3 + p.proof.length * 32 := by
    simp [g1.width, writeMany_length]; omega
  rw [hl]
  have c1 : ¬ (48 * 3 + p.proof.length * 32 < 32 * 2 + 48 * 3) := by omega
  have c2 : ¬ ((48 * 3 + p.proof.length * 32 - 48 * 3) % 32 ≠ 0) := by
    simp
  have c3 : (48 * 3 + p.proof.length * 32 - 48 * 3) / 32 = p.proof.length := by
    rw [Nat.add_sub_cancel_left]; exact Nat.mul_div_cancel _ (by decide)
  simp only [c1, c2, if_false, c3, List.append_assoc, read_enc]
  have hm := readMany_write sc p.proof []
  simp only [List.append_nil] at hm
  simp [hm]

/-- the pinned BBS decoder could not accept any encoding: `144 + 32 k` is never a multiple of 32 -/
theorem pinned_bbs_never_decodes (k : Nat) : pinnedBbsLengthOk (48 * 3 + 32 * k) = false := by
  unfold pinnedBbsLengthOk
  have : (48 * 3 + 32 * k) % 32 = 16 := by omega
  simp [this]

/-! ### positional formats and skipped fields (known finding F20) -/

/-- a struct with an optional first field; the serialiser skips it when absent -/
def serSkip (label : Option Bytes) (n : UInt8) : List (Option Bytes) :=
  (match label with
   | some l => [some l]
   | none => []) ++ [some [n]]

/-- a positional reader expects both fields -/
def dePositional : List (Option Bytes) → Option (Option Bytes × UInt8)
  | [l, some [n]] => some (l, n)
  | _ => none

theorem positional_fails_on_skipped (n : UInt8) : dePositional (serSkip none n) = none := rfl
theorem positional_ok_when_present (l : Bytes) (n : UInt8) :
    dePositional (serSkip (some l) n) = some (some l, n) := rfl

end AC.C19
