import AnonCreds.Props.C17
import AnonCreds.Props.C01
/-
C05 — predicate proofs are bound to the referenced signed claim.
(1) The index → response lookup (`get_hidden_message_proofs`) on a strictly ascending list — which
is what every caller passes after the repair — returns for a hidden index `i` the response at slot
`offset + i - #{revealed < i}`, i.e. the response the proof of knowledge multiplies with `yᵢ`.
(2) Each predicate verifier recomputes its Schnorr commitment with that *shared* response; special
soundness then extracts the predicate's witness with the same difference quotient
`(p - p')/(c - c')` that the signature extractor (C17) assigns to message `i`: the predicate speaks
about the signed value (no binding assumption needed — it is one and the same number).
-/
namespace AC.C05
open AC.Sigma
variable {F G : Type} [Field F] [AddCommGroup G] [Module F G]

/-- commitment statement: two accepting recomputations ⇒ `C = m•M + b•B` with `m` the difference
quotient of the shared message responses -/
theorem commitment_sound (M B C R : G) (c c' pm pm' pb pb' : F) (hc : c ≠ c')
    (h1 : commitmentRecommit M B C c pm pb = R) (h2 : commitmentRecommit M B C c' pm' pb' = R) :
    C = ((pm - pm') / (c - c')) • M + ((pb - pb') / (c - c')) • B := by
  have hne : c - c' ≠ 0 := sub_ne_zero.mpr hc
  unfold commitmentRecommit at h1 h2
  have : (c - c') • C = (c - c') • (((pm - pm') / (c - c')) • M + ((pb - pb') / (c - c')) • B) := by
    rw [smul_add, smul_smul, smul_smul, mul_div_cancel₀ _ hne, mul_div_cancel₀ _ hne]
    linear_combination (norm := module) h2 - h1
  exact smul_right_injective G hne this

/-- ElGamal statement: two accepting recomputations ⇒ `c1 = ρ•g` and `c2 = m•M + ρ•K` with the same
`ρ` and `m` the difference quotient of the shared message responses; hence decryption with
`K = sk•g` yields `c2 - sk•c1 = m•M` -/
theorem elgamal_sound (g M K c1 c2 R1 R2 : G) (c c' pm pm' pb pb' : F) (hc : c ≠ c')
    (h1 : elgamalRecommit g M K c1 c2 c pm pb = (R1, R2))
    (h2 : elgamalRecommit g M K c1 c2 c' pm' pb' = (R1, R2)) :
    c1 = ((pb - pb') / (c - c')) • g ∧
    c2 = ((pm - pm') / (c - c')) • M + ((pb - pb') / (c - c')) • K := by
  have hne : c - c' ≠ 0 := sub_ne_zero.mpr hc
  unfold elgamalRecommit at h1 h2
  have a1 := congrArg Prod.fst h1; have a2 := congrArg Prod.fst h2
  have b1 := congrArg Prod.snd h1; have b2 := congrArg Prod.snd h2
  simp only at a1 a2 b1 b2
  constructor
  · have : (c - c') • c1 = (c - c') • (((pb - pb') / (c - c')) • g) := by
      rw [smul_smul, mul_div_cancel₀ _ hne]
      linear_combination (norm := module) a2 - a1
    exact smul_right_injective G hne this
  · have : (c - c') • c2 = (c - c') • (((pm - pm') / (c - c')) • M + ((pb - pb') / (c - c')) • K) := by
      rw [smul_add, smul_smul, smul_smul, mul_div_cancel₀ _ hne, mul_div_cancel₀ _ hne]
      linear_combination (norm := module) b2 - b1
    exact smul_right_injective G hne this

/-- decryption of an accepted ciphertext is `m•M` for the extracted `m` -/
theorem elgamal_decrypts (g M c1 c2 : G) (sk m ρ : F) (h1 : c1 = ρ • g) (h2 : c2 = m • M + ρ • (sk • g)) :
    c2 - sk • c1 = m • M := by
  rw [h1, h2]; module

/-- the extractor is positional: the witness the signature extractor assigns to slot `k` is the
difference quotient of the responses at slot `k` — the number the predicate extractors use -/
theorem extract_get (c c' : F) (p p' : List F) (k : Nat) (x x' : F) (h : p[k]? = some x) (h' : p'[k]? = some x') :
    (extract c c' p p')[k]? = some ((x - x') / (c - c')) := by
  unfold extract
  rw [List.getElem?_zipWith, h, h']

/-- accumulator statements (revocation, membership) carry their own response `s_y`; the verifier
requires `s_y` to equal the shared response for both challenges, so the two difference quotients agree -/
theorem linked_response_same_witness (c c' sy sy' p p' : F) (h : sy = p) (h' : sy' = p') :
    (sy - sy') / (c - c') = (p - p') / (c - c') := by rw [h, h']

/-! ### the lookup -/

/-- number of revealed indices below `i` -/
def below (rvl : List Nat) (i : Nat) : Nat := (rvl.filter (· < i)).length

theorem go_spec (n off : Nat) (rvl : List Nat) (proof : List F) (hs : rvl.Pairwise (· < ·)) :
    ∀ (fuel i j : Nat) (acc res : List (Nat × F)),
      i + fuel = n →
      (∀ k, k < j → ∃ x, rvl[k]? = some x ∧ x < i) →
      (∀ k x, j ≤ k → rvl[k]? = some x → i ≤ x) →
      hiddenProofs.go off rvl proof fuel i j acc = some res →
      ∃ new : List (Nat × F), res = acc.reverse ++ new ∧
        (∀ a m, (a, m) ∈ new → i ≤ a ∧ a < n ∧ a ∉ rvl ∧ proof[off + a - below rvl a]? = some m) ∧
        (∀ a, i ≤ a → a < n → a ∉ rvl → ∃ m, (a, m) ∈ new) := by
  intro fuel
  induction fuel with
  | zero =>
    intro i j acc res hn _ _ h
    simp only [hiddenProofs.go, Option.some.injEq] at h
    refine ⟨[], by simp [h], ⟨?_, ?_⟩⟩
    · intro a m hm; cases hm
    · intro a h1 h2 _; omega
  | succ fuel ih =>
    intro i j acc res hn hlo hhi h
    simp only [hiddenProofs.go] at h
    -- j revealed indices are below i
    have hbelow : below rvl i = j := by
      unfold below
      have hjl : j ≤ rvl.length := by
        by_contra hcon
        have hlt : rvl.length < j := by omega
        obtain ⟨x, hx, _⟩ := hlo rvl.length hlt
        simp at hx
      conv_lhs => rw [← List.take_append_drop j rvl]
      rw [List.filter_append, List.length_append]
      have h1 : (rvl.take j).filter (· < i) = rvl.take j := by
        apply List.filter_eq_self.mpr
        intro a ha
        obtain ⟨k, hk⟩ := List.getElem?_of_mem ha
        have hkj : k < j := by
          have := (List.getElem?_eq_some_iff.mp hk).1
          simp at this; omega
        rw [List.getElem?_take_of_lt hkj] at hk
        obtain ⟨x, hx, hlt⟩ := hlo k hkj
        rw [hk] at hx; cases hx
        simpa using hlt
      have h2 : (rvl.drop j).filter (· < i) = [] := by
        apply List.filter_eq_nil_iff.mpr
        intro a ha
        obtain ⟨k, hk⟩ := List.getElem?_of_mem ha
        rw [List.getElem?_drop] at hk
        have := hhi (j + k) a (by omega) hk
        simp; omega
      rw [h1, h2]; simp [hjl]
    by_cases hj : rvl[j]? = some i
    · rw [if_pos hj] at h
      obtain ⟨new, hres, hA, hB⟩ := ih (i + 1) (j + 1) acc res (by omega)
        (by
          intro k hk
          by_cases hkj : k < j
          · obtain ⟨x, hx, hlt⟩ := hlo k hkj; exact ⟨x, hx, by omega⟩
          · have : k = j := by omega
            subst this; exact ⟨i, hj, by omega⟩)
        (by
          intro k x hk hx
          have hjk : j < k := by omega
          -- sortedness: rvl[j] = i < rvl[k] = x
          have := List.pairwise_iff_getElem.mp hs j k (by
              have := List.getElem?_eq_some_iff.mp hj; exact this.1) (by
              have := List.getElem?_eq_some_iff.mp hx; exact this.1) hjk
          have e1 := (List.getElem?_eq_some_iff.mp hj).2
          have e2 := (List.getElem?_eq_some_iff.mp hx).2
          rw [e1, e2] at this; omega)
        h
      refine ⟨new, hres, ?_, ?_⟩
      · intro a m hm
        obtain ⟨h1, h2, h3, h4⟩ := hA a m hm
        exact ⟨by omega, h2, h3, h4⟩
      · intro a h1 h2 h3
        have : a ≠ i := by
          intro e; subst e
          exact h3 (List.mem_of_getElem? hj)
        exact hB a (by omega) h2 h3
    · rw [if_neg hj] at h
      -- i is not revealed
      have hni : i ∉ rvl := by
        intro hmem
        obtain ⟨k, hk⟩ := List.getElem?_of_mem hmem
        by_cases hkj : k < j
        · obtain ⟨x, hx, hlt⟩ := hlo k hkj
          rw [hk] at hx; cases hx; omega
        · by_cases hkj' : k = j
          · subst hkj'; exact hj hk
          · -- k > j: rvl[j] exists and is ≥ i, and < rvl[k] = i
            have hjk : j < k := by omega
            have hklt := (List.getElem?_eq_some_iff.mp hk).1
            have hjlt : j < rvl.length := by omega
            have := List.pairwise_iff_getElem.mp hs j k hjlt hklt hjk
            have e2 := (List.getElem?_eq_some_iff.mp hk).2
            have hge := hhi j rvl[j] (Nat.le_refl j) (List.getElem?_eq_getElem hjlt)
            rw [e2] at this; omega
      split at h
      · rename_i m hm
        obtain ⟨new, hres, hA, hB⟩ := ih (i + 1) j ((i, m) :: acc) res (by omega)
          (by intro k hk; obtain ⟨x, hx, hlt⟩ := hlo k hk; exact ⟨x, hx, by omega⟩)
          (by
            intro k x hk hx
            have := hhi k x hk hx
            have : x ≠ i := by
              intro e; subst e; exact hni (List.mem_of_getElem? hx)
            omega)
          h
        refine ⟨(i, m) :: new, by simp [hres], ?_, ?_⟩
        · intro a m' hm'
          rcases List.mem_cons.mp hm' with e | hm''
          · cases e
            exact ⟨Nat.le_refl _, by omega, hni, by rw [hbelow]; exact hm⟩
          · obtain ⟨h1, h2, h3, h4⟩ := hA a m' hm''
            exact ⟨by omega, h2, h3, h4⟩
        · intro a h1 h2 h3
          by_cases e : a = i
          · subst e; exact ⟨m, by simp⟩
          · obtain ⟨m', hm'⟩ := hB a (by omega) h2 h3
            exact ⟨m', by simp [hm']⟩
      · cases h

/-- **The lookup on a strictly ascending revealed list.** It returns exactly the hidden indices, each
with the response at slot `offset + i - #{revealed < i}` — the slot at which the proof of knowledge pairs
`yᵢ` (hidden generators are taken in index order, `offset` = 0 for BBS, 2 for PS). -/
theorem hiddenProofs_sorted (n off : Nat) (rvl : List Nat) (proof : List F) (l : List (Nat × F))
    (hs : rvl.Pairwise (· < ·)) (h : hiddenProofs n off rvl proof = some l) :
    (∀ a m, (a, m) ∈ l → a < n ∧ a ∉ rvl ∧ proof[off + a - below rvl a]? = some m) ∧
    (∀ a, a < n → a ∉ rvl → ∃ m, (a, m) ∈ l) := by
  unfold hiddenProofs at h
  split at h
  · cases h
  · obtain ⟨new, hres, hA, hB⟩ := go_spec n off rvl proof hs n 0 0 [] l (by omega)
      (by intro k hk; omega) (by intro k x _ _; omega) h
    simp only [List.reverse_nil, List.nil_append] at hres
    subst hres
    exact ⟨fun a m hm => (hA a m hm).2, fun a h1 h2 => hB a (Nat.zero_le _) h1 h2⟩

/-- on an **unsorted** list the lookup shifts (pinned behaviour, finding F03/C05): with 5 messages and
revealed indices listed as `[3, 1]`, the response returned for index 2 is the one at slot 2 — the slot of
message 4 in the proof of knowledge (hidden generators y₀, y₂, y₄), not slot 1 -/
theorem unsorted_list_shifts_slot :
    hiddenProofs 5 0 [3, 1] ([10, 12, 14, 100, 101] : List Nat)
      = some [(0, 10), (1, 12), (2, 14), (4, 100)] := by decide

/-- while the sorted list gives message 2 its own response -/
example : hiddenProofs 5 0 [1, 3] ([10, 12, 14, 100, 101] : List Nat) = some [(0, 10), (2, 12), (4, 14)] := by
  decide

/-! ### decision logic: no accepted predicate without a link (Model/Verify.lean) -/
section link
open AC.Verify
variable {F : Type} [DecidableEq F]

/-- **Accepted ⇒ every predicate is linked.** If `verify` accepts, each revocation / membership /
commitment / encryption statement refers to an entry of the presentation that is a *signature* proof,
whose own id names a signature statement of the schema, and whose index → response lookup contains the
statement's claim index — in particular the claim is hidden: a predicate over a disclosed claim (for
which no response exists and nothing could link the predicate proof to the credential) is rejected. -/
theorem verify_ok_predicate_linked (enc : ClaimData → F) (stmts : List Stmt) (p : Pres F) (ck : Checks)
    (h : verify enc stmts p ck = .ok) (q : PredStmt) (hq : Stmt.pred q ∈ stmts)
    (hk : q.kind ≠ .equality ∧ q.kind ≠ .range ∧ q.kind ≠ .signature) :
    ∃ r c rest, q.refs = (r, c) :: rest ∧ resolveRef stmts p r c = true := by
  obtain ⟨hplan, _, _⟩ := C01.verify_ok_checks enc stmts p ck h
  have hpred := (C01.planStage_none enc stmts p hplan).2.2
  have hmem : q ∈ stmts.filterMap (fun | .pred q => some q | _ => none) := by
    rw [List.mem_filterMap]; exact ⟨.pred q, hq, rfl⟩
  have hp := C01.firstSome_none _ _ hpred q hmem
  unfold planPred at hp
  split at hp
  · cases hp
  · rename_i pr hpr
    split at hp
    · cases hp
    · obtain ⟨h1, h2, h3⟩ := hk
      cases hkind : q.kind <;> simp only [hkind] at hp h1 h2 h3 <;> first
        | exact absurd rfl h1
        | exact absurd rfl h2
        | exact absurd rfl h3
        | (cases hrefs : q.refs with
           | nil => rw [hrefs] at hp; cases hp
           | cons rc rest =>
             rw [hrefs] at hp
             obtain ⟨r, c⟩ := rc
             simp only at hp
             by_cases hres : resolveRef stmts p r c = true
             · exact ⟨r, c, rest, rfl, hres⟩
             · simp [hres] at hp)

omit [DecidableEq F] in
/-- what "resolves" means, spelled out -/
theorem resolveRef_spec (stmts : List Stmt) (p : Pres F) (r : String) (c : Nat)
    (h : resolveRef stmts p r c = true) :
    ∃ pr, p.proofs.lookup r = some pr ∧ pr.kind = .signature ∧
      (∃ s, stmts.find? (·.id == pr.innerId) = some (.sig s)) ∧
      ∃ l, pr.hiddenIdx = some l ∧ c ∈ l := by
  unfold resolveRef at h
  cases hl : p.proofs.lookup r with
  | none => rw [hl] at h; cases h
  | some pr =>
    rw [hl] at h
    simp only [Bool.and_eq_true] at h
    obtain ⟨⟨h1, h2⟩, h3⟩ := h
    refine ⟨pr, rfl, by simpa using h1, ?_, ?_⟩
    · cases hf : stmts.find? (·.id == pr.innerId) with
      | none => rw [hf] at h2; cases h2
      | some st =>
        rw [hf] at h2
        cases st with
        | sig s => exact ⟨s, rfl⟩
        | pred _ => cases h2
    · cases hh : pr.hiddenIdx with
      | none => rw [hh] at h3; cases h3
      | some l =>
        rw [hh] at h3
        exact ⟨l, rfl, by simpa using h3⟩


end link

/-- why the verifier's response lookup must be keyed by the *pair* (statement id, claim index): written next
to each other the two collide (oracle: aliasing identifiers `cred`/`cred1`) -/
theorem concatenated_key_collides : "cred" ++ toString 11 = "cred1" ++ toString 1 ∧ ("cred", 11) ≠ ("cred1", 1) := by
  decide

end AC.C05
