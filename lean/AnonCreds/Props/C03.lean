import AnonCreds.Props.C17
import AnonCreds.Proofs.CreatePlan
import AnonCreds.Props.C02
/-
C03 — completeness of honest presentations. What is proved here is the algebra every acceptance
rests on: for each sub-protocol the verifier's recomputation from the honest prover's responses
equals the value the honest prover hashed (so both sides derive the same challenge), for all
witnesses, randomness and challenges. The composition (both sides append the same items in the same
order) is tied to the code by the honest-run correspondence of the harness, not by a theorem.
The *structural* composition is a theorem: `create_passes_verify_plan` — the proofs map `create` emits
(model `Create.createProofs`, compared with the real `create` by `cr.proofs`) passes the whole plan stage
of `verify` (model `Verify.planStage`, compared with the real `verify` by `vf.plan`).
-/
namespace AC.C03
open AC.Sigma
variable {F G : Type} [Field F] [AddCommGroup G] [Module F G]

/-! BBS / PS proofs of knowledge for every partition: `C17.bbs_pok_complete`, `C17.ps_pok_complete`. -/

/-- commitment statement (`presentation/commitment.rs` vs `verifier/commitment.rs`): commitment
`C = m•M + b•B`, hashed `n•M + r•B`, responses `p_m = n + c m` (from the signature proof) and
`p_b = r + c b` -/
theorem commitment_complete (M B : G) (m b n r c : F) :
    commitmentRecommit M B (m • M + b • B) c (n + c * m) (r + c * b) = n • M + r • B := by
  unfold commitmentRecommit; module

/-- ElGamal statement (`presentation/verifiable_encryption.rs` vs `verifier/…`): `c1 = b•g`,
`c2 = m•M + b•K`, hashed `(r•g, n•M + r•K)` -/
theorem elgamal_complete (g M K : G) (m b n r c : F) :
    elgamalRecommit g M K (b • g) (m • M + b • K) c (n + c * m) (r + c * b)
      = (r • g, n • M + r • K) := by
  unfold elgamalRecommit
  refine Prod.ext ?_ ?_ <;> simp only <;> module

/-- per-byte proofs of the decryptable variants have the same shape with `m` the byte value -/
theorem byte_proof_complete (g M K : G) (byte bi nb bb c : F) :
    elgamalRecommit g M K (bi • g) (byte • M + bi • K) c (nb + c * byte) (bb + c * bi)
      = (bb • g, nb • M + bb • K) :=
  elgamal_complete g M K byte bi nb bb c

/-- byte-sum check: if the per-byte randomness sums (with weights 256^(31-i)) to the ciphertext's
randomness and the bytes to the message, the weighted sum of byte ciphertexts is `c2`. Stated for
any weights `ws`. -/
theorem byte_sum_complete (M K : G) (ws bytes bs : List F)
    (hl : ws.length = bytes.length) (hl' : ws.length = bs.length) :
    msm ((List.zipWith (fun by_ b => by_ • M + b • K) bytes bs)) ws
      = (List.zipWith (· * ·) ws bytes).sum • M + (List.zipWith (· * ·) ws bs).sum • K := by
  induction ws generalizing bytes bs with
  | nil => simp
  | cons w ws ih =>
    cases bytes with
    | nil => simp at hl
    | cons y ys =>
      cases bs with
      | nil => simp at hl'
      | cons b bs =>
        simp only [List.zipWith_cons_cons, msm_cons, List.sum_cons]
        rw [ih ys bs (by simpa using hl) (by simpa using hl')]
        module

/-- equality statements: one shared nonce and equal signed scalars give equal responses -/
theorem equality_complete (n c m m' : F) (h : m = m') : n + c * m = n + c * m' := by rw [h]

example : commitmentRecommit (1:F) (2:F) ((3:F) • (1:F) + (4:F) • (2:F)) (5:F) (6 + 5 * 3) (7 + 5 * 4)
    = (6:F) • (1:F) + (7:F) • (2:F) :=
  commitment_complete (1:F) (2:F) (3:F) (4:F) (6:F) (7:F) (5:F)

/-! ### composition at the plan level: what `create` emits, `verify` pairs and resolves -/

open AC.Verify AC.Create AC.CreatePlan in
/-- For every honest (credentials, schema) pair — distinct statement ids, a signature credential per
signature statement and per range statement's `signature_id`, a membership credential per membership
statement — for which `Presentation::create` returns a presentation, that presentation's proofs map
passes everything `Presentation::verify` decides before the challenge comparison: every proof is stored
under its own id, every signature statement finds a signature proof (and its disclosed-claims check,
assumed here and characterised in C02), every predicate statement finds a proof of its own variant, a range
statement's reference is a commitment statement with a commitment proof, and every other reference
resolves to a signature proof whose hidden-message lookup contains the claim index. Holds for any
number of statements and credentials, in any listing order. -/
theorem create_passes_verify_plan {F : Type} [DecidableEq F] (enc : ClaimData → F)
    (types : String → List ClaimType) (inner : String → Inner F)
    (reported : List (String × List (String × ClaimData)))
    (creds : List (String × CredI)) (stmts : List CStmt) (ps : List ProofI)
    (hon : Honest creds stmts)
    (hdisc : ∀ id d l n, CStmt.sig id d l n ∈ stmts →
      ∃ rep, reported.lookup id = some rep ∧ checkDisclosed enc ⟨id, d, l, types id⟩ (inner id) rep = true)
    (hcreate : createProofs creds stmts = some ps) :
    planStage enc (stmts.map (toV types)) (toPres inner reported ps) = none :=
  create_plan_complete enc types inner reported creds stmts ps hon hdisc hcreate

open AC.Verify AC.Create AC.CreatePlan in
/-- … hence the decision logic of `verify` accepts it as soon as the recomputed challenge matches and
every post-challenge verifier passes (the per-protocol completeness theorems above and in C17 / C08 / C06):
no honest presentation is lost to the pairing of statements and proofs. -/
theorem honest_verify_ok {F : Type} [DecidableEq F] (enc : ClaimData → F)
    (types : String → List ClaimType) (inner : String → Inner F)
    (reported : List (String × List (String × ClaimData)))
    (creds : List (String × CredI)) (stmts : List CStmt) (ps : List ProofI)
    (hon : Honest creds stmts)
    (hdisc : ∀ id d l n, CStmt.sig id d l n ∈ stmts →
      ∃ rep, reported.lookup id = some rep ∧ checkDisclosed enc ⟨id, d, l, types id⟩ (inner id) rep = true)
    (hcreate : createProofs creds stmts = some ps)
    (ck : Checks) (hch : ck.challengeOk = true) (hst : ∀ id, ck.stmtOk id = true) :
    verify enc (stmts.map (toV types)) (toPres inner reported ps) ck = .ok := by
  unfold verify
  rw [create_passes_verify_plan enc types inner reported creds stmts ps hon hdisc hcreate]
  simp only [hch, Bool.not_true, Bool.false_eq_true, if_false]
  have : (stmts.map (toV types)).find? (fun s => !ck.stmtOk s.id) = none := by
    rw [List.find?_eq_none]; intro x _; simp [hst]
  rw [this]

open AC.Verify AC.Create AC.CreatePlan in
/-- **Same transcript order.** For every honest (credentials, schema) pair the statement-id markers
(`append_message(b"", id)`: commitment, verifiable-encryption, encrypt-and-decrypt, then range statements)
enter the prover's and the verifier's main transcript in the same order, whatever the listing order of the
schema — a necessary condition for both sides to derive the same challenge. Tie: `tr.markers` (both model
lists vs the markers in the merlin logs of the real `create` and `verify`). -/
theorem create_verify_same_marker_order (types : String → List ClaimType) (creds : List (String × CredI))
    (stmts : List CStmt) (hon : Honest creds stmts) :
    createMarkers creds stmts = verifyMarkers (stmts.map (toV types)) :=
  markers_agree types creds stmts hon

example : AC.Create.createMarkers [("s", .sig [⟨11, none⟩, ⟨12, some 5⟩])]
    [.range "r" "c" "s" 1 (some 0) (some 10), .simple .verenc "v" "s" 0, .simple .commitment "c" "s" 1, .sig "s" [] ["a", "b"] 2]
    = ["v", "c", "r"] := by decide

/-- `create` keeps the `IndexMap` order "range proofs, signature proofs, other predicates" whatever the
listing order of the schema (here: range statement listed first) -/
example : AC.Create.createProofs
    [("s", .sig [⟨11, none⟩, ⟨12, some 5⟩])]
    [.range "r" "c" "s" 1 (some 0) (some 10), .simple .commitment "c" "s" 1, .sig "s" ["a"] ["a", "b"] 2]
    = some [⟨"r", .range, 0, []⟩, ⟨"s", .signature, 2, [0]⟩, ⟨"c", .commitment, 0, []⟩] := by decide

/-- the hypotheses of `create_passes_verify_plan` are satisfiable: that scenario is `Honest` -/
example : AC.CreatePlan.Honest
    [("s", .sig [⟨11, none⟩, ⟨12, some 5⟩])]
    [.range "r" "c" "s" 1 (some 0) (some 10), .simple .commitment "c" "s" 1, .sig "s" ["a"] ["a", "b"] 2] where
  ids := by decide
  kinds := by intro k id ref c h; simp at h; obtain ⟨rfl, -⟩ := h; simp
  sigCred := by intro id d l n h; simp at h; obtain ⟨rfl, -⟩ := h; exact ⟨_, rfl⟩
  memCred := by intro id ref c h; simp at h
  rangeCred := by intro id ref sid c lo hi h; simp at h; obtain ⟨-, -, rfl, -⟩ := h; exact ⟨_, rfl⟩

/-! ### … with the disclosed-claims check discharged (C02 `honest_report_passes_check`) -/

section unconditional
open AC.Verify AC.Create AC.CreatePlan AC.C02

/-- the map the honest prover reports for a credential with a claim per label -/
def honestRep (disclosed labels : List String) (claims : List ClaimData) : List (String × ClaimData) :=
  (revealedIdx (fullVector disclosed labels)).filterMap fun i => match labels[i]?, claims[i]? with
    | some l, some c => some (l, c)
    | _, _ => none

/-- the index → scalar map of the honest signature proof -/
def honestInner {F : Type} (enc : ClaimData → F) (disclosed labels : List String) (claims : List ClaimData) : Inner F :=
  (revealedIdx (fullVector disclosed labels)).filterMap fun i => (claims[i]?).map fun c => (i, enc c)

/-- **Plan-level completeness, unconditionally.** An honest (credentials, schema) pair in which every
signature statement's issuer schema has distinct labels and its credential carries one well-typed claim per
label, with the presentation reporting what the honest prover reports: whatever `create` emits passes the
whole plan stage of `verify`, the disclosed-claims check included. -/
theorem honest_presentation_passes_plan {F : Type} [DecidableEq F] (enc : ClaimData → F)
    (types : String → List ClaimType) (inner : String → Inner F)
    (reported : List (String × List (String × ClaimData)))
    (creds : List (String × CredI)) (stmts : List CStmt) (ps : List ProofI)
    (hon : Honest creds stmts)
    (hcred : ∀ id d l n, CStmt.sig id d l n ∈ stmts →
      l.Nodup ∧ d.Nodup ∧ ∃ claims : List ClaimData,
        claims.length = l.length ∧ (types id).length = l.length ∧
        (∀ (i : Nat) (c : ClaimData) (t : ClaimType), claims[i]? = some c → (types id)[i]? = some t → c.type = t) ∧
        reported.lookup id = some (honestRep d l claims) ∧ inner id = honestInner enc d l claims)
    (hcreate : createProofs creds stmts = some ps) :
    planStage enc (stmts.map (toV types)) (toPres inner reported ps) = none := by
  apply create_passes_verify_plan enc types inner reported creds stmts ps hon _ hcreate
  intro id d l n hst
  obtain ⟨hl, hd, claims, hn, ht, hty, hrep, hin⟩ := hcred id d l n hst
  refine ⟨_, hrep, ?_⟩
  rw [hin]
  exact honest_report_passes_check enc id d l (types id) claims hl hd hn ht hty


end unconditional

end AC.C03
