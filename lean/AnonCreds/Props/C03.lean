import AnonCreds.Props.C17
/-
C03 — completeness of honest presentations. What is proved here is the algebra every acceptance
rests on: for each sub-protocol the verifier's recomputation from the honest prover's responses
equals the value the honest prover hashed (so both sides derive the same challenge), for all
witnesses, randomness and challenges. The composition (both sides append the same items in the same
order) is tied to the code by the honest-run correspondence of the harness, not by a theorem.
-/
namespace AC.C03
open AC.Sigma
variable {F G : Type} [Field F] [AddCommGroup G] [Module F G]

/-! BBS / PS proofs of knowledge for every partition: `C17.bbs_pok_complete`, `C17.ps_pok_complete`. -/

/-- commitment statement (`presentation/commitment.rs` vs `verifier/commitment.rs`): commitment
`C = m•M + b•B`, hashed `n•M + r•B`, responses `p_m = n + c m` (from the signature proof) and
`p_b = r + c b` -/
theorem commitment_complete (M B : G) (m b n r c : F) :
    commitmentRecommit M B (m • M + b • B) c (n + c * m) (r + c * b) = n • M + r • B := by
  unfold commitmentRecommit; module

/-- ElGamal statement (`presentation/verifiable_encryption.rs` vs `verifier/…`): `c1 = b•g`,
`c2 = m•M + b•K`, hashed `(r•g, n•M + r•K)` -/
theorem elgamal_complete (g M K : G) (m b n r c : F) :
    elgamalRecommit g M K (b • g) (m • M + b • K) c (n + c * m) (r + c * b)
      = (r • g, n • M + r • K) := by
  unfold elgamalRecommit
  refine Prod.ext ?_ ?_ <;> simp only <;> module

/-- per-byte proofs of the decryptable variants have the same shape with `m` the byte value -/
theorem byte_proof_complete (g M K : G) (byte bi nb bb c : F) :
    elgamalRecommit g M K (bi • g) (byte • M + bi • K) c (nb + c * byte) (bb + c * bi)
      = (bb • g, nb • M + bb • K) :=
  elgamal_complete g M K byte bi nb bb c

/-- byte-sum check: if the per-byte randomness sums (with weights 256^(31-i)) to the ciphertext's
randomness and the bytes to the message, the weighted sum of byte ciphertexts is `c2`. Stated for
any weights `ws`. -/
theorem byte_sum_complete (M K : G) (ws bytes bs : List F)
    (hl : ws.length = bytes.length) (hl' : ws.length = bs.length) :
    msm ((List.zipWith (fun by_ b => by_ • M + b • K) bytes bs)) ws
      = (List.zipWith (· * ·) ws bytes).sum • M + (List.zipWith (· * ·) ws bs).sum • K := by
  induction ws generalizing bytes bs with
  | nil => simp
  | cons w ws ih =>
    cases bytes with
    | nil => simp at hl
    | cons y ys =>
      cases bs with
      | nil => simp at hl'
      | cons b bs =>
        simp only [List.zipWith_cons_cons, msm_cons, List.sum_cons]
        rw [ih ys bs (by simpa using hl) (by simpa using hl')]
        module

/-- equality statements: one shared nonce and equal signed scalars give equal responses -/
theorem equality_complete (n c m m' : F) (h : m = m') : n + c * m = n + c * m' := by rw [h]

example : commitmentRecommit (1:F) (2:F) ((3:F) • (1:F) + (4:F) • (2:F)) (5:F) (6 + 5 * 3) (7 + 5 * 4)
    = (6:F) • (1:F) + (7:F) • (2:F) :=
  commitment_complete (1:F) (2:F) (3:F) (4:F) (6:F) (7:F) (5:F)

end AC.C03
