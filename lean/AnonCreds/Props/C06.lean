import AnonCreds.Model.Membership
import AnonCreds.Props.C13
import AnonCreds.Props.C14
import Mathlib.Tactic.LinearCombination
import Mathlib.Tactic.Module
/-
C06 — revoked credentials cannot present, all others still can.

Layers:
* the membership Σ-protocol (`Model/Membership.lean`): the verifier's recomputed commitments equal
  the prover's **iff** the handle satisfies the witness relation for the statement's registry value
  (`honest_accepts_iff`, for every handle, coin and challenge), and any two accepting answers to one
  commitment yield a witness for the identifier both answer for (`special_soundness`);
* the handle classes of the property: stale, publicly updated, borrowed (`stale_…`, `deleted_…`,
  `borrowed_…`), each shown not to satisfy the relation after revocation;
* the registry histories of C13 and the public updates of C14, composed into the end-to-end
  statements `active_refreshed_presents`, `active_public_update_presents`, `revoked_handles_fail`.

What no theorem here (or anywhere) can give is that *no* handle for a revoked identifier can be
computed without the secret key: that is the q-SDH assumption. `special_soundness` reduces acceptance
to possession of such a handle; `witness_unique` shows it is the single value `(y+α)⁻¹ • V`.
-/
namespace AC.C06
open AC.Membership AC.Vb20 AC.Registry
variable {F : Type} [Field F] [DecidableEq F] {G : Type} [AddCommGroup G] [Module F G]
set_option linter.unusedSectionVars false

/-- the verifier accepts the honest algorithm's answer: recomputed commitments = committed ones
(the Fiat–Shamir hash then reproduces the challenge, C04) -/
def Accepts (pp : Params G) (α : F) (V : G) (y : F) (C : G) (k : Coins F) (c : F) : Prop :=
  finalize pp α V c (genProof pp y C k c) = (commit pp α C k).2.2.2

/-- **Completeness, exactly.** For every handle `C` (valid or not), coins and challenge, the
verifier's recomputation matches iff `c • ((y + α) • C − V) = 0`. -/
theorem honest_accepts_iff (pp : Params G) (α : F) (V : G) (y : F) (C : G) (k : Coins F) (c : F) :
    Accepts pp α V y C k c ↔ c • ((y + α) • C - V) = 0 := by
  unfold Accepts
  have hS : (finalize pp α V c (genProof pp y C k c)).rSigma = (commit pp α C k).2.2.2.rSigma := by
    simp only [finalize, genProof, commit, schnorr]; module
  have hR : (finalize pp α V c (genProof pp y C k c)).rRho = (commit pp α C k).2.2.2.rRho := by
    simp only [finalize, genProof, commit, schnorr]; module
  have hDS : (finalize pp α V c (genProof pp y C k c)).rDeltaSigma = (commit pp α C k).2.2.2.rDeltaSigma := by
    simp only [finalize, genProof, commit, schnorr]; module
  have hDR : (finalize pp α V c (genProof pp y C k c)).rDeltaRho = (commit pp α C k).2.2.2.rDeltaRho := by
    simp only [finalize, genProof, commit, schnorr]; module
  have hE : (finalize pp α V c (genProof pp y C k c)).rE
      = (commit pp α C k).2.2.2.rE + c • ((y + α) • C - V) := by
    simp only [finalize, genProof, commit, schnorr]; module
  constructor
  · intro h
    have := congrArg Commitments.rE h
    rw [hE] at this
    simpa using this
  · intro h
    have e : ∀ a b : Commitments G, a.rE = b.rE → a.rSigma = b.rSigma → a.rRho = b.rRho →
        a.rDeltaSigma = b.rDeltaSigma → a.rDeltaRho = b.rDeltaRho → a = b := by
      intro a b h1 h2 h3 h4 h5; cases a; cases b; simp_all
    exact e _ _ (by rw [hE, h, add_zero]) hS hR hDS hDR

/-- a valid handle is accepted for every challenge and all coins -/
theorem valid_handle_accepted (pp : Params G) (α : F) (V : G) (y : F) (C : G) (k : Coins F) (c : F)
    (hw : C14.IsWitness α y C V) : Accepts pp α V y C k c := by
  rw [honest_accepts_iff]; unfold C14.IsWitness at hw; rw [hw, sub_self, smul_zero]

/-- an invalid handle is rejected for every non-zero challenge and all coins -/
theorem invalid_handle_rejected (pp : Params G) (α : F) (V : G) (y : F) (C : G) (k : Coins F) (c : F)
    (hc : c ≠ 0) (hw : ¬ C14.IsWitness α y C V) : ¬ Accepts pp α V y C k c := by
  rw [honest_accepts_iff]
  intro h
  rcases smul_eq_zero.mp h with h | h
  · exact hc h
  · exact hw (sub_eq_zero.mp h)

/-- **Special soundness.** Two proofs with the same first message (`E_C, T_σ, T_ρ` and the same
recomputed commitments) for different challenges determine `y = Δs_y / Δc` and a handle
`W = E_C − (σ+ρ)•Z` with `(y + α) • W = V`: whoever can answer two challenges holds a valid handle
for exactly the identifier its `s_y` responses encode — the identifier the signature proof is
linked to through `s_y = message response` (`linkOk`). -/
theorem special_soundness (pp : Params G) (α : F) (V : G) (c c' : F) (p p' : MProof F G)
    (hx : pp.x ≠ 0) (hy : pp.y ≠ 0) (hc : c ≠ c')
    (hec : p.ec = p'.ec) (hts : p.tSigma = p'.tSigma) (htr : p.tRho = p'.tRho)
    (hfin : finalize pp α V c p = finalize pp α V c' p') :
    ∃ σ ρ : F, p.tSigma = σ • pp.x ∧ p.tRho = ρ • pp.y ∧
      C14.IsWitness α ((p.sY - p'.sY) / (c - c')) (p.ec - (σ + ρ) • pp.z) V := by
  have hΔ : c - c' ≠ 0 := sub_ne_zero.mpr hc
  have h1 := congrArg Commitments.rSigma hfin
  have h2 := congrArg Commitments.rRho hfin
  have h3 := congrArg Commitments.rDeltaSigma hfin
  have h4 := congrArg Commitments.rDeltaRho hfin
  have h5 := congrArg Commitments.rE hfin
  simp only [finalize, ← hec, ← hts, ← htr] at h1 h2 h3 h4 h5
  set σ := (p.sSigma - p'.sSigma) / (c - c') with hσ
  set ρ := (p.sRho - p'.sRho) / (c - c') with hρ
  have e1 : (c - c') • p.tSigma = (p.sSigma - p'.sSigma) • pp.x := by
    linear_combination (norm := module) (-1 : F) • h1
  have e2 : (c - c') • p.tRho = (p.sRho - p'.sRho) • pp.y := by
    linear_combination (norm := module) (-1 : F) • h2
  have hT : p.tSigma = σ • pp.x := by
    have : p.tSigma = (c - c')⁻¹ • ((c - c') • p.tSigma) := by rw [smul_smul, inv_mul_cancel₀ hΔ, one_smul]
    rw [this, e1, smul_smul, hσ]; congr 1; field_simp
  have hU : p.tRho = ρ • pp.y := by
    have : p.tRho = (c - c')⁻¹ • ((c - c') • p.tRho) := by rw [smul_smul, inv_mul_cancel₀ hΔ, one_smul]
    rw [this, e2, smul_smul, hρ]; congr 1; field_simp
  -- δσ, δρ
  have d1 : ((p.sY - p'.sY) * σ - (p.sDeltaSigma - p'.sDeltaSigma)) • pp.x = 0 := by
    rw [hT] at h3
    linear_combination (norm := module) h3
  have d2 : ((p.sY - p'.sY) * ρ - (p.sDeltaRho - p'.sDeltaRho)) • pp.y = 0 := by
    rw [hU] at h4
    linear_combination (norm := module) h4
  have f1 : p.sDeltaSigma - p'.sDeltaSigma = (p.sY - p'.sY) * σ := by
    rcases smul_eq_zero.mp d1 with h | h
    · linear_combination -h
    · exact absurd h hx
  have f2 : p.sDeltaRho - p'.sDeltaRho = (p.sY - p'.sY) * ρ := by
    rcases smul_eq_zero.mp d2 with h | h
    · linear_combination -h
    · exact absurd h hy
  have g1 : p.sSigma - p'.sSigma = (c - c') * σ := by rw [hσ]; field_simp
  have g2 : p.sRho - p'.sRho = (c - c') * ρ := by rw [hρ]; field_simp
  refine ⟨σ, ρ, hT, hU, ?_⟩
  unfold C14.IsWitness
  -- (Δy + αΔ) • W = Δ • V
  have key : ((p.sY - p'.sY) + α * (c - c')) • (p.ec - (σ + ρ) • pp.z) = (c - c') • V := by
    have k1 : (p.sDeltaSigma + p.sDeltaRho) - (p'.sDeltaSigma + p'.sDeltaRho) = (p.sY - p'.sY) * (σ + ρ) := by
      linear_combination f1 + f2
    have k2 : (p.sSigma + p.sRho) - (p'.sSigma + p'.sRho) = (c - c') * (σ + ρ) := by
      linear_combination g1 + g2
    have k1' : ((p.sDeltaSigma + p.sDeltaRho) - (p'.sDeltaSigma + p'.sDeltaRho)) • pp.z = ((p.sY - p'.sY) * (σ + ρ)) • pp.z := by rw [k1]
    have k2' : ((p.sSigma + p.sRho) - (p'.sSigma + p'.sRho)) • pp.z = ((c - c') * (σ + ρ)) • pp.z := by rw [k2]
    linear_combination (norm := module) h5 + k1' + α • k2'
  have : (p.sY - p'.sY) / (c - c') + α = (c - c')⁻¹ * ((p.sY - p'.sY) + α * (c - c')) := by field_simp
  rw [this, mul_smul, key, smul_smul, inv_mul_cancel₀ hΔ, one_smul]

/-- the handle for `y` at value `V` is unique: `(y + α)⁻¹ • V` (what `refresh` computes, and refuses
to compute for revoked identifiers — `C13.refresh_iff_active`) -/
theorem witness_unique (α y : F) (C V : G) (h : y + α ≠ 0) (hw : C14.IsWitness α y C V) :
    C = mwNew α y V := C14.isWitness_unique α y C V h hw

/-! ### the handle classes of the property -/

/-- **Stale handle.** A handle that verified against an earlier value verifies now iff the value
did not move … -/
theorem stale_handle_iff (α y : F) (C Vold Vnow : G) (hw : C14.IsWitness α y C Vold) :
    C14.IsWitness α y C Vnow ↔ Vnow = Vold := C14.stale_witness_verifies_iff α y C Vold Vnow hw

/-- … and every successful revocation moves it (generic position: the product of the removed
`(h id + α)` is not 1, the value is not the identity). -/
theorem revocation_moves_value (h : String → F) (α : F) (s : State G) (ids : List String)
    (hok : (ids.all (s.active.contains ·) && decide ids.Nodup) = true)
    (hk : batchAdd α (ids.map h) ≠ 1) (hk0 : batchAdd α (ids.map h) ≠ 0) (hv : s.value ≠ 0) :
    (step h α s (.revoke ids)).1.value ≠ s.value := by
  rw [C13.step_revoke_ok h α s ids hok]
  simp only [batchDel]
  intro e
  have : ((batchAdd α (ids.map h))⁻¹ - 1) • s.value = 0 := by rw [sub_smul, e, one_smul, sub_self]
  rcases smul_eq_zero.mp this with h1 | h1
  · apply hk
    have h2 : (batchAdd α (ids.map h))⁻¹ = 1 := by linear_combination h1
    have := congrArg (·⁻¹) h2
    simpa using this
  · exact hv h1

/-- **Publicly updated handle.** The public batch update leaves the handle of a deleted element
unchanged (the real code reports an error and keeps the old handle), so it is a stale handle. -/
theorem deleted_public_update_is_stale (y : F) (C : G) (adds dels : List F) (coefs : List G) (h : y ∈ dels) :
    mwBatchUpdate C y adds dels coefs = C := C14.deleted_no_update y C adds dels coefs h

/-- **Borrowed handle.** A handle valid for another identifier `y'` is not valid for `y`. -/
theorem borrowed_handle_invalid (α y y' : F) (C V : G) (hne : y ≠ y') (hV : V ≠ 0)
    (hw' : C14.IsWitness α y' C V) : ¬ C14.IsWitness α y C V := by
  unfold C14.IsWitness at *
  intro hw
  have : (y - y') • C = 0 := by
    have : (y + α) • C - (y' + α) • C = 0 := by rw [hw, hw', sub_self]
    rw [← sub_smul] at this
    have e : y + α - (y' + α) = y - y' := by ring
    rwa [e] at this
  rcases smul_eq_zero.mp this with h | h
  · exact hne (sub_eq_zero.mp h)
  · rw [h, smul_zero] at hw; exact hV hw.symm

/-! ### end to end over registry histories -/

/-- **Non-revoked ⇒ can present (refresh from the issuer).** In every reachable registry state,
for every active identifier, `refresh` returns a handle and the honest proof with it is accepted
against the published value, for all coins and challenges. -/
theorem active_refreshed_presents (h : String → F) (α : F) (V0 : G) (ops : List Op) (id : String)
    (pp : Params G) (k : Coins F) (c : F) (hne : h id + α ≠ 0)
    (hact : C13.abs (run h α (⟨[], [], V0⟩ : State G) ops) id = .active) :
    ∃ w, (step h α (run h α ⟨[], [], V0⟩ ops) (.refresh id)).2 = .handle w ∧
      Accepts pp α (run h α (⟨[], [], V0⟩ : State G) ops).value (h id) w k c := by
  set s := run h α (⟨[], [], V0⟩ : State G) ops with hs
  have hc : s.active.contains id = true := by
    unfold C13.abs at hact
    by_cases hm : id ∈ s.active
    · simpa using hm
    · rw [if_neg hm] at hact
      split at hact <;> cases hact
  have hm : id ∈ s.active := by simpa using hc
  refine ⟨mwNew α (h id) s.value, by simp [step, hm], ?_⟩
  exact valid_handle_accepted pp α s.value (h id) _ k c (C14.mwNew_isWitness α (h id) s.value hne)

/-- **Non-revoked ⇒ can present (published update data).** A holder whose handle verified at some
epoch and who applies every later published batch (any number, any sizes) is accepted against the
latest value, provided its identifier is in none of the deletions. -/
theorem active_public_update_presents (α y : F) (V C : G) (bs : List (List F × List F))
    (pp : Params G) (k : Coins F) (c : F)
    (hd : ∀ b ∈ bs, ∀ d ∈ b.2, d + α ≠ 0) (hdel : ∀ b ∈ bs, dad y b.2 ≠ 0)
    (hw : C14.IsWitness α y C V) :
    Accepts pp α (C14.runAcc α V bs) y (C14.runWitness α y V C bs) k c :=
  valid_handle_accepted pp α _ y _ k c (C14.history_update_isWitness α y V C bs hd hdel hw)

/-- **Revoked ⇒ the derivable handles fail.** Let `C` verify for `y` against `Vold`, or for another
identifier `y'` against the current value. If the current value differs from `Vold` (see
`revocation_moves_value`), the honest proof built from `C` is rejected for every non-zero challenge. -/
theorem revoked_handles_fail (pp : Params G) (α y : F) (C Vnow : G) (k : Coins F) (c : F) (hc : c ≠ 0)
    (hclass : (∃ Vold, C14.IsWitness α y C Vold ∧ Vnow ≠ Vold) ∨
              (∃ y', y ≠ y' ∧ Vnow ≠ 0 ∧ C14.IsWitness α y' C Vnow)) :
    ¬ Accepts pp α Vnow y C k c := by
  apply invalid_handle_rejected pp α Vnow y C k c hc
  rcases hclass with ⟨Vold, hw, hne⟩ | ⟨y', hne, hV, hw⟩
  · rw [stale_handle_iff α y C Vold Vnow hw]; exact hne
  · exact borrowed_handle_invalid α y y' C Vnow hne hV hw

/-- the issuer never hands a revoked identifier a fresh handle, in any later state (C13) -/
theorem revoked_never_refreshed (σ : String → C13.Status) (ops : List Op) (id : String)
    (h : σ id = .revoked) : (C13.specStep (C13.specRun σ ops) (.refresh id)).2 = false := by
  have := C13.revoked_forever σ ops id h
  simp [C13.specStep, this]

/-! ### degenerate proofs (points at infinity, zero responses)

The recomputation is one linear map for every proof object, the degenerate ones included: for the proof
made of three points at infinity and zero responses (only `s_y` free) the first recomputed commitment is
`(-c) • V`. It determines the challenge, so such a proof cannot be answered for a challenge fixed in
advance — unless the implementation special-cases it (seeded change `finalize-early-out-on-identity`,
caught by the `mp.finalize` correspondence on exactly these objects). -/

theorem finalize_degenerate (pp : Params G) (α c sY : F) (V : G) :
    finalize pp α V c ⟨0, 0, 0, 0, 0, 0, 0, sY⟩ = ⟨(-c) • V, 0, 0, 0, 0⟩ := by
  simp [finalize]

theorem finalize_degenerate_binds_challenge (pp : Params G) (α c c' sY sY' : F) (V : G)
    (hV : V ≠ 0)
    (h : (finalize pp α V c ⟨0, 0, 0, 0, 0, 0, 0, sY⟩).rE = (finalize pp α V c' ⟨0, 0, 0, 0, 0, 0, 0, sY'⟩).rE) :
    c = c' := by
  rw [finalize_degenerate, finalize_degenerate] at h
  have h2 : (-c) • V = (-c') • V := h
  have h3 : (c' - c) • V = 0 := by
    have : (c' - c) • V = (-c) • V - (-c') • V := by module
    rw [this, h2, sub_self]
  by_contra hne
  have hd : c' - c ≠ 0 := fun e => hne (sub_eq_zero.mp e).symm
  have : V = (c' - c)⁻¹ • ((c' - c) • V) := by rw [smul_smul, inv_mul_cancel₀ hd, one_smul]
  rw [h3, smul_zero] at this
  exact hV this

/-- non-vacuity: over the coordinate instance the degenerate proof's recomputation differs for two challenges -/
example : finalize (F := ℚ) (G := ℚ) ⟨1, 2, 3⟩ 5 7 1 ⟨0, 0, 0, 0, 0, 0, 0, 4⟩ ≠
    finalize (F := ℚ) (G := ℚ) ⟨1, 2, 3⟩ 5 7 2 ⟨0, 0, 0, 0, 0, 0, 0, 4⟩ := by
  simp [finalize]

end AC.C06
