import AnonCreds.Props.C01
import AnonCreds.Model.Create
import Mathlib.Data.List.Perm.Subperm
import Mathlib.Data.List.Nodup
/-
C02 — disclosed claims are exactly those requested and exactly what the issuer signed.
`checkDisclosed` (the repaired tie between reported map, proof map and request) is characterised
exactly, and `C01.verify_ok_covers_signature_statements` says every accepted presentation passed it;
the proof map is what the proof of knowledge is verified against (C17 soundness), so the extracted
signed vector carries `enc (reported l)` at the schema index of every reported label `l`.
-/
namespace AC.C02
open AC.Verify
variable {F : Type} [DecidableEq F]

theorem indexOf?_some_mem (labels : List String) (l : String) (i : Nat) (h : indexOf? labels l = some i) :
    labels[i]? = some l := by
  unfold indexOf? at h
  split at h
  · rename_i j hj
    cases h
    rw [List.findIdx?_eq_some_iff_getElem] at hj
    obtain ⟨hlt, hb, _⟩ := hj
    have : labels[i] = l := by simpa using hb
    rw [List.getElem?_eq_getElem hlt, this]
  · cases h

theorem indexOf?_mem (labels : List String) (l : String) (i : Nat) (h : indexOf? labels l = some i) :
    l ∈ labels := List.mem_of_getElem? (indexOf?_some_mem labels l i h)

/-- every reported claim is requested, known to the schema, of the schema's type, and the proof's
map holds its encoding at the schema's index -/
theorem checkDisclosed_values (enc : ClaimData → F) (ss : SigStmt) (inner : Inner F)
    (rep : List (String × ClaimData)) (h : checkDisclosed enc ss inner rep = true)
    (l : String) (c : ClaimData) (hm : (l, c) ∈ rep) :
    l ∈ ss.disclosed ∧ ∃ i, indexOf? ss.labels l = some i ∧ ss.labels[i]? = some l ∧
      ss.types[i]? = some c.type ∧ inner.lookup i = some (enc c) := by
  unfold checkDisclosed at h
  simp only [Bool.and_eq_true, List.all_eq_true] at h
  have := h.2 (l, c) hm
  simp only [Bool.and_eq_true, List.contains_eq_mem, decide_eq_true_eq] at this
  refine ⟨this.1, ?_⟩
  have h2 := this.2
  split at h2
  · cases h2
  · rename_i i hi
    split at h2
    · cases h2
    · rename_i t ht
      simp only [Bool.and_eq_true, decide_eq_true_eq] at h2
      exact ⟨i, hi, indexOf?_some_mem _ _ _ hi, by rw [ht, h2.1], h2.2⟩

/-- **label exactness**: with unique keys in the reported map and in the request, the reported label
set is exactly the requested labels that exist in the issuer's schema — nothing withheld, nothing extra -/
theorem checkDisclosed_labels (enc : ClaimData → F) (ss : SigStmt) (inner : Inner F)
    (rep : List (String × ClaimData)) (h : checkDisclosed enc ss inner rep = true)
    (hrep : (rep.map (·.1)).Nodup) (hreq : ss.disclosed.Nodup) (l : String) :
    l ∈ rep.map (·.1) ↔ (l ∈ ss.disclosed ∧ l ∈ ss.labels) := by
  set R := ss.disclosed.filter (ss.labels.contains ·) with hR
  have hRnd : R.Nodup := hreq.filter _
  have hsub : rep.map (·.1) ⊆ R := by
    intro x hx
    obtain ⟨⟨l', c⟩, hm, rfl⟩ := List.mem_map.mp hx
    obtain ⟨hd, i, hi, _⟩ := checkDisclosed_values enc ss inner rep h l' c hm
    simp only [hR, List.mem_filter, List.contains_eq_mem, decide_eq_true_eq]
    exact ⟨hd, indexOf?_mem _ _ _ hi⟩
  have hlen : R.length ≤ (rep.map (·.1)).length := by
    unfold checkDisclosed at h
    simp only [Bool.and_eq_true, beq_iff_eq] at h
    have e := h.1.1
    simp only [List.length_map, hR]
    omega
  have hperm : (rep.map (·.1)).Perm R :=
    (List.subperm_of_subset hrep hsub).perm_of_length_le hlen
  rw [hperm.mem_iff]
  simp [hR]

/-- **value exactness** of the proof's map: with unique keys, every entry of the map the proof of
knowledge is checked against is the encoding of a reported claim at its schema index -/
theorem checkDisclosed_inner_exact (enc : ClaimData → F) (ss : SigStmt) (inner : Inner F)
    (rep : List (String × ClaimData)) (h : checkDisclosed enc ss inner rep = true)
    (hrep : (rep.map (·.1)).Nodup) (hinner : (inner.map (·.1)).Nodup)
    (i : Nat) (hi : i ∈ inner.map (·.1)) :
    ∃ l c, (l, c) ∈ rep ∧ indexOf? ss.labels l = some i ∧ inner.lookup i = some (enc c) := by
  -- the indices of the reported labels
  let idx : String × ClaimData → Nat := fun lc => (indexOf? ss.labels lc.1).getD 0
  have hidx : ∀ lc ∈ rep, indexOf? ss.labels lc.1 = some (idx lc) ∧ inner.lookup (idx lc) = some (enc lc.2) := by
    intro ⟨l, c⟩ hm
    obtain ⟨_, j, hj, _, _, hl⟩ := checkDisclosed_values enc ss inner rep h l c hm
    simp only [idx, hj, Option.getD_some]
    exact ⟨trivial, hl⟩
  -- they are pairwise distinct (labels are) and all occur among the keys of `inner`
  have hinj : (rep.map idx).Nodup := by
    rw [List.nodup_map_iff_inj_on (List.Nodup.of_map _ hrep)]
    intro a ha b hb hab
    have ea := indexOf?_some_mem _ _ _ (hidx a ha).1
    have eb := indexOf?_some_mem _ _ _ (hidx b hb).1
    rw [hab] at ea
    have hl : a.1 = b.1 := by rw [ea] at eb; exact Option.some.inj eb
    have : ∀ x ∈ rep, ∀ y ∈ rep, x.1 = y.1 → x = y := by
      intro x hx y hy hxy
      exact (List.inj_on_of_nodup_map hrep) hx hy hxy
    exact this a ha b hb hl
  have hsub : rep.map idx ⊆ inner.map (·.1) := by
    intro j hj
    obtain ⟨lc, hm, rfl⟩ := List.mem_map.mp hj
    have := (hidx lc hm).2
    obtain ⟨v, hv⟩ : ∃ v, (idx lc, v) ∈ inner := by
      have := List.lookup_eq_some_iff.mp this
      obtain ⟨l1, l2, he, _⟩ := this
      exact ⟨enc lc.2, by rw [he]; simp⟩
    exact List.mem_map.mpr ⟨(idx lc, v), hv, rfl⟩
  have hlen : (inner.map (·.1)).length ≤ (rep.map idx).length := by
    unfold checkDisclosed at h
    simp only [Bool.and_eq_true, beq_iff_eq] at h
    simp [h.1.2]
  have hperm : (rep.map idx).Perm (inner.map (·.1)) :=
    (List.subperm_of_subset hinj hsub).perm_of_length_le hlen
  have : i ∈ rep.map idx := hperm.mem_iff.mpr hi
  obtain ⟨⟨l, c⟩, hm, rfl⟩ := List.mem_map.mp this
  exact ⟨l, c, hm, (hidx (l, c) hm).1, (hidx (l, c) hm).2⟩

/-- the pinned verifier accepted whatever the reported map said; in the repaired model a reported
value whose encoding differs from the proof's entry is rejected, whatever else the object contains -/
theorem substituted_value_rejected (enc : ClaimData → F) (ss : SigStmt) (inner : Inner F)
    (rep : List (String × ClaimData)) (l : String) (c : ClaimData) (i : Nat) (hm : (l, c) ∈ rep)
    (hi : indexOf? ss.labels l = some i) (hne : inner.lookup i ≠ some (enc c)) :
    checkDisclosed enc ss inner rep = false := by
  by_contra hcon
  have h : checkDisclosed enc ss inner rep = true := by simpa using hcon
  obtain ⟨_, j, hj, _, _, hl⟩ := checkDisclosed_values enc ss inner rep h l c hm
  rw [hi] at hj; cases hj
  exact hne hl

/-- non-vacuity: a concrete request / report / proof map passes the check -/
example : checkDisclosed (F := Nat) (fun c => match c with | .number v => v.toNat | _ => 0)
    ⟨"s", ["age", "zip"], ["id", "age"], [.revocation, .number]⟩ [(1, 30)] [("age", .number 30)] = true := by
  decide

/-! ### what the honest prover reports (model `Create.createDisclosed`, tie `cr.proofs`) -/

open AC.Create

/-- the message vector `create` builds for a signature statement marks exactly the requested labels as revealed -/
theorem revealedIdx_spec (disclosed labels : List String) (n i : Nat) :
    i ∈ revealedIdx ((labels.take n).map fun l => if disclosed.contains l then Msg.revealed else Msg.hidden)
      ↔ ∃ l, (labels.take n)[i]? = some l ∧ l ∈ disclosed := by
  simp only [revealedIdx, List.mem_filter, List.mem_range, List.length_map, List.getElem?_map]
  constructor
  · rintro ⟨hlt, h⟩
    cases hl : (labels.take n)[i]? with
    | none => simp [hl] at h
    | some l =>
      refine ⟨l, rfl, ?_⟩
      simp only [hl, Option.map_some] at h
      by_cases hd : disclosed.contains l = true
      · simpa using hd
      · simp at h; exact h
  · rintro ⟨l, hl, hd⟩
    have hlt : i < (labels.take n).length := by
      rcases Nat.lt_or_ge i (labels.take n).length with h | h
      · exact h
      · rw [List.getElem?_eq_none h] at hl; cases hl
    refine ⟨hlt, ?_⟩
    simp [hl, hd]

/-- **What the honest prover reports.** For a credential with `n` claims under a statement requesting
`disclosed`, the labels `create` files under the statement's id (model `Create.createDisclosed`, compared with
the real `disclosed_messages` by `cr.proofs`) are exactly the requested labels among the first `n` labels of
the issuer schema — the left-hand side of the verifier's check `checkDisclosed_labels`. -/
theorem create_reports_exactly_requested (disclosed labels : List String) (n : Nat) (l : String) :
    l ∈ (revealedIdx ((labels.take n).map fun l => if disclosed.contains l then Msg.revealed else Msg.hidden)).filterMap
          (labels[·]?)
      ↔ l ∈ labels.take n ∧ l ∈ disclosed := by
  rw [List.mem_filterMap]
  constructor
  · rintro ⟨i, hi, hl⟩
    obtain ⟨l', hl', hd⟩ := (revealedIdx_spec disclosed labels n i).1 hi
    have hlt : i < n := by
      by_contra hge
      rw [List.getElem?_take_eq_none (Nat.le_of_not_lt hge)] at hl'
      cases hl'
    rw [List.getElem?_take_of_lt hlt, hl] at hl'
    cases hl'
    exact ⟨List.mem_of_getElem? (by rw [List.getElem?_take_of_lt hlt]; exact hl), hd⟩
  · rintro ⟨hm, hd⟩
    obtain ⟨i, hi⟩ := List.mem_iff_getElem?.1 hm
    refine ⟨i, (revealedIdx_spec disclosed labels n i).2 ⟨l, hi, hd⟩, ?_⟩
    have hlt : i < n := by
      by_contra hge
      rw [List.getElem?_take_eq_none (Nat.le_of_not_lt hge)] at hi
      cases hi
    rw [List.getElem?_take_of_lt hlt] at hi
    exact hi

example : (revealedIdx ((["a", "b", "c"].take 3).map fun l => if ["c", "a", "z"].contains l then Msg.revealed else Msg.hidden)).filterMap
    (["a", "b", "c"][·]?) = ["a", "c"] := by decide


/-! ### the honest report passes the verifier's check -/

/-- counting by index = counting by element -/
theorem length_filter_range (l : List String) (p : String → Bool) :
    ((List.range l.length).filter fun i => match l[i]? with | some a => p a | none => false).length
      = (l.filter p).length := by
  induction l using List.reverseRecOn with
  | nil => simp
  | append_singleton l a ih =>
    rw [List.length_append, List.length_singleton, List.range_succ, List.filter_append, List.filter_append,
      List.length_append, List.length_append]
    congr 1
    · rw [← ih]
      congr 1
      apply List.filter_congr
      intro i hi
      have hlt : i < l.length := List.mem_range.1 hi
      rw [List.getElem?_append_left hlt]
    · have hget : (l ++ [a])[l.length]? = some a := by
        rw [List.getElem?_append_right (Nat.le_refl _)]; simp
      simp only [List.filter_cons, List.filter_nil, hget]
      split <;> rfl

theorem filter_mem_comm_length (a b : List String) (ha : a.Nodup) (hb : b.Nodup) :
    (a.filter (b.contains ·)).length = (b.filter (a.contains ·)).length := by
  apply List.Perm.length_eq
  rw [List.perm_ext_iff_of_nodup (ha.filter _) (hb.filter _)]
  intro x
  simp only [List.mem_filter, List.contains_eq_mem, decide_eq_true_eq]
  exact ⟨fun h => ⟨h.2, h.1⟩, fun h => ⟨h.2, h.1⟩⟩

theorem indexOf_nodup (labels : List String) (hnd : labels.Nodup) (i : Nat) (l : String)
    (h : labels[i]? = some l) : indexOf? labels l = some i := by
  unfold indexOf?
  induction labels generalizing i with
  | nil => simp at h
  | cons a as ih =>
    cases i with
    | zero =>
      simp at h; subst h
      simp [List.findIdx?_cons]
    | succ j =>
      simp only [List.getElem?_cons_succ] at h
      have hne : a ≠ l := by
        intro e; subst e
        exact (List.nodup_cons.1 hnd).1 (List.mem_of_getElem? h)
      have := ih (List.nodup_cons.1 hnd).2 j h
      simp only [List.findIdx?_cons, beq_iff_eq, hne, if_false, Bool.false_eq_true]
      cases hf : as.findIdx? (· == l) with
      | none => simp [hf] at this
      | some k => simp [hf] at this ⊢; exact this


theorem length_filterMap_of_isSome {α β : Type} (f : α → Option β) (l : List α)
    (h : ∀ x ∈ l, (f x).isSome = true) : (l.filterMap f).length = l.length := by
  induction l with
  | nil => rfl
  | cons a as ih =>
    have ha := h a (by simp)
    cases hf : f a with
    | none => simp [hf] at ha
    | some b =>
      simp only [List.filterMap_cons, hf, List.length_cons]
      rw [ih fun x hx => h x (List.mem_cons_of_mem _ hx)]

theorem lookup_of_key_determines {β : Type} (l : List (Nat × β)) (k : Nat) (v : β)
    (hex : (k, v) ∈ l) (hall : ∀ v', (k, v') ∈ l → v' = v) : l.lookup k = some v := by
  induction l with
  | nil => cases hex
  | cons a as ih =>
    obtain ⟨a1, a2⟩ := a
    by_cases hk : k = a1
    · subst hk
      have : a2 = v := hall a2 (by simp)
      simp [List.lookup, this]
    · have hne : (k == a1) = false := by simpa using hk
      simp only [List.lookup, hne]
      apply ih
      · rcases List.mem_cons.1 hex with h | h
        · cases h; exact absurd rfl hk
        · exact h
      · intro v' h; exact hall v' (List.mem_cons_of_mem _ h)

/-- the message vector for a credential that has a claim for every label -/
def fullVector (disclosed labels : List String) : List Msg :=
  labels.map fun l => if disclosed.contains l then Msg.revealed else Msg.hidden

theorem mem_revealedIdx_full (disclosed labels : List String) (i : Nat) :
    i ∈ revealedIdx (fullVector disclosed labels) ↔ ∃ l, labels[i]? = some l ∧ l ∈ disclosed := by
  have := revealedIdx_spec disclosed labels labels.length i
  simpa [fullVector] using this

/-- **The honest report passes the disclosed-claims check.** A credential with one claim per schema label,
each of the schema's type, presented under a statement requesting `disclosed`: the reported map (labels of the
revealed claims with the claims, as `create` files them) and the signature proof's index → scalar map (the
encodings of the revealed claims) pass `checkDisclosed` — for every schema with distinct labels, every
requested set (labels unknown to the schema included) and every claim vector. With `create_passes_verify_plan`
this discharges that theorem's hypothesis about the disclosed-claims check. -/
theorem honest_report_passes_check {F : Type} [DecidableEq F] (enc : ClaimData → F) (id : String)
    (disclosed labels : List String) (types : List ClaimType) (claims : List ClaimData)
    (hl : labels.Nodup) (hd : disclosed.Nodup)
    (hn : claims.length = labels.length) (ht : types.length = labels.length)
    (hty : ∀ (i : Nat) (c : ClaimData) (t : ClaimType), claims[i]? = some c → types[i]? = some t → c.type = t) :
    let idx := revealedIdx (fullVector disclosed labels)
    let rep := idx.filterMap fun i => match labels[i]?, claims[i]? with
      | some l, some c => some (l, c)
      | _, _ => none
    let inner : Inner F := idx.filterMap fun i => (claims[i]?).map fun c => (i, enc c)
    checkDisclosed enc ⟨id, disclosed, labels, types⟩ inner rep = true := by
  intro idx rep inner
  -- every revealed index has a label (requested) and a claim
  have hidx : ∀ i ∈ idx, ∃ l c, labels[i]? = some l ∧ l ∈ disclosed ∧ claims[i]? = some c := by
    intro i hi
    obtain ⟨l, hl', hd'⟩ := (mem_revealedIdx_full disclosed labels i).1 hi
    have hlt : i < labels.length := by
      rcases Nat.lt_or_ge i labels.length with h | h
      · exact h
      · rw [List.getElem?_eq_none h] at hl'; cases hl'
    have hc : i < claims.length := by omega
    exact ⟨l, claims[i], hl', hd', List.getElem?_eq_getElem hc⟩
  have hrepLen : rep.length = idx.length := by
    apply length_filterMap_of_isSome
    intro i hi
    obtain ⟨l, c, h1, _, h3⟩ := hidx i hi
    simp [h1, h3]
  have hinnerLen : inner.length = idx.length := by
    apply length_filterMap_of_isSome
    intro i hi
    obtain ⟨l, c, _, _, h3⟩ := hidx i hi
    simp [h3]
  have hidxLen : idx.length = (disclosed.filter (labels.contains ·)).length := by
    rw [← filter_mem_comm_length labels disclosed hl hd, ← length_filter_range labels (disclosed.contains ·)]
    simp only [idx, revealedIdx, fullVector, List.length_map]
    congr 1
    apply List.filter_congr
    intro i _
    simp only [List.getElem?_map]
    cases labels[i]? with
    | none => simp
    | some a =>
      by_cases h : a ∈ disclosed
      · simp [h]
      · simp [h]
  unfold checkDisclosed
  simp only [Bool.and_eq_true, beq_iff_eq, List.all_eq_true]
  refine ⟨⟨by rw [hrepLen, hidxLen], by rw [hinnerLen, hrepLen]⟩, ?_⟩
  rintro ⟨l, c⟩ hmem
  obtain ⟨i, hi, hic⟩ := List.mem_filterMap.1 hmem
  obtain ⟨l', c', h1, h2, h3⟩ := hidx i hi
  simp only [h1, h3, Option.some.injEq, Prod.mk.injEq] at hic
  obtain ⟨e1, e2⟩ := hic
  subst e1; subst e2
  have hlt : i < labels.length := by
    rcases Nat.lt_or_ge i labels.length with h | h
    · exact h
    · rw [List.getElem?_eq_none h] at h1; cases h1
  have htl : i < types.length := by omega
  have htype : types[i]? = some types[i] := List.getElem?_eq_getElem htl
  have hlook : inner.lookup i = some (enc c') := by
    apply lookup_of_key_determines
    · exact List.mem_filterMap.2 ⟨i, hi, by simp [h3]⟩
    · intro v' hv'
      obtain ⟨j, _, hj⟩ := List.mem_filterMap.1 hv'
      cases hcj : claims[j]? with
      | none => simp [hcj] at hj
      | some cj =>
        simp only [hcj, Option.map_some, Option.some.injEq, Prod.mk.injEq] at hj
        obtain ⟨rfl, rfl⟩ := hj
        rw [h3] at hcj; cases hcj; rfl
  have hio := indexOf_nodup labels hl i l' h1
  have hct := hty i c' types[i] h3 htype
  simp [h2, hio, htype, hct, hlook]

/-- the hypotheses of `honest_report_passes_check` are satisfiable, with a requested label the schema lacks
and a requested set listed in another order than the schema -/
example : checkDisclosed (F := Nat) (fun c => match c with | .number v => v.toNat | _ => 0)
    ⟨"s", ["c", "a", "z"], ["a", "b", "c"], [.number, .scalar, .number]⟩
    [(0, 7), (2, 9)] [("a", .number 7), ("c", .number 9)] = true := by
  have := honest_report_passes_check (F := Nat) (fun c => match c with | .number v => v.toNat | _ => 0) "s"
    ["c", "a", "z"] ["a", "b", "c"] [.number, .scalar, .number] [.number 7, .scalar 5, .number 9]
    (by decide) (by decide) rfl rfl
    (by
      intro i c t hc ht
      match i with
      | 0 => simp at hc ht; subst hc; subst ht; rfl
      | 1 => simp at hc ht; subst hc; subst ht; rfl
      | 2 => simp at hc ht; subst hc; subst ht; rfl
      | (k + 3) => simp at hc)
  have e1 : revealedIdx (fullVector ["c", "a", "z"] ["a", "b", "c"]) = [0, 2] := by decide
  simp only [e1] at this
  simpa using this


end AC.C02
