import AnonCreds.Props.C03
import AnonCreds.Props.C01
/-
C11 — tamper evidence. Every scalar / group-element leaf of a proof is either hashed directly, or is
a response / commitment that enters a recomputed Schnorr commitment which is hashed (or compared
with a hashed value): the theorems below say that changing such a leaf *moves* the recomputed value,
for every sub-protocol as coded, so that the tampered object can only be accepted on a transcript
that was never hashed before (a fresh random-oracle query hitting the presented challenge — trusted
negligible) — or fails a deterministic check. Removal / replacement of a required proof is
decided by the dispatch (C01 theorems). Leaves that are hashed as-is (a_bar, b_bar, t, σ₁, σ₂, J,
commitment C, c1, c2, byte ciphertexts, accumulator-proof points, disclosed claims) need no
algebra: the transcript item list changes (merlin framing, C04 style).
-/
namespace AC.C11
open AC.Sigma
variable {F G : Type} [Field F] [AddCommGroup G] [Module F G]

/-- replacing the response at one position of a response vector -/
def setAt (p : List F) (i : Nat) (v : F) : List F := p.set i v

theorem msm_set (Bs : List G) (p : List F) (i : Nat) (v : F) (B : G) (x : F)
    (hB : Bs[i]? = some B) (hp : p[i]? = some x) :
    msm Bs (p.set i v) = msm Bs p + (v - x) • B := by
  induction Bs generalizing p i with
  | nil => simp at hB
  | cons b bs ih =>
    cases p with
    | nil => simp at hp
    | cons a as =>
      cases i with
      | zero =>
        simp only [List.getElem?_cons_zero, Option.some.injEq] at hB hp
        subst hB; subst hp
        simp only [List.set_cons_zero, msm_cons]; module
      | succ j =>
        simp only [List.getElem?_cons_succ] at hB hp
        simp only [List.set_cons_succ, msm_cons, ih as j hB hp]; module

/-- **a changed response moves the recomputed commitment** whenever its base point is not the
identity (the verifier's identity checks / the statement's generators) -/
theorem recommit_moves_on_response_change (Bs : List G) (T : G) (c : F) (p : List F) (i : Nat)
    (v x : F) (B : G) (hl : p.length = Bs.length) (hB : Bs[i]? = some B) (hp : p[i]? = some x)
    (hne : v ≠ x) (hB0 : B ≠ 0) :
    recommit Bs T c (p.set i v) ≠ recommit Bs T c p := by
  rw [recommit_eq _ _ _ _ (by simpa using hl), recommit_eq _ _ _ _ hl, msm_set Bs p i v B x hB hp]
  intro h
  have : (v - x) • B = 0 := by
    have := congrArg (fun z => z - (msm Bs p - c • T)) h
    simpa using this
  rcases smul_eq_zero.mp this with h0 | h0
  · exact hne (sub_eq_zero.mp h0)
  · exact hB0 h0

/-- a changed statement point `T` (commitment / ciphertext component / `lhs`) moves it when `c ≠ 0` -/
theorem recommit_moves_on_target_change (Bs : List G) (T T' : G) (c : F) (p : List F)
    (hl : p.length = Bs.length) (hc : c ≠ 0) (hne : T' ≠ T) :
    recommit Bs T' c p ≠ recommit Bs T c p := by
  rw [recommit_eq _ _ _ _ hl, recommit_eq _ _ _ _ hl]
  intro h
  have : c • (T' - T) = 0 := by
    have := congrArg (fun z => msm Bs p - z) h
    simp only [sub_sub_cancel] at this
    rw [smul_sub, this, sub_self]
  rcases smul_eq_zero.mp this with h0 | h0
  · exact hc h0
  · exact hne (sub_eq_zero.mp h0)

/-- commitment statement: each of `C`, the shared message response and the blinder response -/
theorem commitment_moves (M B C : G) (c pm pb : F) (hM : M ≠ 0) (hB : B ≠ 0) (hc : c ≠ 0) :
    (∀ C', C' ≠ C → commitmentRecommit M B C' c pm pb ≠ commitmentRecommit M B C c pm pb)
    ∧ (∀ pm', pm' ≠ pm → commitmentRecommit M B C c pm' pb ≠ commitmentRecommit M B C c pm pb)
    ∧ (∀ pb', pb' ≠ pb → commitmentRecommit M B C c pm pb' ≠ commitmentRecommit M B C c pm pb) := by
  unfold commitmentRecommit
  refine ⟨?_, ?_, ?_⟩
  · intro C' hne h
    have : (-c) • (C' - C) = 0 := by linear_combination (norm := module) h
    rcases smul_eq_zero.mp this with h0 | h0
    · exact hc (neg_eq_zero.mp h0)
    · exact hne (sub_eq_zero.mp h0)
  · intro pm' hne h
    have : (pm' - pm) • M = 0 := by linear_combination (norm := module) h
    rcases smul_eq_zero.mp this with h0 | h0
    · exact hne (sub_eq_zero.mp h0)
    · exact hM h0
  · intro pb' hne h
    have : (pb' - pb) • B = 0 := by linear_combination (norm := module) h
    rcases smul_eq_zero.mp this with h0 | h0
    · exact hne (sub_eq_zero.mp h0)
    · exact hB h0

/-- ElGamal statement: the blinder response moves `r1` (generator `g ≠ 0`), the message response moves
`r2` (`M ≠ 0`), `c1` / `c2` move `r1` / `r2` (`c ≠ 0`) — and are hashed themselves -/
theorem elgamal_moves (g M K c1 c2 : G) (c pm pb : F) (hg : g ≠ 0) (hM : M ≠ 0) (hc : c ≠ 0) :
    (∀ pb', pb' ≠ pb → (elgamalRecommit g M K c1 c2 c pm pb').1 ≠ (elgamalRecommit g M K c1 c2 c pm pb).1)
    ∧ (∀ pm', pm' ≠ pm → (elgamalRecommit g M K c1 c2 c pm' pb).2 ≠ (elgamalRecommit g M K c1 c2 c pm pb).2)
    ∧ (∀ c1', c1' ≠ c1 → (elgamalRecommit g M K c1' c2 c pm pb).1 ≠ (elgamalRecommit g M K c1 c2 c pm pb).1)
    ∧ (∀ c2', c2' ≠ c2 → (elgamalRecommit g M K c1 c2' c pm pb).2 ≠ (elgamalRecommit g M K c1 c2 c pm pb).2) := by
  unfold elgamalRecommit
  refine ⟨?_, ?_, ?_, ?_⟩
  · intro pb' hne h
    have : (pb' - pb) • g = 0 := by linear_combination (norm := module) h
    rcases smul_eq_zero.mp this with h0 | h0
    · exact hne (sub_eq_zero.mp h0)
    · exact hg h0
  · intro pm' hne h
    have : (pm' - pm) • M = 0 := by linear_combination (norm := module) h
    rcases smul_eq_zero.mp this with h0 | h0
    · exact hne (sub_eq_zero.mp h0)
    · exact hM h0
  · intro c1' hne h
    have : (-c) • (c1' - c1) = 0 := by linear_combination (norm := module) h
    rcases smul_eq_zero.mp this with h0 | h0
    · exact hc (neg_eq_zero.mp h0)
    · exact hne (sub_eq_zero.mp h0)
  · intro c2' hne h
    have : (-c) • (c2' - c2) = 0 := by linear_combination (norm := module) h
    rcases smul_eq_zero.mp this with h0 | h0
    · exact hc (neg_eq_zero.mp h0)
    · exact hne (sub_eq_zero.mp h0)

/-- BBS: the proof of knowledge compares `t` with the recomputation, so a changed response (whose base
— a message generator, `a_bar` or `b_bar` — is not the identity: checked by the verifier) is rejected
by that deterministic check -/
theorem bbs_response_change_rejected [DecidableEq G] (g1 : G) (ys : List G) (rvl : List (Nat × F)) (c : F)
    (π : BbsPok F G) (pk : Bool) (i : Nat) (v x : F) (B : G)
    (hok : bbsVerify g1 ys rvl c π pk = true)
    (hB : (hiddenGens ys (rvl.map (·.1)) ++ [π.abar, π.bbar])[i]? = some B) (hB0 : B ≠ 0)
    (hp : π.proof[i]? = some x) (hne : v ≠ x) :
    bbsVerify g1 ys rvl c ⟨π.abar, π.bbar, π.t, π.proof.set i v⟩ pk = false := by
  obtain ⟨hl, ht, _, _, _⟩ := C17.bbsVerify_length g1 ys rvl c π pk hok
  have hmove := recommit_moves_on_response_change
    (hiddenGens ys (rvl.map (·.1)) ++ [π.abar, π.bbar]) (bbsLhs g1 ys rvl) c π.proof i v x B
    (by simp [hl]) hB hp hne hB0
  have e1 : bbsRecommit g1 ys rvl c ⟨π.abar, π.bbar, π.t, π.proof.set i v⟩
      = recommit (hiddenGens ys (rvl.map (·.1)) ++ [π.abar, π.bbar]) (bbsLhs g1 ys rvl) c (π.proof.set i v) := by
    simp [bbsRecommit, recommit, List.append_assoc]
  have e2 : bbsRecommit g1 ys rvl c π
      = recommit (hiddenGens ys (rvl.map (·.1)) ++ [π.abar, π.bbar]) (bbsLhs g1 ys rvl) c π.proof := by
    simp [bbsRecommit, recommit, List.append_assoc]
  have : π.t ≠ bbsRecommit g1 ys rvl c ⟨π.abar, π.bbar, π.t, π.proof.set i v⟩ := by
    rw [e1, ht, e2]; exact fun h => hmove h.symm
  simp [bbsVerify, this]

/-! removal / replacement of a required proof is decided by the dispatch, for every object:
`C01.missing_proof_rejected`, `C01.other_variant_rejected`, `C01.verify_ok_covers_predicates`. -/

/-- the items hashed for a commitment statement determine the commitment the proof carries and the
recomputed value: a changed commitment changes what is hashed even if the responses are adjusted to keep
the recomputed value (tie: `cm.recommit` compares both hashed items with the merlin log) -/
theorem commitmentItems_binds {G : Type} (C R C' R' : G)
    (h : AC.Sigma.commitmentItems C R = AC.Sigma.commitmentItems C' R') : C = C' ∧ R = R' := by
  simp [AC.Sigma.commitmentItems] at h; exact h

/-- likewise for the ElGamal part of a verifiable-encryption statement (tie: `eg.recommit`) -/
theorem elgamalItems_binds {G : Type} (c1 c2 r1 r2 c1' c2' r1' r2' : G)
    (h : AC.Sigma.elgamalItems c1 c2 r1 r2 = AC.Sigma.elgamalItems c1' c2' r1' r2') :
    c1 = c1' ∧ c2 = c2' ∧ r1 = r1' ∧ r2 = r2' := by
  simp [AC.Sigma.elgamalItems] at h; exact h

end AC.C11
