import AnonCreds.Model.Range
import AnonCreds.Props.C18
/-
C08 — range statements hold exactly when lower ≤ v ≤ upper over all of i64.
Everything is arithmetic on integers: the claim's encoding is `zc v = v + 2^63` (C18), the verifier
derives the commitments `C - zc(lo)•M` and `C + (2^64-1-zc(up))•M`, and a 64-bit bulletproof asserts
that the committed field element has a representative `< 2^64`. With `2^65 < r` a negative difference
wraps to `r - k ≥ 2^64`, so both range claims hold exactly for in-range values — over the entire signed
domain, both extremes included. Bulletproof soundness / completeness is the trusted third-party
contract; the prover's u64 arithmetic is shown not to wrap exactly when its pre-check passes.
-/
namespace AC.C08
open AC AC.Range AC.C18

theorem two64_nat : two64 = 2 * two63 := two64_eq

/-- lower bound: the opened value is `< 2^64` iff `lo ≤ v` -/
theorem lower_ok_iff (r : Nat) (hr : 2 * two64 < r) (v lo : Int) (hv : I64 v) (hl : I64 lo) :
    fieldLower r v lo < two64 ↔ lo ≤ v := by
  have h1 := zeroCenter_cast v hv.1 hv.2
  have h2 := zeroCenter_cast lo hl.1 hl.2
  have b1 := zeroCenter_lt v hv.1 hv.2
  have b2 := zeroCenter_lt lo hl.1 hl.2
  have h64 := two64_nat
  unfold fieldLower
  rw [Nat.mod_eq_of_lt (show zeroCenter lo < r by omega)]
  constructor
  · intro h
    by_cases hcon : lo ≤ v
    · exact hcon
    exfalso
    have hlt : zeroCenter v < zeroCenter lo := by omega
    have : zeroCenter v + r - zeroCenter lo < r := by omega
    rw [Nat.mod_eq_of_lt this] at h
    omega
  · intro h
    have hle : zeroCenter lo ≤ zeroCenter v := by omega
    have e : zeroCenter v + r - zeroCenter lo = (zeroCenter v - zeroCenter lo) + r := by omega
    rw [e, Nat.add_mod_right, Nat.mod_eq_of_lt (by omega)]
    omega

/-- upper bound: the opened value is `< 2^64` iff `v ≤ up` -/
theorem upper_ok_iff (r : Nat) (hr : 2 * two64 < r) (v up : Int) (hv : I64 v) (hu : I64 up) :
    fieldUpper r v up < two64 ↔ v ≤ up := by
  have h1 := zeroCenter_cast v hv.1 hv.2
  have h2 := zeroCenter_cast up hu.1 hu.2
  have b1 := zeroCenter_lt v hv.1 hv.2
  have b2 := zeroCenter_lt up hu.1 hu.2
  have h64 := two64_nat
  unfold fieldUpper
  rw [Nat.mod_eq_of_lt (by omega)]
  omega

/-- **Exactness of the statement.** The two bulletproof claims are jointly satisfiable iff
`lower ≤ v ≤ upper` (a missing bound meaning unbounded) -/
theorem verifier_satisfiable_iff (r : Nat) (hr : 2 * two64 < r) (v : Int) (lower upper : Option Int)
    (hv : I64 v) (hl : ∀ l, lower = some l → I64 l) (hu : ∀ u, upper = some u → I64 u) :
    verifierSatisfiable r v lower upper = true ↔
      (∀ l, lower = some l → l ≤ v) ∧ (∀ u, upper = some u → v ≤ u) := by
  unfold verifierSatisfiable
  cases lower with
  | none =>
    cases upper with
    | none => simp
    | some u => simp [upper_ok_iff r hr v u hv (hu u rfl)]
  | some l =>
    cases upper with
    | none => simp [lower_ok_iff r hr v l hv (hl l rfl)]
    | some u => simp [lower_ok_iff r hr v l hv (hl l rfl), upper_ok_iff r hr v u hv (hu u rfl)]

/-- the honest prover's pre-check is the same condition -/
theorem prover_accepts_iff (v : Int) (lower upper : Option Int) (hv : I64 v) :
    proverAccepts v lower upper = true ↔
      (∀ l, lower = some l → l ≤ v) ∧ (∀ u, upper = some u → v ≤ u) := by
  unfold proverAccepts i64Min i64Max
  have := hv.1; have := hv.2
  cases lower <;> cases upper <;> simp <;> omega

/-- when the pre-check passes the u64 arithmetic does not wrap and the prover's adjusted values are
exactly the field elements the verifier's derived commitments open to (same blinder) -/
theorem prover_values_exact (r : Nat) (hr : 2 * two64 < r) (v lo up : Int) (hv : I64 v) (hl : I64 lo)
    (hu : I64 up) (h1 : lo ≤ v) (h2 : v ≤ up) :
    adjustedLower v lo = fieldLower r v lo ∧ adjustedUpper v up = fieldUpper r v up
    ∧ adjustedLower v lo < two64 ∧ adjustedUpper v up < two64 := by
  have c1 := zeroCenter_cast v hv.1 hv.2
  have c2 := zeroCenter_cast lo hl.1 hl.2
  have c3 := zeroCenter_cast up hu.1 hu.2
  have b1 := zeroCenter_lt v hv.1 hv.2
  have b2 := zeroCenter_lt lo hl.1 hl.2
  have b3 := zeroCenter_lt up hu.1 hu.2
  have h64 := two64_nat
  have hle : zeroCenter lo ≤ zeroCenter v := by omega
  unfold adjustedLower adjustedUpper fieldLower fieldUpper
  rw [Nat.mod_eq_of_lt (show zeroCenter lo < r by omega)]
  have e1 : zeroCenter v + two64 - zeroCenter lo = (zeroCenter v - zeroCenter lo) + two64 := by omega
  have e2 : zeroCenter v + r - zeroCenter lo = (zeroCenter v - zeroCenter lo) + r := by omega
  rw [e1, e2, Nat.add_mod_right, Nat.add_mod_right, Nat.mod_eq_of_lt (show zeroCenter v - zeroCenter lo < two64 by omega),
    Nat.mod_eq_of_lt (show zeroCenter v - zeroCenter lo < r by omega),
    Nat.mod_eq_of_lt (show zeroCenter v + (two64 - 1 - zeroCenter up) < two64 by omega),
    Nat.mod_eq_of_lt (show zeroCenter v + (two64 - 1 - zeroCenter up) < r by omega)]
  omega

/-- the BLS12-381 group order satisfies the size hypothesis -/
theorem rOrder_large : 2 * two64 < rOrder := by decide

/-- non-vacuity at the extremes of the domain -/
example : verifierSatisfiable rOrder (-9223372036854775808) (some (-9223372036854775808)) (some 9223372036854775807) = true := by
  decide
example : verifierSatisfiable rOrder (-1) (some 0) none = false := by decide
example : verifierSatisfiable rOrder 9223372036854775807 none (some 9223372036854775806) = false := by decide

end AC.C08
