import AnonCreds.Model.Claims
/-
C20 — totality on untrusted input. The model of every partial Rust function returns `Outcome`, whose
`panic` constructor is produced exactly where the Rust code indexes, slices, unwraps or subtracts on
externally controlled data. A theorem `…_total` says the modelled entry point never reaches one.
Termination of every model function is by structural / well-founded recursion accepted by Lean.
-/
namespace AC.C20
open AC

theorem tailOfLen_total (s len : Nat) : (tailOfLen s len).isPanic = false := by
  unfold tailOfLen; split <;> rfl

/-- `ScalarClaim::decode_to_bytes` on an arbitrary scalar -/
theorem decodeToBytes_total (s : Nat) : (decodeToBytes s).isPanic = false := by
  unfold decodeToBytes decodeToBytesAt; exact tailOfLen_total _ _

/-- `ScalarClaim::decode_to_str` on an arbitrary scalar -/
theorem decodeToStr_total (s : Nat) : (decodeToStr s).isPanic = false := by
  unfold decodeToStr
  have := tailOfLen_total s ((toBE 32 s).getD 0 0).toNat
  split
  · split <;> rfl
  · rfl
  · rename_i h; rw [h] at this; simp [Outcome.isPanic] at this

/-- `ScalarClaim::encode_bytes` / `encode_str` on arbitrary input -/
theorem encodeBytes_total (b : Bytes) : (encodeBytes b).isPanic = false := by
  unfold encodeBytes; split
  · rfl
  · simp only []; split <;> rfl

/-- `ClaimData::from_bytes` for every claim type and byte string -/
theorem fromBytes_total (t : ClaimType) (d : Bytes) : (ClaimData.fromBytes true t d).isPanic = false := by
  cases t <;> simp only [ClaimData.fromBytes]
  · rfl
  · split <;> rfl
  · split
    · rfl
    · split <;> rfl
  · split
    · rfl
    · split <;> rfl
  · rfl

/-- `ClaimData::from_text` for every (valid UTF-8) string -/
theorem fromText_total (s : Bytes) : (ClaimData.fromText true s).isPanic = false := by
  unfold ClaimData.fromText
  simp only [↓reduceIte]
  repeat' split
  all_goals rfl

/-- `ClaimData::to_text` does not panic on claims whose print-friendly hashed values are UTF-8 — which
is what every decoder now guarantees -/
theorem toText_total (c : ClaimData)
    (h : ∀ v, c = .hashed v true → utf8Valid v = true) : c.toText.isPanic = false := by
  cases c with
  | hashed v pf =>
    cases pf with
    | true => simp [ClaimData.toText, h v rfl, Outcome.isPanic]
    | false => rfl
  | _ => rfl

/-- the pinned behaviour did panic (replayed by the harness before the repairs):
`from_text` on a 3-byte string and `from_bytes(Scalar, 3 bytes)` -/
theorem pinned_fromText_panics : (ClaimData.fromText false [97, 98]).isPanic = true := by decide
theorem pinned_fromBytes_panics : (ClaimData.fromBytes false .scalar [1, 2, 3]).isPanic = true := by decide

end AC.C20
