import AnonCreds.Model.Claims
import AnonCreds.Model.Create
/-
C20 — totality on untrusted input. The model of every partial Rust function returns `Outcome`, whose
`panic` constructor is produced exactly where the Rust code indexes, slices, unwraps or subtracts on
externally controlled data. A theorem `…_total` says the modelled entry point never reaches one.
Termination of every model function is by structural / well-founded recursion accepted by Lean.
-/
namespace AC.C20
open AC

theorem tailOfLen_total (s len : Nat) : (tailOfLen s len).isPanic = false := by
  unfold tailOfLen; split <;> rfl

/-- `ScalarClaim::decode_to_bytes` on an arbitrary scalar -/
theorem decodeToBytes_total (s : Nat) : (decodeToBytes s).isPanic = false := by
  unfold decodeToBytes decodeToBytesAt; exact tailOfLen_total _ _

/-- `ScalarClaim::decode_to_str` on an arbitrary scalar -/
theorem decodeToStr_total (s : Nat) : (decodeToStr s).isPanic = false := by
  unfold decodeToStr
  have := tailOfLen_total s ((toBE 32 s).getD 0 0).toNat
  split
  · split <;> rfl
  · rfl
  · rename_i h; rw [h] at this; simp [Outcome.isPanic] at this

/-- `ScalarClaim::encode_bytes` / `encode_str` on arbitrary input -/
theorem encodeBytes_total (b : Bytes) : (encodeBytes b).isPanic = false := by
  unfold encodeBytes; split
  · rfl
  · simp only []; split <;> rfl

/-- `ClaimData::from_bytes` for every claim type and byte string -/
theorem fromBytes_total (t : ClaimType) (d : Bytes) : (ClaimData.fromBytes true t d).isPanic = false := by
  cases t <;> simp only [ClaimData.fromBytes]
  · rfl
  · split <;> rfl
  · split
    · rfl
    · split <;> rfl
  · split
    · rfl
    · split <;> rfl
  · rfl

/-- `ClaimData::from_text` for every (valid UTF-8) string -/
theorem fromText_total (s : Bytes) : (ClaimData.fromText true s).isPanic = false := by
  unfold ClaimData.fromText
  simp only [↓reduceIte]
  repeat' split
  all_goals rfl

/-- `ClaimData::to_text` does not panic on claims whose print-friendly hashed values are UTF-8 — which
is what every decoder now guarantees -/
theorem toText_total (c : ClaimData)
    (h : ∀ v, c = .hashed v true → utf8Valid v = true) : c.toText.isPanic = false := by
  cases c with
  | hashed v pf =>
    cases pf with
    | true => simp [ClaimData.toText, h v rfl, Outcome.isPanic]
    | false => rfl
  | _ => rfl

/-- the pinned behaviour did panic (replayed by the harness before the repairs):
`from_text` on a 3-byte string and `from_bytes(Scalar, 3 bytes)` -/
theorem pinned_fromText_panics : (ClaimData.fromText false [97, 98]).isPanic = true := by decide
theorem pinned_fromBytes_panics : (ClaimData.fromBytes false .scalar [1, 2, 3]).isPanic = true := by decide

/-! ### `Presentation::create` on a verifier-supplied schema (`Model/Create.lean`)

The model returns a Boolean: every map / vector access of the real code is an explicit lookup whose
failure is the `false` (error) outcome — the repaired behaviour; the pinned code indexed and unwrapped
at the same places. What acceptance guarantees: -/
section create
open AC.Create AC.Verify

theorem predsOk_hidden (creds : List (String × CredI)) (ms : Messages) (l : List CStmt)
    (bs : List (String × Option (String × Nat))) (h : predsOk creds ms l = some bs) :
    ∀ kind id ref claim, CStmt.simple kind id ref claim ∈ l → hiddenClaim ms ref claim = true := by
  induction l generalizing bs with
  | nil => intro _ _ _ _ hm; cases hm
  | cons st rest ih =>
    intro kind id ref claim hm
    simp only [predsOk] at h
    cases hr : predsOk creds ms rest with
    | none => rw [hr] at h; cases h
    | some bs' =>
      rw [hr] at h
      rcases List.mem_cons.mp hm with rfl | hm'
      · simp only at h
        by_cases hh : hiddenClaim ms ref claim = true
        · exact hh
        · simp [hh] at h
      · exact ih bs' hr kind id ref claim hm'

/-- every entry of the message table comes from a signature statement with a signature credential -/
theorem messagesOf_lookup (creds : List (String × CredI)) (stmts : List CStmt) (ms : Messages)
    (h : messagesOf creds stmts = some ms) (r : String) (v : List Msg) (hv : ms.lookup r = some v) :
    ∃ disclosed labels nKey cs, CStmt.sig r disclosed labels nKey ∈ stmts ∧ sigClaims creds r = some cs ∧
      cs.length ≤ labels.length ∧
      v = (labels.take cs.length).map fun l => if disclosed.contains l then Msg.revealed else Msg.hidden := by
  induction stmts generalizing ms with
  | nil => simp [messagesOf] at h; subst h; simp at hv
  | cons st rest ih =>
    cases st with
    | sig id disclosed labels nKey =>
      simp only [messagesOf] at h
      cases hr : messagesOf creds rest with
      | none => rw [hr] at h; cases h
      | some ms' =>
        rw [hr] at h
        simp only at h
        cases hc : sigClaims creds id with
        | none =>
          rw [hc] at h; simp only [Option.some.injEq] at h; subst h
          obtain ⟨d, l, n, cs, hm, h2, h3, h4⟩ := ih ms' hr hv
          exact ⟨d, l, n, cs, List.mem_cons_of_mem _ hm, h2, h3, h4⟩
        | some cs =>
          rw [hc] at h
          simp only at h
          by_cases hl : cs.length ≤ labels.length
          · rw [if_pos hl] at h
            simp only [Option.some.injEq] at h; subst h
            by_cases e : r = id
            · subst e
              simp only [List.lookup_cons_self, Option.some.injEq] at hv
              exact ⟨disclosed, labels, nKey, cs, List.mem_cons_self, hc, hl, hv.symm⟩
            · have : (r == id) = false := by simpa using e
              simp only [List.lookup_cons, this] at hv
              obtain ⟨d, l, n, cs', hm, h2, h3, h4⟩ := ih ms' hr hv
              exact ⟨d, l, n, cs', List.mem_cons_of_mem _ hm, h2, h3, h4⟩
          · rw [if_neg hl] at h; cases h
    | equality id refs =>
      simp only [messagesOf] at h
      obtain ⟨d, l, n, cs, hm, h2, h3, h4⟩ := ih ms h hv
      exact ⟨d, l, n, cs, List.mem_cons_of_mem _ hm, h2, h3, h4⟩
    | simple kind id ref claim =>
      simp only [messagesOf] at h
      obtain ⟨d, l, n, cs, hm, h2, h3, h4⟩ := ih ms h hv
      exact ⟨d, l, n, cs, List.mem_cons_of_mem _ hm, h2, h3, h4⟩
    | range id ref sigId claim lower upper =>
      simp only [messagesOf] at h
      obtain ⟨d, l, n, cs, hm, h2, h3, h4⟩ := ih ms h hv
      exact ⟨d, l, n, cs, List.mem_cons_of_mem _ hm, h2, h3, h4⟩

/-- **What an accepted schema guarantees.** If `create` produces a presentation, every revocation /
membership / commitment / encryption statement refers to a signature statement of the schema whose
credential the holder supplied, at an existing claim index whose label the verifier did not ask to
disclose. -/
theorem create_ok_references_resolve (creds : List (String × CredI)) (stmts : List CStmt)
    (h : createOk creds stmts = true) (kind : Kind) (id ref : String) (claim : Nat)
    (hm : CStmt.simple kind id ref claim ∈ stmts) :
    ∃ disclosed labels nKey cs, CStmt.sig ref disclosed labels nKey ∈ stmts ∧
      sigClaims creds ref = some cs ∧ claim < cs.length ∧
      ∃ l, labels[claim]? = some l ∧ disclosed.contains l = false := by
  unfold createOk at h
  simp only [Bool.and_eq_true] at h
  obtain ⟨⟨⟨_, _⟩, _⟩, h4⟩ := h
  cases hms : messagesOf creds stmts with
  | none => rw [hms] at h4; cases h4
  | some ms =>
    rw [hms] at h4
    simp only [Bool.and_eq_true] at h4
    obtain ⟨⟨_, _⟩, h7⟩ := h4
    cases hp : predsOk creds ms (stmts.filter (!·.isSig)) with
    | none => rw [hp] at h7; cases h7
    | some bs =>
      have hmem : CStmt.simple kind id ref claim ∈ stmts.filter (!·.isSig) := by
        simp [List.mem_filter, hm, CStmt.isSig]
      have hh := predsOk_hidden creds ms _ bs hp kind id ref claim hmem
      unfold hiddenClaim at hh
      cases hl : ms.lookup ref with
      | none => rw [hl] at hh; cases hh
      | some v =>
        rw [hl] at hh
        obtain ⟨d, labels, n, cs, hsig, hc, hlen, hv⟩ := messagesOf_lookup creds stmts ms hms ref v hl
        refine ⟨d, labels, n, cs, hsig, hc, ?_⟩
        have hv' : v[claim]? = some Msg.hidden := by simpa using hh
        rw [hv] at hv'
        simp only [List.getElem?_map, List.getElem?_take] at hv'
        by_cases hlt : claim < cs.length
        · refine ⟨hlt, ?_⟩
          rw [if_pos hlt] at hv'
          cases hg : labels[claim]? with
          | none => rw [hg] at hv'; cases hv'
          | some l =>
            rw [hg] at hv'
            refine ⟨l, rfl, ?_⟩
            simp only [Option.map_some, Option.some.injEq] at hv'
            by_cases hd : d.contains l = true
            · rw [if_pos hd] at hv'; cases hv'
            · simpa using hd
        · rw [if_neg hlt] at hv'; cases hv'

example : createOk [("s", .sig [⟨1, none⟩, ⟨2, some 5⟩])]
    [.sig "s" ["a"] ["a", "b"] 2, .simple .commitment "c" "s" 1, .range "r" "c" "s" 1 (some 0) none] = true := by decide


end create

end AC.C20
