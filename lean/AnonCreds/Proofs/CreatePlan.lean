import AnonCreds.Model.Create
/-
Helper lemmas and the composition theorem "what `Presentation::create` emits passes the plan stage of
`Presentation::verify`" (property C03; restated in `Props/C03.lean`).
-/
namespace AC.CreatePlan
open AC.Verify AC.Create


theorem lookup_unique {β : Type} (l : List (String × β)) (k : String) (v : β)
    (hex : ∃ v', (k, v') ∈ l) (hall : ∀ v', (k, v') ∈ l → v' = v) : l.lookup k = some v := by
  induction l with
  | nil => obtain ⟨_, h⟩ := hex; cases h
  | cons a as ih =>
    obtain ⟨a1, a2⟩ := a
    by_cases hk : k = a1
    · subst hk
      have : a2 = v := hall a2 (by simp)
      simp [List.lookup, this]
    · have hne : (k == a1) = false := by simpa using hk
      simp only [List.lookup, hne]
      apply ih
      · obtain ⟨v', h⟩ := hex
        rcases List.mem_cons.1 h with h | h
        · cases h; exact absurd rfl hk
        · exact ⟨v', h⟩
      · intro v' h; exact hall v' (List.mem_cons_of_mem _ h)

theorem mem_of_lookup {β : Type} (l : List (String × β)) (k : String) (v : β)
    (h : l.lookup k = some v) : (k, v) ∈ l := by
  induction l with
  | nil => simp [List.lookup] at h
  | cons a as ih =>
    obtain ⟨a1, a2⟩ := a
    by_cases hk : k = a1
    · subst hk; simp [List.lookup] at h; simp [h]
    · have hne : (k == a1) = false := by simpa using hk
      simp only [List.lookup, hne] at h
      exact List.mem_cons_of_mem _ (ih h)

theorem lookup_isSome_of_key {β : Type} (l : List (String × β)) (k : String)
    (hex : ∃ v', (k, v') ∈ l) : ∃ v, l.lookup k = some v := by
  induction l with
  | nil => obtain ⟨_, h⟩ := hex; cases h
  | cons a as ih =>
    obtain ⟨a1, a2⟩ := a
    by_cases hk : k = a1
    · subst hk; exact ⟨a2, by simp [List.lookup]⟩
    · have hne : (k == a1) = false := by simpa using hk
      simp only [List.lookup, hne]
      apply ih
      obtain ⟨v', h⟩ := hex
      rcases List.mem_cons.1 h with h | h
      · cases h; exact absurd rfl hk
      · exact ⟨v', h⟩

theorem firstSome_none {α β : Type} (f : α → Option β) (l : List α) (h : ∀ a ∈ l, f a = none) :
    firstSome f l = none := by
  induction l with
  | nil => rfl
  | cons a as ih =>
    simp only [firstSome, h a (by simp)]
    exact ih fun b hb => h b (List.mem_cons_of_mem _ hb)



/-! ### `IndexMap::insert` fold -/

theorem mem_imInsert (m : List ProofI) (p x : ProofI) (h : x ∈ imInsert m p) : x ∈ m ∨ x = p := by
  unfold imInsert at h
  split at h
  · rcases List.mem_map.1 h with ⟨q, hq, rfl⟩
    split
    · right; rfl
    · left; exact hq
  · rcases List.mem_append.1 h with h | h
    · left; exact h
    · right; simpa using h

theorem key_imInsert (m : List ProofI) (p : ProofI) (k : String)
    (h : (∃ x ∈ m, x.id = k) ∨ p.id = k) : ∃ x ∈ imInsert m p, x.id = k := by
  unfold imInsert
  split
  next hany =>
    rcases h with ⟨x, hx, rfl⟩ | rfl
    · by_cases hxp : x.id = p.id
      · exact ⟨p, List.mem_map.2 ⟨x, hx, by simp [hxp]⟩, hxp.symm⟩
      · exact ⟨x, List.mem_map.2 ⟨x, hx, by simp [hxp]⟩, rfl⟩
    · obtain ⟨q, hq, hqp⟩ := List.any_eq_true.1 hany
      have hqp : q.id = p.id := by simpa using hqp
      exact ⟨p, List.mem_map.2 ⟨q, hq, by simp [hqp]⟩, rfl⟩
  next =>
    rcases h with ⟨x, hx, rfl⟩ | rfl
    · exact ⟨x, List.mem_append_left _ hx, rfl⟩
    · exact ⟨p, List.mem_append_right _ (by simp), rfl⟩

theorem mem_fold (l acc : List ProofI) (x : ProofI) (h : x ∈ l.foldl imInsert acc) : x ∈ acc ∨ x ∈ l := by
  induction l generalizing acc with
  | nil => left; simpa using h
  | cons a as ih =>
    rcases ih _ h with h | h
    · rcases mem_imInsert _ _ _ h with h | h
      · left; exact h
      · right; simp [h]
    · right; exact List.mem_cons_of_mem _ h

theorem key_fold (l acc : List ProofI) (k : String)
    (h : (∃ x ∈ acc, x.id = k) ∨ (∃ x ∈ l, x.id = k)) : ∃ x ∈ l.foldl imInsert acc, x.id = k := by
  induction l generalizing acc with
  | nil =>
    rcases h with h | ⟨x, hx, _⟩
    · simpa using h
    · cases hx
  | cons a as ih =>
    apply ih
    rcases h with h | ⟨x, hx, hk⟩
    · left; exact key_imInsert _ _ _ (Or.inl h)
    · rcases List.mem_cons.1 hx with rfl | hx
      · left; exact key_imInsert _ _ _ (Or.inr hk)
      · right; exact ⟨x, hx, hk⟩

/-! ### `messagesOf` -/

theorem messagesOf_mem (creds : List (String × CredI)) (l : List CStmt) (ms : Messages)
    (h : messagesOf creds l = some ms) (id : String) (v : List Msg) (hv : (id, v) ∈ ms) :
    ∃ d lb n cs, CStmt.sig id d lb n ∈ l ∧ sigClaims creds id = some cs := by
  induction l generalizing ms with
  | nil => simp [messagesOf] at h; subst h; cases hv
  | cons st rest ih =>
    cases st with
    | sig id' d lb n =>
      simp only [messagesOf] at h
      cases hrec : messagesOf creds rest with
      | none => simp [hrec] at h
      | some ms' =>
        have lift : (id, v) ∈ ms' → ∃ d1 lb1 n1 cs, CStmt.sig id d1 lb1 n1 ∈ CStmt.sig id' d lb n :: rest ∧ sigClaims creds id = some cs := by
          intro hv'
          obtain ⟨d', lb', n', cs', hm, hs⟩ := ih ms' hrec hv'
          exact ⟨d', lb', n', cs', List.mem_cons_of_mem _ hm, hs⟩
        cases hsc : sigClaims creds id' with
        | none =>
          simp [hrec, hsc] at h; subst h; exact lift hv
        | some cs =>
          simp only [hrec, hsc] at h
          split at h
          · cases h
            rcases List.mem_cons.1 hv with hv | hv
            · cases hv; exact ⟨d, lb, n, cs, by simp, hsc⟩
            · exact lift hv
          · cases h
    | equality _ _ | simple _ _ _ _ | range _ _ _ _ _ _ =>
      simp only [messagesOf] at h
      obtain ⟨d', lb', n', cs', hm, hs⟩ := ih ms h hv
      exact ⟨d', lb', n', cs', List.mem_cons_of_mem _ hm, hs⟩

theorem messagesOf_key (creds : List (String × CredI)) (l : List CStmt) (ms : Messages)
    (h : messagesOf creds l = some ms) (id : String) (d lb : List String) (n : Nat) (cs : List ClaimI)
    (hm : CStmt.sig id d lb n ∈ l) (hs : sigClaims creds id = some cs) : ∃ v, (id, v) ∈ ms := by
  induction l generalizing ms with
  | nil => cases hm
  | cons st rest ih =>
    cases st with
    | sig id' d' lb' n' =>
      simp only [messagesOf] at h
      cases hrec : messagesOf creds rest with
      | none => simp [hrec] at h
      | some ms' =>
        rcases List.mem_cons.1 hm with hm | hm
        · cases hm
          simp only [hrec, hs] at h
          split at h
          · cases h; exact ⟨_, List.mem_cons_self⟩
          · cases h
        · obtain ⟨v, hv⟩ := ih ms' hrec hm
          cases hsc : sigClaims creds id' with
          | none => simp [hrec, hsc] at h; subst h; exact ⟨v, hv⟩
          | some cs' =>
            simp only [hrec, hsc] at h
            split at h
            · cases h; exact ⟨v, List.mem_cons_of_mem _ hv⟩
            · cases h
    | equality _ _ | simple _ _ _ _ | range _ _ _ _ _ _ =>
      simp only [messagesOf] at h
      rcases List.mem_cons.1 hm with hm | hm
      · cases hm
      · exact ih ms h hm



/-! ### `predsOk` -/

theorem predsOk_hidden (creds : List (String × CredI)) (ms : Messages) (l : List CStmt)
    (bs : List (String × Option (String × Nat))) (h : predsOk creds ms l = some bs)
    (k : Kind) (id ref : String) (c : Nat) (hm : CStmt.simple k id ref c ∈ l) :
    hiddenClaim ms ref c = true := by
  induction l generalizing bs with
  | nil => cases hm
  | cons st rest ih =>
    simp only [predsOk] at h
    cases hrec : predsOk creds ms rest with
    | none => simp [hrec] at h
    | some bs' =>
      rcases List.mem_cons.1 hm with hm | hm
      · subst hm
        simp only [hrec] at h
        cases hh : hiddenClaim ms ref c with
        | true => rfl
        | false => simp [hh] at h
      · exact ih bs' hrec hm

theorem predsOk_commit (creds : List (String × CredI)) (ms : Messages) (l : List CStmt)
    (bs : List (String × Option (String × Nat))) (h : predsOk creds ms l = some bs)
    (id r : String) (c : Nat) (hm : (id, some (r, c)) ∈ bs) :
    CStmt.simple .commitment id r c ∈ l := by
  induction l generalizing bs with
  | nil => simp [predsOk] at h; subst h; cases hm
  | cons st rest ih =>
    simp only [predsOk] at h
    cases hrec : predsOk creds ms rest with
    | none => simp [hrec] at h
    | some bs' =>
      simp only [hrec] at h
      have lift : (id, some (r, c)) ∈ bs' → CStmt.simple .commitment id r c ∈ st :: rest :=
        fun hm' => List.mem_cons_of_mem _ (ih bs' hrec hm')
      cases st with
      | sig _ _ _ _ => simp at h; subst h; exact lift hm
      | range _ _ _ _ _ _ => simp at h; subst h; exact lift hm
      | equality id' refs =>
        simp only at h
        split at h
        · cases h
          rcases List.mem_cons.1 hm with hm | hm
          · cases hm
          · exact lift hm
        · cases h
      | simple kind id' ref' claim' =>
        simp only at h
        split at h
        · cases h
        · cases kind <;> simp only at h
          all_goals first
            | (cases h
               rcases List.mem_cons.1 hm with hm | hm
               · first | (cases hm; exact List.mem_cons_self) | cases hm
               · exact lift hm)
            | (split at h
               · cases h
                 rcases List.mem_cons.1 hm with hm | hm
                 · cases hm
                 · exact lift hm
               · cases h; exact lift hm)


/-! ### the two views of a schema and of the emitted proofs -/

/-- the verifier's reading of a statement (`types`: claim types of the embedded issuer schema) -/
def toV (types : String → List ClaimType) : CStmt → Stmt
  | .sig id disclosed labels _ => .sig ⟨id, disclosed, labels, types id⟩
  | .equality id refs => .pred ⟨.equality, id, refs⟩
  | .simple kind id ref claim => .pred ⟨kind, id, [(ref, claim)]⟩
  | .range id ref _ claim _ _ => .pred ⟨.range, id, [(ref, claim)]⟩

@[simp] theorem toV_id (types : String → List ClaimType) (st : CStmt) : (toV types st).id = st.id := by
  cases st <;> rfl

/-- the hidden indices the verifier's index → response lookup yields for an honest signature proof -/
def hiddenOf (p : ProofI) : Option (List Nat) :=
  if p.kind == .signature then some ((List.range p.n).filter fun i => !p.revealed.contains i) else none

def toProofM {F : Type} (inner : String → Inner F) (p : ProofI) : String × ProofM F :=
  (p.id, ⟨p.kind, p.id, inner p.id, hiddenOf p⟩)

def toPres {F : Type} (inner : String → Inner F) (reported : List (String × List (String × ClaimData)))
    (ps : List ProofI) : Pres F :=
  ⟨ps.map (toProofM inner), reported⟩

/-- the builder (if any) of one statement -/
def proofOf (creds : List (String × CredI)) (ms : Messages) (st : CStmt) : Option ProofI :=
  match st with
  | .sig .. => sigProofOf creds ms st
  | .range .. => rangeProofOf creds st
  | _ => predProofOf creds st

theorem proofOf_id (creds : List (String × CredI)) (ms : Messages) (st : CStmt) (x : ProofI)
    (h : proofOf creds ms st = some x) : x.id = st.id := by
  cases st with
  | sig id d lb n =>
    simp only [proofOf, sigProofOf] at h
    split at h
    · cases h; rfl
    · cases h
  | equality id refs => simp only [proofOf, predProofOf] at h; cases h; rfl
  | simple k id ref c =>
    simp only [proofOf, predProofOf] at h
    cases k <;> simp only at h
    all_goals first
      | (cases h; rfl)
      | (split at h
         · cases h; rfl
         · cases h)
  | range id ref sid c lo hi =>
    simp only [proofOf, rangeProofOf] at h
    split at h
    · cases h; rfl
    · cases h

/-- the builders in the order `create` inserts their proofs -/
def emitted (creds : List (String × CredI)) (ms : Messages) (stmts : List CStmt) : List ProofI :=
  stmts.filterMap (rangeProofOf creds) ++ stmts.filterMap (sigProofOf creds ms) ++ stmts.filterMap (predProofOf creds)

theorem emitted_of (creds : List (String × CredI)) (ms : Messages) (stmts : List CStmt) (x : ProofI)
    (h : x ∈ emitted creds ms stmts) : ∃ st ∈ stmts, proofOf creds ms st = some x := by
  unfold emitted at h
  rcases List.mem_append.1 h with h | h
  · rcases List.mem_append.1 h with h | h
    · obtain ⟨st, hst, hx⟩ := List.mem_filterMap.1 h
      refine ⟨st, hst, ?_⟩
      cases st <;> first | exact hx | (simp [rangeProofOf] at hx)
    · obtain ⟨st, hst, hx⟩ := List.mem_filterMap.1 h
      refine ⟨st, hst, ?_⟩
      cases st <;> first | exact hx | (simp [sigProofOf] at hx)
  · obtain ⟨st, hst, hx⟩ := List.mem_filterMap.1 h
    refine ⟨st, hst, ?_⟩
    cases st <;> first | exact hx | (simp [predProofOf] at hx)

theorem of_emitted (creds : List (String × CredI)) (ms : Messages) (stmts : List CStmt) (st : CStmt) (x : ProofI)
    (hst : st ∈ stmts) (h : proofOf creds ms st = some x) : x ∈ emitted creds ms stmts := by
  unfold emitted
  cases st with
  | sig id d lb n =>
    exact List.mem_append_left _ (List.mem_append_right _ (List.mem_filterMap.2 ⟨_, hst, h⟩))
  | range id ref sid c lo hi =>
    exact List.mem_append_left _ (List.mem_append_left _ (List.mem_filterMap.2 ⟨_, hst, h⟩))
  | equality id refs =>
    exact List.mem_append_right _ (List.mem_filterMap.2 ⟨_, hst, h⟩)
  | simple k id ref c =>
    exact List.mem_append_right _ (List.mem_filterMap.2 ⟨_, hst, h⟩)

/-- with pairwise distinct statement ids, the proof stored under a statement's id is that statement's -/
theorem lookup_proof {F : Type} (inner : String → Inner F) (creds : List (String × CredI)) (ms : Messages)
    (stmts : List CStmt) (hids : ∀ a ∈ stmts, ∀ b ∈ stmts, a.id = b.id → a = b)
    (st : CStmt) (hst : st ∈ stmts) (x : ProofI) (hx : proofOf creds ms st = some x) :
    (((emitted creds ms stmts).foldl imInsert []).map (toProofM inner)).lookup st.id
      = some (toProofM inner x).2 := by
  apply lookup_unique
  · obtain ⟨y, hy, hyk⟩ := key_fold (emitted creds ms stmts) [] st.id
      (Or.inr ⟨x, of_emitted _ _ _ _ _ hst hx, proofOf_id _ _ _ _ hx⟩)
    exact ⟨(toProofM inner y).2, List.mem_map.2 ⟨y, hy, by simp [toProofM, hyk]⟩⟩
  · intro v' hv'
    obtain ⟨y, hy, hyv⟩ := List.mem_map.1 hv'
    rcases mem_fold _ _ _ hy with hy | hy
    · cases hy
    · obtain ⟨st', hst', hy'⟩ := emitted_of _ _ _ _ hy
      have hid : y.id = st.id := by
        have := congrArg Prod.fst hyv; simpa [toProofM] using this
      have : st' = st := hids st' hst' st hst (by rw [← proofOf_id _ _ _ _ hy', hid])
      subst this
      have : y = x := by rw [hx] at hy'; cases hy'; rfl
      subst this
      have := congrArg Prod.snd hyv; simpa using this.symm

theorem find_stmt (types : String → List ClaimType) (stmts : List CStmt) (st : CStmt) (hst : st ∈ stmts)
    (hids : ∀ a ∈ stmts, a.id = st.id → a = st) :
    (stmts.map (toV types)).find? (fun s => s.id == st.id) = some (toV types st) := by
  induction stmts with
  | nil => cases hst
  | cons a as ih =>
    simp only [List.map_cons, List.find?_cons, toV_id]
    by_cases ha : a.id = st.id
    · have := hids a (by simp) ha; subst this; simp
    · have hne : (a.id == st.id) = false := by simpa using ha
      simp only [hne]
      rcases List.mem_cons.1 hst with h | h
      · subst h; exact absurd rfl ha
      · exact ih h fun b hb => hids b (List.mem_cons_of_mem _ hb)

/-! ### the composition theorem -/

/-- what makes a (credentials, schema) pair an honest one for the purposes of the plan stage -/
structure Honest (creds : List (String × CredI)) (stmts : List CStmt) : Prop where
  /-- statement ids are pairwise distinct -/
  ids : ∀ a ∈ stmts, ∀ b ∈ stmts, a.id = b.id → a = b
  /-- single-reference predicate statements are of the five kinds that exist -/
  kinds : ∀ k id ref c, CStmt.simple k id ref c ∈ stmts →
    k = .revocation ∨ k = .commitment ∨ k = .verenc ∨ k = .ved ∨ k = .membership
  /-- every signature statement comes with a signature credential -/
  sigCred : ∀ id d l n, CStmt.sig id d l n ∈ stmts → ∃ cs, sigClaims creds id = some cs
  /-- every membership statement comes with a membership credential -/
  memCred : ∀ id ref c, CStmt.simple .membership id ref c ∈ stmts → creds.lookup id = some .membership
  /-- the `signature_id` of a range statement names a signature credential -/
  rangeCred : ∀ id ref sid c lo hi, CStmt.range id ref sid c lo hi ∈ stmts → ∃ cs, sigClaims creds sid = some cs

theorem sigClaims_lookup (creds : List (String × CredI)) (id : String) (cs : List ClaimI)
    (h : sigClaims creds id = some cs) : creds.lookup id = some (.sig cs) := by
  unfold sigClaims at h
  split at h
  · cases h; assumption
  · cases h

/-- the signature proof a hidden claim reference resolves to -/
theorem sig_proof_of_hidden {F : Type} (inner : String → Inner F) (creds : List (String × CredI)) (ms : Messages)
    (stmts : List CStmt) (hids : ∀ a ∈ stmts, ∀ b ∈ stmts, a.id = b.id → a = b)
    (hms : messagesOf creds stmts = some ms) (ref : String) (c : Nat) (hh : hiddenClaim ms ref c = true) :
    ∃ d lb n cs v, CStmt.sig ref d lb n ∈ stmts ∧ sigClaims creds ref = some cs ∧ v[c]? = some Msg.hidden ∧
      (((emitted creds ms stmts).foldl imInsert []).map (toProofM inner)).lookup ref
        = some (toProofM inner ⟨ref, .signature, v.length, revealedIdx v⟩).2 := by
  unfold hiddenClaim at hh
  cases hl : ms.lookup ref with
  | none => simp [hl] at hh
  | some v =>
    simp only [hl] at hh
    have hv : v[c]? = some Msg.hidden := by simpa using hh
    obtain ⟨d, lb, n, cs, hst, hsc⟩ := messagesOf_mem creds stmts ms hms ref v (mem_of_lookup _ _ _ hl)
    refine ⟨d, lb, n, cs, v, hst, hsc, hv, ?_⟩
    have := lookup_proof inner creds ms stmts hids (.sig ref d lb n) hst ⟨ref, .signature, v.length, revealedIdx v⟩
      (by simp [proofOf, sigProofOf, hsc, hl])
    simpa [CStmt.id] using this

theorem hidden_contains (v : List Msg) (c : Nat) (hv : v[c]? = some Msg.hidden) :
    ((List.range v.length).filter fun i => !(revealedIdx v).contains i).contains c = true := by
  have hlt : c < v.length := by
    rcases Nat.lt_or_ge c v.length with h | h
    · exact h
    · rw [List.getElem?_eq_none h] at hv; cases hv
  rw [List.contains_iff_mem, List.mem_filter]
  refine ⟨List.mem_range.2 hlt, ?_⟩
  simp only [Bool.not_eq_true', revealedIdx]
  rw [Bool.eq_false_iff]
  intro hc
  rw [List.contains_iff_mem, List.mem_filter] at hc
  rw [hv] at hc
  simp at hc

theorem hidden_facts (v : List Msg) (c : Nat) (hv : v[c]? = some Msg.hidden) :
    c < v.length ∧ ¬ c ∈ revealedIdx v := by
  have hlt : c < v.length := by
    rcases Nat.lt_or_ge c v.length with h | h
    · exact h
    · rw [List.getElem?_eq_none h] at hv; cases hv
  refine ⟨hlt, ?_⟩
  intro hc
  simp only [revealedIdx, List.mem_filter] at hc
  rw [hv] at hc
  simp at hc

theorem mem_preds_of_mem (stmts : List CStmt) (st : CStmt) (h : st ∈ stmts) (hs : st.isSig = false) :
    st ∈ stmts.filter (!·.isSig) := by
  simp [List.mem_filter, h, hs]

/-- **Plan completeness.** Whatever `Presentation::create` emits for an honest (credentials, schema)
pair passes everything `Presentation::verify` decides before the challenge comparison, provided the
reported disclosed claims pass the disclosed-claims check (C02). -/
theorem create_plan_complete {F : Type} [DecidableEq F] (enc : ClaimData → F) (types : String → List ClaimType)
    (inner : String → Inner F) (reported : List (String × List (String × ClaimData)))
    (creds : List (String × CredI)) (stmts : List CStmt) (ps : List ProofI)
    (hon : Honest creds stmts)
    (hdisc : ∀ id d l n, CStmt.sig id d l n ∈ stmts →
      ∃ rep, reported.lookup id = some rep ∧ checkDisclosed enc ⟨id, d, l, types id⟩ (inner id) rep = true)
    (hcreate : createProofs creds stmts = some ps) :
    planStage enc (stmts.map (toV types)) (toPres inner reported ps) = none := by
  unfold createProofs at hcreate
  split at hcreate
  case isFalse => cases hcreate
  case isTrue hok =>
  cases hms : messagesOf creds stmts with
  | none => simp [hms] at hcreate
  | some ms =>
  simp only [hms, Option.some.injEq] at hcreate
  have hps : ps = (emitted creds ms stmts).foldl imInsert [] := by rw [← hcreate]; rfl
  -- the validation facts
  simp only [createOk, hms, Bool.and_eq_true] at hok
  obtain ⟨_, _, hpreds⟩ := hok
  cases hpo : predsOk creds ms (stmts.filter (!·.isSig)) with
  | none => simp [hpo] at hpreds
  | some bs =>
  simp only [hpo] at hpreds
  have hranges : rangesOk creds bs (stmts.filter (!·.isSig)) = true := hpreds
  -- lookups in the emitted map
  have look : ∀ st ∈ stmts, ∀ x, proofOf creds ms st = some x →
      (toPres inner reported ps : Pres F).proofs.lookup st.id = some (toProofM inner x).2 := by
    intro st hst x hx
    simp only [toPres, hps]
    exact lookup_proof inner creds ms stmts hon.ids st hst x hx
  have lookRef : ∀ ref c, hiddenClaim ms ref c = true →
      ∃ d lb n cs v, CStmt.sig ref d lb n ∈ stmts ∧ sigClaims creds ref = some cs ∧ v[c]? = some Msg.hidden ∧
        (toPres inner reported ps : Pres F).proofs.lookup ref
          = some (toProofM inner ⟨ref, .signature, v.length, revealedIdx v⟩).2 := by
    intro ref c hh
    simp only [toPres, hps]
    exact sig_proof_of_hidden inner creds ms stmts hon.ids hms ref c hh
  have findS : ∀ st ∈ stmts, (stmts.map (toV types)).find? (fun s => s.id == st.id) = some (toV types st) :=
    fun st hst => find_stmt types stmts st hst fun a ha h => hon.ids a ha st hst h
  unfold planStage
  simp only
  -- (1) every proof is stored under the id it carries
  have hany : ((toPres inner reported ps : Pres F).proofs.any fun e => e.2.innerId != e.1) = false := by
    rw [List.any_eq_false]
    intro e he
    simp only [toPres] at he
    obtain ⟨y, _, rfl⟩ := List.mem_map.1 he
    simp [toProofM]
  rw [hany]
  simp only [Bool.false_eq_true, if_false]
  -- (2) signature statements
  have hsigS : ∀ id d lb n, CStmt.sig id d lb n ∈ stmts →
      planSig enc (toPres inner reported ps) ⟨id, d, lb, types id⟩ = none := by
    intro id d lb n hst
    obtain ⟨cs, hcs⟩ := hon.sigCred id d lb n hst
    obtain ⟨v, hv⟩ := lookup_isSome_of_key ms id (messagesOf_key creds stmts ms hms id d lb n cs hst hcs)
    have hl := look _ hst ⟨id, .signature, v.length, revealedIdx v⟩ (by simp [proofOf, sigProofOf, hcs, hv])
    obtain ⟨rep, hrep, hck⟩ := hdisc id d lb n hst
    simp only [CStmt.id] at hl
    simp only [planSig, hl, toProofM]
    have hd : (toPres inner reported ps : Pres F).disclosed.lookup id = some rep := hrep
    simp [hd, hck]
  have hsig : ∀ s, (∃ st ∈ stmts, toV types st = .sig s) → planSig enc (toPres inner reported ps) s = none := by
    intro s ⟨st, hst, hvs⟩
    cases st with
    | sig id d lb n =>
      simp only [toV, Stmt.sig.injEq] at hvs
      subst hvs
      exact hsigS id d lb n hst
    | equality _ _ => simp [toV] at hvs
    | simple _ _ _ _ => simp [toV] at hvs
    | range _ _ _ _ _ _ => simp [toV] at hvs
  -- (3) predicate statements
  have hpred : ∀ q, (∃ st ∈ stmts, toV types st = .pred q) →
      planPred (stmts.map (toV types)) (toPres inner reported ps) q = none := by
    intro q ⟨st, hst, hvq⟩
    cases st with
    | sig _ _ _ _ => simp [toV] at hvq
    | equality id refs =>
      simp only [toV, Stmt.pred.injEq] at hvq
      subst hvq
      have hl := look _ hst ⟨id, .equality, 0, []⟩ (by simp [proofOf, predProofOf])
      simp only [CStmt.id] at hl
      simp [planPred, hl, toProofM]
    | simple k id ref c =>
      simp only [toV, Stmt.pred.injEq] at hvq
      subst hvq
      have hh : hiddenClaim ms ref c = true :=
        predsOk_hidden creds ms _ bs hpo k id ref c (mem_preds_of_mem stmts _ hst rfl)
      obtain ⟨d, lb, n, cs, v, hsst, hcs, hv, hlr⟩ := lookRef ref c hh
      have hcred := sigClaims_lookup creds ref cs hcs
      have hres : resolveRef (stmts.map (toV types)) (toPres inner reported ps : Pres F) ref c = true := by
        unfold resolveRef
        rw [hlr]
        have hf := findS _ hsst
        simp only [CStmt.id] at hf
        simp only [toProofM, hf, toV, hiddenOf]
        simp
        exact hidden_facts v c hv
      have hx : proofOf creds ms (.simple k id ref c) = some ⟨id, k, 0, []⟩ := by
        rcases hon.kinds k id ref c hst with rfl | rfl | rfl | rfl | rfl
        · simp [proofOf, predProofOf, hcred]
        · simp [proofOf, predProofOf]
        · simp [proofOf, predProofOf]
        · simp [proofOf, predProofOf]
        · simp [proofOf, predProofOf, hon.memCred id ref c hst]
      have hl := look _ hst _ hx
      simp only [CStmt.id] at hl
      rcases hon.kinds k id ref c hst with rfl | rfl | rfl | rfl | rfl <;>
        simp [planPred, hl, toProofM, hres]
    | range id ref sid c lo hi =>
      simp only [toV, Stmt.pred.injEq] at hvq
      subst hvq
      obtain ⟨cs, hcs⟩ := hon.rangeCred id ref sid c lo hi hst
      have hcred := sigClaims_lookup creds sid cs hcs
      have hl := look _ hst ⟨id, .range, 0, []⟩ (by simp [proofOf, rangeProofOf, hcred])
      simp only [CStmt.id] at hl
      -- the range pass found a commitment builder under `ref`
      have hr := List.all_eq_true.1 hranges (.range id ref sid c lo hi) (mem_preds_of_mem stmts _ hst rfl)
      simp only [hcred] at hr
      cases hb : bs.lookup ref with
      | none => simp [hb] at hr
      | some ob =>
        cases ob with
        | none => simp [hb] at hr
        | some rc =>
          obtain ⟨cref, cclaim⟩ := rc
          have hcm : CStmt.simple .commitment ref cref cclaim ∈ stmts.filter (!·.isSig) :=
            predsOk_commit creds ms _ bs hpo ref cref cclaim (mem_of_lookup _ _ _ hb)
          have hcst : CStmt.simple .commitment ref cref cclaim ∈ stmts := (List.mem_filter.1 hcm).1
          have hf := findS _ hcst
          have hlc := look _ hcst ⟨ref, .commitment, 0, []⟩ (by simp [proofOf, predProofOf])
          simp only [CStmt.id] at hf hlc
          simp [planPred, hl, toProofM, hf, toV, hlc]
  split
  next why heq =>
    rw [firstSome_none] at heq
    · cases heq
    · intro s hs
      obtain ⟨vst, hvst, hvs⟩ := List.mem_filterMap.1 hs
      obtain ⟨st, hst, rfl⟩ := List.mem_map.1 hvst
      apply hsig s ⟨st, hst, ?_⟩
      cases st <;> simp [toV] at hvs ⊢
      exact hvs
  next =>
    apply firstSome_none
    intro q hq
    obtain ⟨vst, hvst, hvq⟩ := List.mem_filterMap.1 hq
    obtain ⟨st, hst, rfl⟩ := List.mem_map.1 hvst
    apply hpred q ⟨st, hst, ?_⟩
    cases st <;> simp [toV] at hvq ⊢
    all_goals exact hvq
/-! ### transcript order of the statement-id markers -/

/-- per-statement contributions to the four lists -/
def cmHead (creds : List (String × CredI)) (st : CStmt) : List String :=
  match predProofOf creds st with
  | some p => if markerKind p.kind then [p.id] else []
  | none => []
def crHead (creds : List (String × CredI)) (st : CStmt) : List String :=
  match rangeProofOf creds st with
  | some p => [p.id]
  | none => []
def vmHead (types : String → List ClaimType) (st : CStmt) : List String :=
  match toV types st with
  | .pred q => if markerKind q.kind then [q.id] else []
  | _ => []
def vrHead (types : String → List ClaimType) (st : CStmt) : List String :=
  match toV types st with
  | .pred q => if q.kind == .range then [q.id] else []
  | _ => []

theorem cm_flat (creds : List (String × CredI)) (l : List CStmt) :
    ((l.filterMap (predProofOf creds)).filter fun p => markerKind p.kind).map (·.id) = l.flatMap (cmHead creds) := by
  induction l with
  | nil => rfl
  | cons st rest ih =>
    simp only [List.filterMap_cons, List.flatMap_cons, cmHead]
    cases predProofOf creds st with
    | none => simpa using ih
    | some p =>
      simp only [List.filter_cons]
      cases markerKind p.kind <;> simp [ih]

theorem cr_flat (creds : List (String × CredI)) (l : List CStmt) :
    (l.filterMap (rangeProofOf creds)).map (·.id) = l.flatMap (crHead creds) := by
  induction l with
  | nil => rfl
  | cons st rest ih =>
    simp only [List.filterMap_cons, List.flatMap_cons, crHead]
    cases rangeProofOf creds st with
    | none => simpa using ih
    | some p => simp [ih]

theorem vm_flat (types : String → List ClaimType) (l : List CStmt) :
    ((l.filterMap (predOf ∘ toV types)).filter fun q => markerKind q.kind).map (·.id) = l.flatMap (vmHead types) := by
  induction l with
  | nil => rfl
  | cons st rest ih =>
    simp only [List.filterMap_cons, List.flatMap_cons, vmHead, Function.comp]
    cases hv : toV types st with
    | sig s => simp only [predOf]; exact ih
    | pred q =>
      simp only [predOf, List.filter_cons]
      cases markerKind q.kind
      · simp only [Bool.false_eq_true, if_false, List.nil_append]; exact ih
      · simp only [if_true, List.map_cons, List.singleton_append]; rw [← ih]

theorem vr_flat (types : String → List ClaimType) (l : List CStmt) :
    ((l.filterMap (predOf ∘ toV types)).filter fun q => q.kind == .range).map (·.id) = l.flatMap (vrHead types) := by
  induction l with
  | nil => rfl
  | cons st rest ih =>
    simp only [List.filterMap_cons, List.flatMap_cons, vrHead, Function.comp]
    cases hv : toV types st with
    | sig s => simp only [predOf]; exact ih
    | pred q =>
      simp only [predOf, List.filter_cons]
      cases (q.kind == Kind.range)
      · simp only [Bool.false_eq_true, if_false, List.nil_append]; exact ih
      · simp only [if_true, List.map_cons, List.singleton_append]; rw [← ih]

theorem flatMap_congr_mem {α β : Type} (f g : α → List β) (l : List α) (h : ∀ a ∈ l, f a = g a) :
    l.flatMap f = l.flatMap g := by
  induction l with
  | nil => rfl
  | cons a as ih =>
    simp only [List.flatMap_cons, h a (by simp)]
    rw [ih fun x hx => h x (List.mem_cons_of_mem _ hx)]

/-- **Transcript order.** For an honest pair, `create` and `verify` append the statement-id markers of the
commitment / verifiable-encryption / encrypt-and-decrypt statements, and then those of the range statements,
in the same order. -/
theorem markers_agree (types : String → List ClaimType) (creds : List (String × CredI)) (stmts : List CStmt)
    (hon : Honest creds stmts) :
    createMarkers creds stmts = verifyMarkers (stmts.map (toV types)) := by
  unfold createMarkers verifyMarkers
  rw [List.filterMap_map, cm_flat, cr_flat, vm_flat, vr_flat]
  congr 1
  · apply flatMap_congr_mem
    intro st hst
    cases st with
    | sig id d lb n => simp [cmHead, vmHead, predProofOf, toV]
    | equality id refs => simp [cmHead, vmHead, predProofOf, toV, markerKind]
    | simple k id ref c =>
      rcases hon.kinds k id ref c hst with rfl | rfl | rfl | rfl | rfl
      · simp only [cmHead, vmHead, predProofOf, toV]
        cases hl : creds.lookup ref with
        | none => simp [markerKind]
        | some cr => cases cr <;> simp [markerKind]
      · simp [cmHead, vmHead, predProofOf, toV, markerKind]
      · simp [cmHead, vmHead, predProofOf, toV, markerKind]
      · simp [cmHead, vmHead, predProofOf, toV, markerKind]
      · simp only [cmHead, vmHead, predProofOf, toV]
        cases hl : creds.lookup id with
        | none => simp [markerKind]
        | some cr => cases cr <;> simp [markerKind]
    | range id ref sid c lo hi => simp [cmHead, vmHead, predProofOf, toV, markerKind]
  · apply flatMap_congr_mem
    intro st hst
    cases st with
    | sig id d lb n => simp [crHead, vrHead, rangeProofOf, toV]
    | equality id refs => simp [crHead, vrHead, rangeProofOf, toV]
    | simple k id ref c =>
      rcases hon.kinds k id ref c hst with rfl | rfl | rfl | rfl | rfl <;> simp [crHead, vrHead, rangeProofOf, toV]
    | range id ref sid c lo hi =>
      obtain ⟨cs, hcs⟩ := hon.rangeCred id ref sid c lo hi hst
      have hcred := sigClaims_lookup creds sid cs hcs
      simp [crHead, vrHead, rangeProofOf, toV, hcred]


end AC.CreatePlan
