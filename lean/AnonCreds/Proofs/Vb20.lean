import AnonCreds.Model.Vb20
import Mathlib.Tactic.Ring
import Mathlib.Tactic.FieldSimp
import Mathlib.Tactic.LinearCombination
import Mathlib.Tactic.Module
import Mathlib.Algebra.Field.Basic
import Mathlib.Algebra.Module.Basic
/-
Lemmas about the VB20 polynomial code: evaluation homomorphisms of the list operations as coded,
the two loop invariants of `create_coefficients`, and evaluation of `PolynomialG1`.
-/
namespace AC.Vb20
variable {F : Type} [Field F]

@[simp] theorem polyEval_nil (x : F) : polyEval ([] : List F) x = 0 := rfl
@[simp] theorem polyEval_cons (a : F) (p : List F) (x : F) :
    polyEval (a :: p) x = a + x * polyEval p x := rfl

theorem polyEval_add (p q : List F) (x : F) :
    polyEval (polyAdd p q) x = polyEval p x + polyEval q x := by
  induction p generalizing q with
  | nil => simp [polyAdd]
  | cons a p ih =>
    cases q with
    | nil => simp [polyAdd]
    | cons b q => simp [polyAdd, ih]; ring

@[simp] theorem polyAdd_nil_right (p : List F) : polyAdd p [] = p := by
  cases p <;> rfl

theorem polyEval_neg (q : List F) (x : F) : polyEval (q.map (- ·)) x = - polyEval q x := by
  induction q with
  | nil => simp
  | cons b q ih => simp [ih]; ring

theorem polyEval_sub (p q : List F) (x : F) :
    polyEval (polySub p q) x = polyEval p x - polyEval q x := by
  induction p generalizing q with
  | nil => simp [polySub, polyEval_neg]
  | cons a p ih =>
    cases q with
    | nil => simp [polySub]
    | cons b q => simp [polySub, ih]; ring

theorem polyEval_scale (c : F) (p : List F) (x : F) :
    polyEval (polyScale c p) x = c * polyEval p x := by
  induction p with
  | nil => simp [polyScale]
  | cons a p ih => simp only [polyScale, List.map_cons, polyEval_cons] at *; rw [ih]; ring

theorem polyEval_replicate_zero (n : Nat) (x : F) : polyEval (List.replicate n (0:F)) x = 0 := by
  induction n with
  | zero => rfl
  | succ n ih => simp [List.replicate_succ, ih]

theorem polyEval_mul (p q : List F) (x : F) :
    polyEval (polyMul p q) x = polyEval p x * polyEval q x := by
  induction p with
  | nil => simp [polyMul, polyEval_replicate_zero]
  | cons c cs ih =>
    cases cs with
    | nil => simp [polyMul, polyEval_scale]
    | cons c2 cs =>
      simp only [polyMul, polyEval_add, polyEval_scale, polyEval_cons] at *
      rw [ih]; ring

theorem polyEval_linProd (vs : List F) (y : F) : polyEval (linProd vs) y = dad y vs := by
  induction vs with
  | nil => simp [linProd, dad]
  | cons v vs ih => simp [linProd, dad, polyEval_mul, ih]; ring

theorem batchAdd_ne_zero (α : F) (ds : List F) (hd : ∀ d ∈ ds, d + α ≠ 0) : batchAdd α ds ≠ 0 := by
  induction ds with
  | nil => simp [batchAdd]
  | cons e es ih =>
    simp only [batchAdd]
    exact mul_ne_zero (hd e (by simp)) (ih (fun d h => hd d (by simp [h])))

/-- invariant of the v_D loop of `create_coefficients` -/
theorem vdGo_eval (α y : F) (c : F) (P : List F) (ds v : List F)
    (hd : ∀ d ∈ ds, d + α ≠ 0) :
    polyEval (vdGo α c P ds v) y * (y + α)
      = polyEval v y * (y + α) + c * polyEval P y * (1 - dad y ds / batchAdd α ds) := by
  induction ds generalizing c P v with
  | nil => simp [vdGo, dad, batchAdd]
  | cons d ds ih =>
    have hd0 : d + α ≠ 0 := hd d (by simp)
    have hds : ∀ d' ∈ ds, d' + α ≠ 0 := fun d' h => hd d' (by simp [h])
    have hb : batchAdd α ds ≠ 0 := batchAdd_ne_zero α ds hds
    simp only [vdGo]
    rw [ih _ _ _ hds, polyEval_add, polyEval_scale, polyEval_mul]
    simp only [polyEval_cons, polyEval_nil, dad, batchAdd]
    field_simp
    ring

/-- invariant of the v_A loop of `create_coefficients` -/
theorem vaGo_eval (α y : F) (c : F) (as v : List F) :
    polyEval (vaGo α c as v) y * (y + α)
      = polyEval v y * (y + α) + c * (batchAdd α as - dad y as) := by
  induction as generalizing c v with
  | nil => simp [vaGo, dad, batchAdd]
  | cons a as ih =>
    simp only [vaGo]
    rw [ih, polyEval_add, polyEval_scale, polyEval_linProd]
    simp only [dad, batchAdd]
    ring

/-- the batch polynomial: ω(y)·(y+α) = ∏A(α)·d_D(y)/∏D(α) − d_A(y) -/
theorem createCoefficients_eval (α y : F) (adds dels : List F) (hd : ∀ d ∈ dels, d + α ≠ 0) :
    polyEval (createCoefficients α adds dels) y * (y + α)
      = batchAdd α adds * dad y dels / batchAdd α dels - dad y adds := by
  have hb := batchAdd_ne_zero α dels hd
  unfold createCoefficients
  simp only [polyEval_sub, polyEval_scale, sub_mul, mul_assoc]
  rw [vaGo_eval, vdGo_eval α y 1 [1] dels [] hd]
  simp
  field_simp
  ring

theorem createCoefficients_nil (α : F) : createCoefficients α [] [] = [] := by
  simp [createCoefficients, vaGo, vdGo, polyScale, polySub]

/-! ### when are there no coefficients? -/

theorem polyAdd_ne_nil_right (p q : List F) (h : q ≠ []) : polyAdd p q ≠ [] := by
  cases p <;> cases q <;> simp_all [polyAdd]

theorem polyAdd_ne_nil_left (p q : List F) (h : p ≠ []) : polyAdd p q ≠ [] := by
  cases p <;> cases q <;> simp_all [polyAdd]

theorem polyScale_ne_nil (c : F) (p : List F) (h : p ≠ []) : polyScale c p ≠ [] := by
  cases p <;> simp_all [polyScale]

theorem vaGo_ne_nil_of (α c : F) (as v : List F) (h : v ≠ []) : vaGo α c as v ≠ [] := by
  induction as generalizing c v with
  | nil => simpa [vaGo] using h
  | cons a as ih => simp only [vaGo]; exact ih _ _ (polyAdd_ne_nil_left _ _ h)

theorem linProd_ne_nil (vs : List F) : linProd vs ≠ [] := by
  induction vs with
  | nil => simp [linProd]
  | cons v vs ih =>
    simp only [linProd]
    cases h : linProd vs with
    | nil => exact absurd h ih
    | cons c cs =>
      simp only [polyMul]
      exact polyAdd_ne_nil_left _ _ (polyScale_ne_nil _ _ (by simp))

theorem vaGo_eq_nil (α c : F) (as : List F) (h : vaGo α c as [] = []) : as = [] := by
  cases as with
  | nil => rfl
  | cons a as =>
    simp only [vaGo] at h
    exact absurd h (vaGo_ne_nil_of _ _ _ _
      (polyAdd_ne_nil_right _ _ (polyScale_ne_nil _ _ (linProd_ne_nil as))))

theorem vdGo_ne_nil_of (α c : F) (P ds v : List F) (h : v ≠ []) : vdGo α c P ds v ≠ [] := by
  induction ds generalizing c P v with
  | nil => simpa [vdGo] using h
  | cons d ds ih => simp only [vdGo]; exact ih _ _ _ (polyAdd_ne_nil_left _ _ h)

theorem vdGo_eq_nil (α : F) (ds : List F) (h : vdGo α 1 [1] ds [] = []) : ds = [] := by
  cases ds with
  | nil => rfl
  | cons d ds =>
    simp only [vdGo] at h
    exact absurd h (vdGo_ne_nil_of _ _ _ _ _
      (polyAdd_ne_nil_right _ _ (polyScale_ne_nil _ _ (by simp))))

theorem polySub_eq_nil (p q : List F) (h : polySub p q = []) : p = [] ∧ q = [] := by
  cases p <;> cases q <;> simp_all [polySub]

/-- the coefficient vector is empty only for the empty batch -/
theorem createCoefficients_eq_nil (α : F) (adds dels : List F)
    (h : createCoefficients α adds dels = []) : adds = [] ∧ dels = [] := by
  unfold createCoefficients at h
  obtain ⟨h1, h2⟩ := polySub_eq_nil _ _ h
  refine ⟨vaGo_eq_nil α 1 adds h1, vdGo_eq_nil α dels ?_⟩
  cases hv : vdGo α 1 [1] dels [] with
  | nil => rfl
  | cons x xs => rw [hv] at h2; simp [polyScale] at h2

variable {G : Type} [AddCommGroup G] [Module F G]

/-- applying the evaluated delta to anything satisfying the witness equation -/
theorem apply_delta_witness (α y ω dA dD pA pD : F) (C V : G) (hdD : dD ≠ 0) (hpD : pD ≠ 0)
    (he : ω * (y + α) = pA * dD / pD - dA) (hw : (y + α) • C = V) :
    (y + α) • ((dA * dD⁻¹) • C + dD⁻¹ • (ω • V)) = (pA * pD⁻¹) • V := by
  subst hw
  simp only [smul_smul, ← add_smul]
  congr 1
  have he' : ω * (y + α) * pD = pA * dD - dA * pD := by
    field_simp at he; linear_combination he
  field_simp
  linear_combination (y + α) * he'

theorem apply_delta_nm_witness (α y ω dA dD pA pD d : F) (c P V : G) (hdD : dD ≠ 0) (hpD : pD ≠ 0)
    (he : ω * (y + α) = pA * dD / pD - dA) (hw : (y + α) • c + d • P = V) :
    (y + α) • ((dA * dD⁻¹) • c + dD⁻¹ • (ω • V)) + (d * (dA * dD⁻¹)) • P = (pA * pD⁻¹) • V := by
  have he' : ω * (y + α) * pD = pA * dD - dA * pD := by
    field_simp at he; linear_combination he
  have hk : (y + α) * (dD⁻¹ * ω) + dA * dD⁻¹ = pA * pD⁻¹ := by
    field_simp
    linear_combination he'
  have e1 : (y + α) • ((dA * dD⁻¹) • c + dD⁻¹ • (ω • V)) + (d * (dA * dD⁻¹)) • P
      = (dA * dD⁻¹) • ((y + α) • c + d • P) + ((y + α) * (dD⁻¹ * ω)) • V := by
    simp only [smul_add, smul_smul]
    module
  rw [e1, hw, ← add_smul, add_comm, hk]

/-- Σ xⁱ • Pᵢ by Horner -/
def evalG : List G → F → G
  | [], _ => 0
  | p :: ps, x => p + x • evalG ps x

theorem polyEvalG_go (ps : List G) (x pw : F) (acc : G) :
    polyEvalG.go x ps pw acc = acc + pw • evalG ps x := by
  induction ps generalizing pw acc with
  | nil => simp [polyEvalG.go, evalG]
  | cons p ps ih =>
    simp only [polyEvalG.go, ih, evalG, smul_add, smul_smul]
    module

theorem polyEvalG_some (p : G) (ps : List G) (x : F) :
    polyEvalG (p :: ps) x = some (evalG (p :: ps) x) := by
  simp [polyEvalG, polyEvalG_go, evalG]

theorem evalG_map_smul (ω : List F) (V : G) (x : F) :
    evalG (ω.map (· • V)) x = polyEval ω x • V := by
  induction ω with
  | nil => simp [evalG]
  | cons a ω ih => simp [evalG, ih, add_smul, smul_smul]

theorem polyEvalG_map_smul (ω : List F) (V : G) (x : F) :
    polyEvalG (ω.map (· • V)) x = if ω = [] then none else some (polyEval ω x • V) := by
  cases ω with
  | nil => simp [polyEvalG]
  | cons a ω =>
    have h := evalG_map_smul (a :: ω) V x
    rw [List.map_cons] at h
    rw [List.map_cons, polyEvalG_some, h]; simp

theorem evalG_polyAddG (p q : List G) (x : F) : evalG (polyAddG p q) x = evalG p x + evalG q x := by
  induction p generalizing q with
  | nil => simp [polyAddG, evalG]
  | cons a p ih =>
    cases q with
    | nil => simp [polyAddG, evalG]
    | cons b q =>
      simp only [polyAddG, evalG, ih, smul_add]
      module

theorem evalG_map_smul' (k : F) (p : List G) (x : F) : evalG (p.map (k • ·)) x = k • evalG p x := by
  induction p with
  | nil => simp [evalG]
  | cons a p ih => simp only [List.map_cons, evalG, ih, smul_add, smul_smul, mul_comm]

theorem polyAddG_eq_nil (p q : List G) (h : polyAddG p q = []) : p = [] ∧ q = [] := by
  cases p with
  | nil => simp [polyAddG] at h; exact ⟨rfl, h⟩
  | cons a p =>
    cases q with
    | nil => simp [polyAddG] at h
    | cons b q => simp [polyAddG] at h


end AC.Vb20
