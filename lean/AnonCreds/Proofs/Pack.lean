import AnonCreds.Model.Claims
/-
Byte-level lemmas: big/little-endian conversion round trips, bounds, and the scalar packing
of `ScalarClaim::encode_bytes` / `decode_to_bytes`.
-/
namespace AC

theorem leVal_append_single (l : Bytes) (x : UInt8) :
    leVal (l ++ [x]) = leVal l + 256 ^ l.length * x.toNat := by
  induction l with
  | nil => simp [leVal]
  | cons a l ih =>
    simp only [List.cons_append, leVal, ih, List.length_cons, Nat.pow_succ]
    rw [Nat.mul_add]
    generalize 256 ^ l.length = p
    generalize leVal l = q
    rw [Nat.mul_comm p 256, Nat.mul_assoc, Nat.add_assoc]

theorem foldl_be (b : Bytes) (acc : Nat) :
    b.foldl (fun acc x => acc * 256 + x.toNat) acc = acc * 256 ^ b.length + leVal b.reverse := by
  induction b generalizing acc with
  | nil => simp [leVal]
  | cons x xs ih =>
    simp only [List.foldl_cons, ih, List.reverse_cons, leVal_append_single, List.length_cons,
      List.length_reverse, Nat.pow_succ]
    generalize 256 ^ xs.length = p
    generalize leVal xs.reverse = q
    rw [Nat.add_mul, Nat.mul_assoc, Nat.mul_comm 256 p, Nat.mul_comm x.toNat p]
    omega

theorem beVal_eq_leVal_reverse (b : Bytes) : beVal b = leVal b.reverse := by
  unfold beVal; rw [foldl_be]; simp

theorem leVal_lt (l : Bytes) : leVal l < 256 ^ l.length := by
  induction l with
  | nil => simp [leVal]
  | cons x xs ih =>
    simp only [leVal, List.length_cons, Nat.pow_succ]
    have := x.toNat_lt
    omega

theorem beVal_lt (b : Bytes) : beVal b < 256 ^ b.length := by
  rw [beVal_eq_leVal_reverse]; simpa using leVal_lt b.reverse

theorem beVal_cons (x : UInt8) (xs : Bytes) :
    beVal (x :: xs) = x.toNat * 256 ^ xs.length + beVal xs := by
  rw [beVal_eq_leVal_reverse, List.reverse_cons, leVal_append_single, beVal_eq_leVal_reverse]
  simp [Nat.mul_comm, Nat.add_comm]

theorem toLE_leVal (l : Bytes) : toLE l.length (leVal l) = l := by
  induction l with
  | nil => rfl
  | cons x xs ih =>
    have hx := x.toNat_lt
    simp only [List.length_cons, toLE, leVal]
    have h1 : (x.toNat + 256 * leVal xs) % 256 = x.toNat := by omega
    have h2 : (x.toNat + 256 * leVal xs) / 256 = leVal xs := by omega
    rw [h1, h2, ih]
    simp

theorem toLE_length (len n : Nat) : (toLE len n).length = len := by
  induction len generalizing n with
  | zero => rfl
  | succ k ih => simp [toLE, ih]

theorem toBE_length (len n : Nat) : (toBE len n).length = len := by
  simp [toBE, toLE_length]

/-- big-endian encoding at the byte string's own width is the inverse of `beVal` -/
theorem toBE_beVal (b : Bytes) : toBE b.length (beVal b) = b := by
  unfold toBE
  rw [beVal_eq_leVal_reverse]
  have := toLE_leVal b.reverse
  rw [List.length_reverse] at this
  rw [this, List.reverse_reverse]

theorem leVal_toLE (len n : Nat) (h : n < 256 ^ len) : leVal (toLE len n) = n := by
  induction len generalizing n with
  | zero => simp at h; simp [toLE, leVal, h]
  | succ k ih =>
    simp only [toLE, leVal]
    have hlt : n / 256 < 256 ^ k := by
      rw [Nat.pow_succ] at h
      exact Nat.div_lt_of_lt_mul (by rw [Nat.mul_comm]; exact h)
    rw [ih _ hlt]
    have : (UInt8.ofNat (n % 256)).toNat = n % 256 := by
      simp [UInt8.toNat_ofNat]
    rw [this]; omega

theorem beVal_toBE (len n : Nat) (h : n < 256 ^ len) : beVal (toBE len n) = n := by
  rw [beVal_eq_leVal_reverse, toBE, List.reverse_reverse, leVal_toLE len n h]

/-! ### packing -/

theorem packBuffer_length (v : Bytes) (h : v.length ≤ 31) : (packBuffer v).length = 32 := by
  unfold packBuffer
  split
  · simp
  · simp; omega

theorem packBuffer_head (v : Bytes) (h : v.length ≤ 31) :
    ((packBuffer v).getD 0 0).toNat = v.length := by
  unfold packBuffer
  split
  · rename_i he
    have : v = [] := by simpa using he
    subst this; rfl
  · simp [UInt8.toNat_ofNat]; omega

theorem packBuffer_drop (v : Bytes) (h : v.length ≤ 31) :
    (packBuffer v).drop (32 - v.length) = v := by
  unfold packBuffer
  split
  · rename_i he
    have : v = [] := by simpa using he
    subst this; rfl
  · rename_i hne
    have hpos : 0 < v.length := by
      cases v with
      | nil => simp at hne
      | cons _ _ => simp
    have e : 32 - v.length = (31 - v.length) + 1 := by omega
    rw [e, List.drop_succ_cons]
    rw [List.drop_append_of_le_length (by simp)]
    simp

theorem thirtytwo_lt_r : 32 * 256 ^ 31 ≤ rOrder := by decide

theorem packBuffer_canonical (v : Bytes) (h : v.length ≤ 31) : beVal (packBuffer v) < rOrder := by
  have hl := packBuffer_length v h
  have hh := packBuffer_head v h
  match hp : packBuffer v, hl with
  | c :: rest, hl' =>
    rw [hp] at hh
    simp at hh
    have hr : rest.length = 31 := by simpa using hl'
    rw [beVal_cons, hr]
    have := beVal_lt rest
    rw [hr] at this
    have h3 := thirtytwo_lt_r
    generalize (256:Nat) ^ 31 = P at *
    have : c.toNat * P ≤ 31 * P := Nat.mul_le_mul_right P (by omega)
    omega

end AC
