import AnonCreds.Model.Claims
/-
Helper lemmas for the integer claim encoding (`zero_center`), stated over a generic exponent `k`
(= 63) so that no tactic ever sees the literals 2^63 / 2^64.
-/
namespace AC

theorem xor_top (k a b : Nat) (hb : b < 2 ^ k) (ha : a < 2) :
    (2 ^ k * a + b) ^^^ 2 ^ k = 2 ^ k * (1 - a) + b := by
  apply Nat.eq_of_testBit_eq
  intro j
  rw [Nat.testBit_xor, Nat.testBit_two_pow_mul_add _ hb, Nat.testBit_two_pow_mul_add _ hb,
    Nat.testBit_two_pow]
  by_cases hj : j < k
  · have : k ≠ j := by omega
    simp [hj, this]
  · simp only [hj, if_false]
    by_cases hjk : k = j
    · subst hjk
      have : a = 0 ∨ a = 1 := by omega
      rcases this with rfl | rfl <;> simp
    · have hpos : 0 < j - k := by omega
      have : a = 0 ∨ a = 1 := by omega
      rcases this with rfl | rfl
      · simp [hjk]
        exact Nat.testBit_lt_two_pow (Nat.one_lt_two_pow (by omega))
      · simp [hjk]
        exact Nat.testBit_lt_two_pow (Nat.one_lt_two_pow (by omega))

/-- flipping bit `k` of a number below `2^(k+1)` adds or subtracts `2^k` -/
theorem xor_pow_eq (k u : Nat) (hu : u < 2 ^ (k + 1)) :
    u ^^^ 2 ^ k = if u < 2 ^ k then u + 2 ^ k else u - 2 ^ k := by
  have h2 : 2 ^ (k + 1) = 2 * 2 ^ k := by rw [Nat.pow_succ]; omega
  by_cases h : u < 2 ^ k
  · have := xor_top k 0 u h (by omega)
    simp at this
    simp [h, this]; omega
  · have hb : u - 2 ^ k < 2 ^ k := by omega
    have := xor_top k 1 (u - 2 ^ k) hb (by omega)
    have e : 2 ^ k * 1 + (u - 2 ^ k) = u := by omega
    rw [e] at this
    simp [h, this]

end AC

namespace AC

theorem two64_eq : two64 = 2 * two63 := by rfl
theorem two63_pow : two63 = 2 ^ 63 := rfl
theorem two63_pos : 0 < two63 := by decide

theorem asU64_of_nonneg (v : Int) (h0 : 0 ≤ v) (h1 : v < (two63 : Int)) : (asU64 v : Int) = v := by
  unfold asU64
  have h64 : (two64 : Int) = 2 * (two63 : Int) := by rw [two64_eq]; push_cast; rfl
  have hlt : v < (two64 : Int) := by omega
  rw [Int.emod_eq_of_lt h0 hlt]
  omega

theorem asU64_of_neg (v : Int) (h0 : v < 0) (h1 : -(two63 : Int) ≤ v) :
    (asU64 v : Int) = v + (two64 : Int) := by
  unfold asU64
  have h64 : (two64 : Int) = 2 * (two63 : Int) := by rw [two64_eq]; push_cast; rfl
  have e : v % (two64 : Int) = (v + (two64 : Int)) % (two64 : Int) := by
    rw [Int.add_emod_right]
  rw [e, Int.emod_eq_of_lt (by omega) (by omega)]
  omega

/-- `zero_center` is translation by `2^63` on the whole `i64` domain -/
theorem zeroCenter_cast (v : Int) (hlo : -(two63 : Int) ≤ v) (hhi : v < (two63 : Int)) :
    (zeroCenter v : Int) = v + (two63 : Int) := by
  have h64 : (two64 : Int) = 2 * (two63 : Int) := by rw [two64_eq]; push_cast; rfl
  unfold zeroCenter
  by_cases h0 : 0 ≤ v
  · have hu := asU64_of_nonneg v h0 hhi
    have hlt : asU64 v < 2 ^ (63 + 1) := by
      have : asU64 v < two63 := by omega
      have h2 : (2:Nat) ^ (63 + 1) = 2 * two63 := by rfl
      omega
    rw [two63_pow, xor_pow_eq 63 _ hlt, ← two63_pow]
    have : asU64 v < two63 := by omega
    simp only [this, if_true]
    push_cast; omega
  · have hu := asU64_of_neg v (by omega) hlo
    have hge : two63 ≤ asU64 v := by omega
    have hlt : asU64 v < 2 ^ (63 + 1) := by
      have h2 : (2:Nat) ^ (63 + 1) = 2 * two63 := by rfl
      omega
    rw [two63_pow, xor_pow_eq 63 _ hlt, ← two63_pow]
    have : ¬ asU64 v < two63 := by omega
    simp only [this, if_false]
    omega

theorem zeroCenter_lt (v : Int) (hlo : -(two63 : Int) ≤ v) (hhi : v < (two63 : Int)) :
    zeroCenter v < two64 := by
  have := zeroCenter_cast v hlo hhi
  have h64 : (two64 : Int) = 2 * (two63 : Int) := by rw [two64_eq]; push_cast; rfl
  omega

theorem asU64_lt (v : Int) (hlo : -(two63 : Int) ≤ v) (hhi : v < (two63 : Int)) : asU64 v < two64 := by
  have h64 : (two64 : Int) = 2 * (two63 : Int) := by rw [two64_eq]; push_cast; rfl
  by_cases h0 : 0 ≤ v
  · have := asU64_of_nonneg v h0 hhi; omega
  · have := asU64_of_neg v (by omega) hlo; omega

theorem asI64_asU64 (v : Int) (hlo : -(two63 : Int) ≤ v) (hhi : v < (two63 : Int)) : asI64 (asU64 v) = v := by
  have h64 : (two64 : Int) = 2 * (two63 : Int) := by rw [two64_eq]; push_cast; rfl
  by_cases h0 : 0 ≤ v
  · have e := asU64_of_nonneg v h0 hhi
    unfold asI64
    have : asU64 v < two63 := by omega
    simp [this, e]
  · have e := asU64_of_neg v (by omega) hlo
    unfold asI64
    have : ¬ asU64 v < two63 := by omega
    simp only [this, if_false]; omega

theorem asI64_cast_lo (u : Nat) (h : u < two63) : asI64 u = (u : Int) := by
  unfold asI64; simp [h]

theorem asI64_cast_hi (u : Nat) (h : ¬ u < two63) : asI64 u = (u : Int) - (two64 : Int) := by
  unfold asI64; simp [h]

theorem number_roundtrip' (v : Int) (hlo : -(two63 : Int) ≤ v) (hhi : v < (two63 : Int)) :
    numberFromScalar (numberToScalar v) = v := by
  have h64 : (two64 : Int) = 2 * (two63 : Int) := by rw [two64_eq]; push_cast; rfl
  have hz := zeroCenter_cast v hlo hhi
  have hzl := zeroCenter_lt v hlo hhi
  unfold numberFromScalar numberToScalar
  rw [Nat.mod_eq_of_lt hzl]
  by_cases h0 : 0 ≤ v
  · have h1 : ¬ zeroCenter v < two63 := by omega
    rw [asI64_cast_hi _ h1]
    have hw : -(two63 : Int) ≤ (zeroCenter v : Int) - (two64 : Int) := by omega
    have hw' : (zeroCenter v : Int) - (two64 : Int) < (two63 : Int) := by omega
    have hz2 := zeroCenter_cast _ hw hw'
    have h3 : zeroCenter ((zeroCenter v : Int) - (two64 : Int)) < two63 := by omega
    rw [asI64_cast_lo _ h3]; omega
  · have h1 : zeroCenter v < two63 := by omega
    rw [asI64_cast_lo _ h1]
    have hw : -(two63 : Int) ≤ (zeroCenter v : Int) := by omega
    have hw' : (zeroCenter v : Int) < (two63 : Int) := by omega
    have hz2 := zeroCenter_cast _ hw hw'
    have h3 : ¬ zeroCenter ((zeroCenter v : Int)) < two63 := by omega
    rw [asI64_cast_hi _ h3]; omega

end AC
