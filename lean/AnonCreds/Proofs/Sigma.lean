import AnonCreds.Model.Sigma
import Mathlib.Tactic.Module
import Mathlib.Tactic.LinearCombination
import Mathlib.Tactic.FieldSimp
import Mathlib.Tactic.Ring
import Mathlib.Algebra.Module.Basic
import Mathlib.Algebra.Field.Basic
/-
Generic lemmas for linear Σ-protocols over the zip-truncating `msm`: completeness, special
soundness (the extractor is the pointwise difference quotient — the same function for every equation,
which is what links equations that share a response) and the effect of a wrong response count.
-/
namespace AC.Sigma
variable {F G : Type} [Field F] [AddCommGroup G] [Module F G]

@[simp] theorem msm_nil_left (ss : List F) : msm ([] : List G) ss = 0 := by cases ss <;> rfl
@[simp] theorem msm_nil_right (ps : List G) : msm ps ([] : List F) = 0 := by cases ps <;> rfl
@[simp] theorem msm_cons (p : G) (ps : List G) (s : F) (ss : List F) :
    msm (p :: ps) (s :: ss) = s • p + msm ps ss := rfl

theorem msm_append (ps qs : List G) (ss ts : List F) (h : ps.length = ss.length) :
    msm (ps ++ qs) (ss ++ ts) = msm ps ss + msm qs ts := by
  induction ps generalizing ss with
  | nil => cases ss <;> simp_all
  | cons p ps ih =>
    cases ss with
    | nil => simp at h
    | cons s ss =>
      simp only [List.cons_append, msm_cons]
      rw [ih ss (by simpa using h), add_assoc]

/-- pointwise `n + c * s` -/
def respond (c : F) (n s : List F) : List F := List.zipWith (fun a b => a + c * b) n s

/-- pointwise difference quotient of two response vectors -/
def extract (c c' : F) (p p' : List F) : List F :=
  List.zipWith (fun a b => (a - b) / (c - c')) p p'

theorem extract_length (c c' : F) (p p' : List F) (h : p.length = p'.length) :
    (extract c c' p p').length = p.length := by simp [extract, h]

theorem msm_respond (ps : List G) (c : F) (n s : List F)
    (h1 : ps.length = n.length) (h2 : ps.length = s.length) :
    msm ps (respond c n s) = msm ps n + c • msm ps s := by
  induction ps generalizing n s with
  | nil => simp
  | cons q qs ih =>
    cases n with
    | nil => simp at h1
    | cons a as =>
      cases s with
      | nil => simp at h2
      | cons b bs =>
        simp only [respond, List.zipWith_cons_cons, msm_cons]
        have := ih as bs (by simpa using h1) (by simpa using h2)
        simp only [respond] at this
        rw [this]; module

theorem msm_extract (ps : List G) (p p' : List F) (c c' : F) (hc : c - c' ≠ 0)
    (h1 : ps.length = p.length) (h2 : ps.length = p'.length) :
    (c - c') • msm ps (extract c c' p p') = msm ps p - msm ps p' := by
  induction ps generalizing p p' with
  | nil => simp [extract]
  | cons q qs ih =>
    cases p with
    | nil => simp at h1
    | cons a as =>
      cases p' with
      | nil => simp at h2
      | cons b bs =>
        simp only [extract, List.zipWith_cons_cons, msm_cons]
        have := ih as bs (by simpa using h1) (by simpa using h2)
        simp only [extract] at this
        rw [smul_add, this, smul_smul, mul_div_cancel₀ _ hc]
        module

/-- the verifier's recomputation for a relation `T = msm Bs s`: bases `Bs ++ [T]`, scalars `p ++ [-c]` -/
def recommit (Bs : List G) (T : G) (c : F) (p : List F) : G := msm (Bs ++ [T]) (p ++ [-c])

theorem recommit_eq (Bs : List G) (T : G) (c : F) (p : List F) (h : p.length = Bs.length) :
    recommit Bs T c p = msm Bs p - c • T := by
  unfold recommit
  rw [msm_append _ _ _ _ h.symm]; simp; module

/-- completeness: honest responses recompute the honest commitment -/
theorem recommit_complete (Bs : List G) (c : F) (n s : List F)
    (h1 : Bs.length = n.length) (h2 : Bs.length = s.length) :
    recommit Bs (msm Bs s) c (respond c n s) = msm Bs n := by
  rw [recommit_eq _ _ _ _ (by simp [respond, ← h1, ← h2]), msm_respond _ _ _ _ h1 h2]; module

/-- special soundness: two accepting response vectors of the right length for one commitment and two
challenges yield a witness, namely the difference quotient -/
theorem recommit_sound (Bs : List G) (T R : G) (c c' : F) (p p' : List F) (hc : c ≠ c')
    (hl : p.length = Bs.length) (hl' : p'.length = Bs.length)
    (h1 : recommit Bs T c p = R) (h2 : recommit Bs T c' p' = R) :
    msm Bs (extract c c' p p') = T := by
  have hne : c - c' ≠ 0 := sub_ne_zero.mpr hc
  rw [recommit_eq _ _ _ _ hl] at h1
  rw [recommit_eq _ _ _ _ hl'] at h2
  have key := msm_extract Bs p p' c c' hne hl.symm hl'.symm
  have : (c - c') • msm Bs (extract c c' p p') = (c - c') • T := by
    rw [key]; linear_combination (norm := module) h1 - h2
  exact smul_right_injective G hne this

/-- with one response too many the challenge multiplies nothing: the recomputed commitment does not
depend on the challenge (finding F02) -/
theorem recommit_overlong (Bs : List G) (T : G) (c c' : F) (p : List F)
    (hl : p.length = Bs.length + 1) : recommit Bs T c p = recommit Bs T c' p := by
  obtain ⟨m, r, rfl, hm⟩ : ∃ m r, p = m ++ r ∧ m.length = Bs.length :=
    ⟨p.take Bs.length, p.drop Bs.length, (List.take_append_drop _ _).symm, by simp [hl]⟩
  have hr : r.length = 1 := by simp at hl; omega
  match r, hr with
  | [a], _ =>
    unfold recommit
    simp only [List.append_assoc]
    rw [msm_append _ _ _ _ hm.symm, msm_append _ _ _ _ hm.symm]
    simp

/-- HVZK bijection: shifting the nonces by `c • (s - s')` maps the transcript of witness `s` to the
transcript of witness `s'` with the same responses -/
theorem respond_shift (c : F) (n s s' : List F) (h1 : n.length = s.length) (h2 : n.length = s'.length) :
    respond c (respond c n (List.zipWith (· - ·) s s')) s' = respond c n s := by
  induction n generalizing s s' with
  | nil => simp [respond]
  | cons a as ih =>
    cases s with
    | nil => simp at h1
    | cons b bs =>
      cases s' with
      | nil => simp at h2
      | cons b' bs' =>
        have l1 : as.length = bs.length := by simpa using h1
        have l2 : as.length = bs'.length := by simpa using h2
        have := ih bs bs' l1 l2
        simp only [respond, List.zipWith_cons_cons, List.cons.injEq] at *
        exact ⟨by ring, this⟩

end AC.Sigma
