import AnonCreds.Model.Transcript
/-
Prefix-injectivity combinators for item encoders, LEB128 injectivity.
-/
namespace AC
variable {α β ι : Type}

def PrefixInj (enc : α → List ι) : Prop :=
  ∀ a a' r r', enc a ++ r = enc a' ++ r' → a = a' ∧ r = r'

theorem PrefixInj.flatMap_sameLen {e : α → List ι} (h : PrefixInj e) :
    ∀ (l l' : List α) r r', l.length = l'.length →
      l.flatMap e ++ r = l'.flatMap e ++ r' → l = l' ∧ r = r' := by
  intro l
  induction l with
  | nil => intro l' r r' hl hh; cases l' with
    | nil => exact ⟨rfl, by simpa using hh⟩
    | cons _ _ => simp at hl
  | cons a l ih =>
    intro l' r r' hl hh
    cases l' with
    | nil => simp at hl
    | cons a' l' =>
      simp only [List.flatMap_cons, List.append_assoc] at hh
      obtain ⟨rfl, k1⟩ := h _ _ _ _ hh
      obtain ⟨rfl, k2⟩ := ih l' r r' (by simpa using hl) k1
      exact ⟨rfl, k2⟩

theorem PrefixInj.injective {e : α → List ι} (h : PrefixInj e) (a a' : α) (hh : e a = e a') : a = a' :=
  (h a a' [] [] (by simpa using hh)).1

/-! ### LEB128 -/

theorem uvarint_lt (n : Nat) (h : n < 0x80) : uvarint n = [UInt8.ofNat n] := by
  rw [uvarint]; simp [h]

theorem uvarint_ge (n : Nat) (h : ¬ n < 0x80) :
    uvarint n = UInt8.ofNat (n % 128 + 128) :: uvarint (n / 128) := by
  rw [uvarint]; simp [h]

theorem ofNat_inj_of_lt (a b : Nat) (ha : a < 256) (hb : b < 256) (h : UInt8.ofNat a = UInt8.ofNat b) :
    a = b := by
  have := congrArg UInt8.toNat h
  simp [UInt8.toNat_ofNat] at this
  omega

theorem uvarint_injective : ∀ n m : Nat, uvarint n = uvarint m → n = m := by
  intro n
  induction n using Nat.strongRecOn with
  | _ n ih =>
    intro m h
    by_cases hn : n < 0x80
    · by_cases hm : m < 0x80
      · rw [uvarint_lt n hn, uvarint_lt m hm] at h
        exact ofNat_inj_of_lt n m (by omega) (by omega) (by simpa using h)
      · rw [uvarint_lt n hn, uvarint_ge m hm] at h
        simp only [List.cons.injEq] at h
        have := ofNat_inj_of_lt n (m % 128 + 128) (by omega) (by omega) h.1
        omega
    · by_cases hm : m < 0x80
      · rw [uvarint_ge n hn, uvarint_lt m hm] at h
        simp only [List.cons.injEq] at h
        have := ofNat_inj_of_lt (n % 128 + 128) m (by omega) (by omega) h.1
        omega
      · rw [uvarint_ge n hn, uvarint_ge m hm] at h
        simp only [List.cons.injEq] at h
        have h1 := ofNat_inj_of_lt (n % 128 + 128) (m % 128 + 128) (by omega) (by omega) h.1
        have h2 := ih (n / 128) (by omega) (m / 128) h.2
        omega

theorem indexed_inj (l l' : List α) (h : Transcript.indexed l = Transcript.indexed l') : l = l' := by
  have := congrArg (List.map (·.2)) h
  simpa [Transcript.indexed, List.map_map, Function.comp_def] using this

end AC
