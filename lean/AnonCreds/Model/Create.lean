import AnonCreds.Model.Verify
import AnonCreds.Model.Range
/-
Model of the validation logic of `Presentation::create` (`src/presentation/create.rs`,
`get_message_types` in `src/presentation.rs`, `EqualityBuilder::commit`, `RangeBuilder::commit`): which
(credentials, verifier-supplied schema) pairs lead to a presentation and which to an error. All map and
vector accesses of the real code appear as explicit lookups; cryptographic steps always succeed.
Identifiers are opaque strings; `IndexMap`s are association lists with unique keys.
-/
namespace AC.Create
open AC.Verify (Kind)

/-- what `create` reads of one signed claim -/
structure ClaimI where
  /-- `claim.to_scalar()`, only compared for equality -/
  enc : Nat
  /-- the value when the claim is a `NumberClaim` -/
  num : Option Int
deriving Repr, DecidableEq

inductive CredI where
  | sig (claims : List ClaimI)
  | membership
deriving Repr, DecidableEq

inductive CStmt where
  /-- signature statement: requested labels, the embedded issuer schema's labels in index order, and the
  number of message generators of the embedded verifying key -/
  | sig (id : String) (disclosed labels : List String) (nKey : Nat)
  | equality (id : String) (refs : List (String × Nat))
  /-- revocation, commitment, verifiable encryption (both kinds), membership -/
  | simple (kind : Kind) (id ref : String) (claim : Nat)
  | range (id ref sigId : String) (claim : Nat) (lower upper : Option Int)
deriving Repr, DecidableEq

def CStmt.id : CStmt → String
  | .sig id _ _ _ => id
  | .equality id _ => id
  | .simple _ id _ _ => id
  | .range id _ _ _ _ _ => id

def CStmt.isSig : CStmt → Bool
  | .sig .. => true
  | _ => false

/-- `Statement::reference_ids` with `get_claim_index` -/
def CStmt.refs : CStmt → List (String × Nat)
  | .sig .. => []
  | .equality _ refs => refs
  | .simple _ _ ref claim => [(ref, claim)]
  | .range _ ref _ claim _ _ => [(ref, claim)]

/-- `ProofMessage` as far as the logic goes -/
inductive Msg where
  | revealed
  | hidden
deriving Repr, DecidableEq

abbrev Messages := List (String × List Msg)

def sigClaims (creds : List (String × CredI)) (id : String) : Option (List ClaimI) :=
  match creds.lookup id with
  | some (.sig cs) => some cs
  | _ => none

/-- first loop of `get_message_types`: every reference of every predicate statement either names a
signature credential (then the claim index must exist) or another predicate statement -/
def refsOk (creds : List (String × CredI)) (preds : List CStmt) : Bool :=
  preds.all fun st => st.refs.all fun (r, ix) =>
    match sigClaims creds r with
    | some cs => decide (ix < cs.length)
    | none => preds.any (·.id == r)

/-- second loop: the message vector of every signature statement whose credential is a signature
credential; a claim without a label in the embedded schema is an error -/
def messagesOf (creds : List (String × CredI)) : List CStmt → Option Messages
  | [] => some []
  | .sig id disclosed labels _ :: rest =>
    match messagesOf creds rest with
    | none => none
    | some ms =>
      match sigClaims creds id with
      | none => some ms
      | some cs =>
        if cs.length ≤ labels.length then
          some ((id, (labels.take cs.length).map fun l => if disclosed.contains l then Msg.revealed else Msg.hidden) :: ms)
        else none
  | _ :: rest => messagesOf creds rest

/-- third loop: statements with several references tie hidden claims of signature statements -/
def groupsOk (ms : Messages) (preds : List CStmt) : Bool :=
  preds.all fun st =>
    if st.refs.length > 1 then
      st.refs.all fun (r, ix) =>
        match ms.lookup r with
        | none => false
        | some v => v[ix]? == some Msg.hidden
    else true

/-- `referenced_claim` + "revealed claim cannot be used" -/
def hiddenClaim (ms : Messages) (ref : String) (claim : Nat) : Bool :=
  match ms.lookup ref with
  | none => false
  | some v => v[claim]? == some Msg.hidden

/-- `EqualityBuilder::commit` -/
def equalityOk (creds : List (String × CredI)) (refs : List (String × Nat)) : Bool :=
  let scalars := refs.mapM fun (r, ix) =>
    match creds.lookup r with
    | none => none
    | some (.sig cs) => (cs[ix]?).map fun (c : ClaimI) => some c.enc
    | some .membership => some none
  match scalars with
  | none => false
  | some l =>
    let vals := l.filterMap id
    (vals.zip vals.tail).all fun (a, b) => a == b

/-- the predicate loop (everything but range statements); returns the ids that got a builder, with
the commitment statements' (reference, claim) for the range pass -/
def predsOk (creds : List (String × CredI)) (ms : Messages) :
    List CStmt → Option (List (String × Option (String × Nat)))
  | [] => some []
  | st :: rest =>
    match predsOk creds ms rest with
    | none => none
    | some bs =>
      match st with
      | .sig .. => some bs
      | .range .. => some bs
      | .equality id refs => if equalityOk creds refs then some ((id, none) :: bs) else none
      | .simple kind id ref claim =>
        if !hiddenClaim ms ref claim then none
        else match kind with
          | .revocation =>
            (match creds.lookup ref with
             | some (.sig _) => some ((id, none) :: bs)
             | _ => some bs)                       -- `continue`: no builder
          | .membership =>
            (match creds.lookup id with
             | some .membership => some ((id, none) :: bs)
             | _ => some bs)
          | .commitment => some ((id, some (ref, claim)) :: bs)
          | _ => some ((id, none) :: bs)

/-- the range pass -/
def rangesOk (creds : List (String × CredI)) (builders : List (String × Option (String × Nat))) (stmts : List CStmt) : Bool :=
  stmts.all fun st =>
    match st with
    | .range _ ref sigId claim lower upper =>
      (match creds.lookup sigId with
       | none => false
       | some .membership => true                   -- `continue`
       | some (.sig cs) =>
         match builders.lookup ref with
         | some (some (cref, cclaim)) =>
           cref == sigId && cclaim == claim &&
           (match cs[claim]? with
            | some c => (match c.num with
              | some v => AC.Range.proverAccepts v lower upper && (lower.isSome || upper.isSome)
              | none => false)
            | none => false)
         | _ => false)
    | _ => true

/-- `Presentation::create`: `true` = a presentation is produced, `false` = an error is returned -/
def createOk (creds : List (String × CredI)) (stmts : List CStmt) : Bool :=
  let sigs := stmts.filter (·.isSig)
  let preds := stmts.filter (!·.isSig)
  decide (sigs.length ≤ creds.length) &&
  sigs.all (fun s => (creds.lookup s.id).isSome) &&
  refsOk creds preds &&
  (match messagesOf creds stmts with
   | none => false
   | some ms =>
     groupsOk ms preds &&
     -- `SignatureBuilder::commit`: the key must have a generator per message
     sigs.all (fun s => match s, sigClaims creds s.id with
       | .sig _ _ _ nKey, some cs => decide (cs.length ≤ nKey)
       | _, _ => true) &&
     (match predsOk creds ms preds with
      | none => false
      | some bs => rangesOk creds bs preds))

/-! ### Which proofs `create` emits

The second half of `Presentation::create`: one builder per signature statement whose credential is a
signature credential, one per predicate statement (unless the loop `continue`s), range builders kept in a
separate vector; after the challenge the proofs are inserted into an `IndexMap` keyed by the id the proof
carries — range proofs first, then the others in builder order. -/

/-- a proof as far as its position, variant and (for signature proofs) revealed indices go -/
structure ProofI where
  id : String
  kind : Kind
  /-- signature proofs: number of messages and the keys of the proof's `disclosed_messages` -/
  n : Nat
  revealed : List Nat
deriving Repr, DecidableEq

/-- indices of the `Revealed` entries of a message vector -/
def revealedIdx (v : List Msg) : List Nat :=
  (List.range v.length).filter fun i => v[i]? == some Msg.revealed

/-- the signature loop: a builder for every signature statement with a signature credential -/
def sigProofOf (creds : List (String × CredI)) (ms : Messages) : CStmt → Option ProofI
  | .sig id _ _ _ =>
    match sigClaims creds id, ms.lookup id with
    | some _, some v => some ⟨id, .signature, v.length, revealedIdx v⟩
    | _, _ => none
  | _ => none

/-- the predicate loop: which statements get a builder, and of which variant -/
def predProofOf (creds : List (String × CredI)) : CStmt → Option ProofI
  | .equality id _ => some ⟨id, .equality, 0, []⟩
  | .simple kind id ref _ =>
    match kind with
    | .revocation =>
      (match creds.lookup ref with
       | some (.sig _) => some ⟨id, .revocation, 0, []⟩
       | _ => none)
    | .membership =>
      (match creds.lookup id with
       | some .membership => some ⟨id, .membership, 0, []⟩
       | _ => none)
    | k => some ⟨id, k, 0, []⟩
  | _ => none

/-- the range pass: a builder unless the credential under `signature_id` is a membership credential -/
def rangeProofOf (creds : List (String × CredI)) : CStmt → Option ProofI
  | .range id _ sigId _ _ _ =>
    match creds.lookup sigId with
    | some (.sig _) => some ⟨id, .range, 0, []⟩
    | _ => none
  | _ => none

/-- `IndexMap::insert`: a present key keeps its position and takes the new value -/
def imInsert (m : List ProofI) (p : ProofI) : List ProofI :=
  if m.any (·.id == p.id) then m.map (fun q => if q.id == p.id then p else q) else m ++ [p]

/-- the `proofs` map of the presentation `create` returns (in `IndexMap` order), `none` when it
returns an error -/
def createProofs (creds : List (String × CredI)) (stmts : List CStmt) : Option (List ProofI) :=
  if createOk creds stmts then
    match messagesOf creds stmts with
    | none => none
    | some ms =>
      some ((stmts.filterMap (rangeProofOf creds) ++ stmts.filterMap (sigProofOf creds ms)
        ++ stmts.filterMap (predProofOf creds)).foldl imInsert [])
  else none

/-- the `disclosed_messages` map `create` reports: per signature statement with a builder, the labels of the
revealed claims in claim-index order (`claim_indices.get_index(index)`), in signature-statement order -/
def createDisclosed (creds : List (String × CredI)) (ms : Messages) (stmts : List CStmt) :
    List (String × List String) :=
  stmts.filterMap fun
    | .sig id _ labels _ =>
      match sigClaims creds id, ms.lookup id with
      | some _, some v => some (id, (revealedIdx v).filterMap (labels[·]?))
      | _, _ => none
    | _ => none

/-- … of the presentation `create` returns (`none`: an error) -/
def createReport (creds : List (String × CredI)) (stmts : List CStmt) : Option (List (String × List String)) :=
  if createOk creds stmts then (messagesOf creds stmts).map fun ms => createDisclosed creds ms stmts else none

/-- statement ids in the order `create` appends statement-id markers to the main transcript: commitment,
verifiable-encryption and encrypt-and-decrypt builders in predicate order, then the range builders -/
def createMarkers (creds : List (String × CredI)) (stmts : List CStmt) : List String :=
  ((stmts.filterMap (predProofOf creds)).filter fun p => AC.Verify.markerKind p.kind).map (·.id)
    ++ (stmts.filterMap (rangeProofOf creds)).map (·.id)

end AC.Create
