import AnonCreds.Model.Fr
/-
Executable instance used by the driver where generators are opaque points (hash-derived, or a
commitment made by the other party): a group element is its coordinate vector over a list of
independent bases supplied with the request. Theorems are stated over arbitrary vector spaces.
-/
namespace AC

structure Lin where
  c : List Fr
deriving Repr, Inhabited

namespace Lin
def zipLong : List Fr → List Fr → List Fr
  | [], b => b
  | a, [] => a
  | x :: a, y :: b => (x + y) :: zipLong a b

instance : Add Lin := ⟨fun a b => ⟨zipLong a.c b.c⟩⟩
instance : Zero Lin := ⟨⟨[]⟩⟩
instance : Neg Lin := ⟨fun a => ⟨a.c.map (-·)⟩⟩
instance : SMul Fr Lin := ⟨fun k a => ⟨a.c.map (k * ·)⟩⟩

/-- `i`-th basis vector of dimension `d` -/
def unit (d i : Nat) : Lin := ⟨(List.range d).map fun j => if j = i then 1 else 0⟩

/-- coordinates padded to dimension `d` -/
def coords (d : Nat) (a : Lin) : List Fr := (List.range d).map fun j => a.c.getD j 0
end Lin

end AC
