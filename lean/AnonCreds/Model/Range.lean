import AnonCreds.Model.Claims
/-
Model of the range-statement arithmetic: `src/presentation/range.rs` (prover pre-check, adjusted
values in u64) and `src/verifier/range.rs` (scalars the verifier applies to the commitment). A 64-bit
bulletproof on a commitment says: its committed field element is `< 2^64` (as an integer
representative). `r` is the group order.
-/
namespace AC.Range

def i64Min : Int := -(two63 : Int)
def i64Max : Int := (two63 : Int) - 1

/-- `RangeBuilder::commit` pre-check: `message < lower || message > upper` is an error -/
def proverAccepts (v : Int) (lower upper : Option Int) : Bool :=
  decide (lower.getD i64Min ≤ v) && decide (v ≤ upper.getD i64Max)

/-- `zero_center(message) - zero_center(lower)` in u64 (wrapping, as release builds do) -/
def adjustedLower (v lower : Int) : Nat := (zeroCenter v + two64 - zeroCenter lower) % two64

/-- `zero_center(message) + (u64::MAX - zero_center(upper))` in u64 (wrapping) -/
def adjustedUpper (v upper : Int) : Nat := (zeroCenter v + (two64 - 1 - zeroCenter upper)) % two64

/-- value opened by the verifier's `C - zc(lower) • M`, as a canonical field element -/
def fieldLower (r : Nat) (v lower : Int) : Nat := (zeroCenter v + r - zeroCenter lower % r) % r

/-- value opened by the verifier's `C + (u64::MAX - zc(upper)) • M` -/
def fieldUpper (r : Nat) (v upper : Int) : Nat := (zeroCenter v + (two64 - 1 - zeroCenter upper)) % r

/-- what the bulletproofs assert about the two adjusted commitments -/
def verifierSatisfiable (r : Nat) (v : Int) (lower upper : Option Int) : Bool :=
  (match lower with
   | none => true
   | some lo => decide (fieldLower r v lo < two64))
  && (match upper with
   | none => true
   | some up => decide (fieldUpper r v up < two64))

end AC.Range
