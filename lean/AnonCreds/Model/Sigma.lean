import AnonCreds.Model.Basic
/-
Model of the Schnorr-type sub-protocols: the multi-scalar multiplication of `blstrs_plus`
(`sum_of_products` pairs points and scalars positionally and stops at the shorter slice), the
BBS and PS proofs of knowledge (`knox/{bbs,ps}/pok_signature{,_proof}.rs`), the index → response
lookup, and the predicate verifiers that recompute a Schnorr commitment with a shared response
(`verifier/{commitment,verifiable_encryption}.rs`).
`F` scalar field, `G` a group written additively with `F` acting on it.
-/
namespace AC.Sigma
variable {F G : Type}

/-- `sum_of_products`: Σ sᵢ • Pᵢ over the common prefix of the two lists -/
def msm [Add G] [Zero G] [SMul F G] : List G → List F → G
  | p :: ps, s :: ss => s • p + msm ps ss
  | _, _ => 0

/-- generators of the messages that are not revealed, in index order (`known` = revealed indices) -/
def hiddenGens (ys : List G) (known : List Nat) : List G :=
  (ys.zipIdx.filter (fun p => !known.contains p.2)).map (·.1)

/-- Σ over the revealed list as the verifiers build it: each list entry whose index is in range
contributes `m • y_idx` (BBS skips out-of-range indices) -/
def revealedSum [Add G] [Zero G] [SMul F G] (ys : List G) : List (Nat × F) → G
  | [] => 0
  | (i, m) :: rest =>
    match ys[i]? with
    | some y => m • y + revealedSum ys rest
    | none => revealedSum ys rest

/-! ### BBS -/

structure BbsPok (F G : Type) where
  abar : G
  bbar : G
  t : G
  proof : List F

/-- `lhs = -Σ_revealed mᵢ yᵢ - g1` (pok_signature_proof.rs:65) -/
def bbsLhs [Add G] [Zero G] [Neg G] [Sub G] [SMul F G] (g1 : G) (ys : List G) (rvl : List (Nat × F)) : G :=
  -(revealedSum ys rvl) - g1

/-- recomputed Schnorr commitment: points = hidden generators ++ [a_bar, b_bar, lhs],
scalars = proof ++ [-c] -/
def bbsRecommit [Add G] [Zero G] [Neg G] [Sub G] [SMul F G] [Neg F]
    (g1 : G) (ys : List G) (rvl : List (Nat × F)) (c : F) (π : BbsPok F G) : G :=
  msm (hiddenGens ys (rvl.map (·.1)) ++ [π.abar, π.bbar, bbsLhs g1 ys rvl]) (π.proof ++ [-c])

/-- `PokSignatureProof::verify` for BBS. `pairingOk` is the verdict of `e(a_bar, w) = e(b_bar, g2)`.
The response-count check is the repair of finding F02, the index checks (in range, no
duplicates) the repair of the revealed-list finding. -/
def bbsVerify [Add G] [Zero G] [Neg G] [Sub G] [SMul F G] [Neg F] [DecidableEq G]
    (g1 : G) (ys : List G) (rvl : List (Nat × F)) (c : F) (π : BbsPok F G) (pairingOk : Bool) : Bool :=
  !(decide (π.abar = 0) || decide (π.bbar = 0) || decide (π.t = 0))
  && rvl.all (fun p => decide (p.1 < ys.length)) && decide ((rvl.map (·.1)).Nodup)
  && decide (π.proof.length = (hiddenGens ys (rvl.map (·.1))).length + 2)
  && decide (π.t = bbsRecommit g1 ys rvl c π)
  && pairingOk

/-! ### PS -/

structure PsPok (F G1 G2 : Type) where
  sigma1 : G1
  sigma2 : G1
  commitment : G2
  proof : List F

/-- the "blind commitment" hashed by `add_proof_contribution`: points = [g2, w] ++ hidden
generators ++ [J], scalars = proof ++ [-c] -/
def psRecommit [Add G] [Zero G] [SMul F G] [Neg F] {G1 : Type}
    (g2 w : G) (ys : List G) (known : List Nat) (c : F) (π : PsPok F G1 G) : G :=
  msm ([g2, w] ++ hiddenGens ys known ++ [π.commitment]) (π.proof ++ [-c])

/-- `J' = Σ_revealed mᵢ Yᵢ + X + J` used in the pairing check -/
def psJ [Add G] [Zero G] [SMul F G] {G1 : Type} (x : G) (ys : List G) (rvl : List (Nat × F))
    (π : PsPok F G1 G) : G :=
  revealedSum ys rvl + x + π.commitment

/-- `PokSignatureProof::verify` for PS: identity checks, size checks (`revealed ≤ capacity`, every
revealed index in range — the repaired bound — and the response count of the F02 repair), then the
pairing equation `e(σ₁, J') = e(σ₂, g2)` whose verdict is `pairingOk` -/
def psVerify {G1 : Type} [Zero G1] [DecidableEq G1]
    (ys : List G) (rvl : List (Nat × F)) (π : PsPok F G1 G) (pairingOk : Bool) : Bool :=
  !(decide (π.sigma1 = 0) || decide (π.sigma2 = 0))
  && decide (rvl.length ≤ ys.length)
  && decide (π.proof.length = (hiddenGens ys (rvl.map (·.1))).length + 2)
  && rvl.all (fun p => decide (p.1 < ys.length)) && decide ((rvl.map (·.1)).Nodup)
  && pairingOk

/-! ### index → response lookup (`get_hidden_message_proofs`) -/

/-- walk `i = 0 .. n-1` with a cursor `j` into the revealed list (assumed ascending): a position whose
index is the next revealed one is skipped, the others take response `offset + i - j` -/
def hiddenProofs (n : Nat) (offset : Nat) (rvl : List Nat) (proof : List F) : Option (List (Nat × F)) :=
  if n < rvl.length then none else go n 0 0 []
where
  go : Nat → Nat → Nat → List (Nat × F) → Option (List (Nat × F))
    | 0, _, _, acc => some acc.reverse
    | fuel + 1, i, j, acc =>
      if rvl[j]? = some i then go fuel (i + 1) (j + 1) acc
      else match proof[offset + i - j]? with
        | some m => go fuel (i + 1) j ((i, m) :: acc)
        | none => none

/-! ### blind signing contexts (`knox/{bbs,ps}/blind_signature_context.rs`) -/

structure BlindCtx (F G : Type) where
  commitment : G
  challenge : F
  proofs : List F

/-- the commitment hashed by the issuer: points = generators of the messages the issuer does **not**
know (index order) ++ `extra` (PS: the G1 generator for the blinding factor; BBS: nothing) ++
[commitment], scalars = proofs ++ [-challenge] -/
def blindRecommit [Add G] [Zero G] [SMul F G] [Neg F]
    (ys : List G) (known : List Nat) (extra : List G) (ctx : BlindCtx F G) : G :=
  msm (hiddenGens ys known ++ extra ++ [ctx.commitment]) (ctx.proofs ++ [-ctx.challenge])

/-- `BlindSignatureContext::verify`: known indices in range, the response count (repair), and the
recomputed challenge `H(recommit, commitment, nonce)` equal to the presented one (`hashOk`) -/
def blindVerify [Add G] [Zero G] [SMul F G] [Neg F]
    (ys : List G) (known : List Nat) (extra : List G) (ctx : BlindCtx F G) (hashOk : G → Bool) : Option Bool :=
  if known.any (fun i => decide (ys.length ≤ i)) then none
  else if ctx.proofs.length ≠ (hiddenGens ys known).length + extra.length then some false
  else some (hashOk (blindRecommit ys known extra ctx))

/-! ### predicate verifiers sharing a response -/

/-- `CommitmentVerifier`: `-c • C + p_m • M + p_b • B` -/
def commitmentRecommit [Add G] [Neg F] [SMul F G] (M B C : G) (c pm pb : F) : G :=
  (-c) • C + pm • M + pb • B

/-- `VerifiableEncryptionVerifier`: `r1 = -c • c1 + p_b • g`, `r2 = -c • c2 + p_m • M + p_b • K` -/
def elgamalRecommit [Add G] [Neg F] [SMul F G] (g M K c1 c2 : G) (c pm pb : F) : G × G :=
  ((-c) • c1 + pb • g, (-c) • c2 + pm • M + pb • K)

/-! ### what the Fiat–Shamir challenge hashes for these sub-protocols

The *statement* of each Σ-protocol (the prover-chosen group elements the proof is about) must be hashed
together with the recomputed commitments, otherwise the challenge can be fixed before the statement is
chosen. Items are (label, value) in the order of `append_message`. -/

/-- `CommitmentVerifier::add_challenge_contribution` after the statement-id marker -/
def commitmentItems {G : Type} (C R : G) : List (String × G) :=
  [("commitment", C), ("blind commitment", R)]

/-- `VerifiableEncryptionVerifier::add_challenge_contribution` (ElGamal part) after the marker -/
def elgamalItems {G : Type} (c1 c2 r1 r2 : G) : List (String × G) :=
  [("c1", c1), ("c2", c2), ("r1", r1), ("r2", r2)]

/-- the blind-signing context's own transcript (`knox/{bbs,ps}/blind_signature_context.rs` and the
holder side in `scheme.rs`); values are opaque byte strings; BBS also hashes the G1 generator -/
def blindItems {B : Type} (bbs : Bool) (pk gen rc bc nonce : B) : List (String × B) :=
  [("public key", pk)] ++ (if bbs then [("generator", gen)] else [])
    ++ [("random commitment", rc), ("blind commitment", bc), ("nonce", nonce)]

end AC.Sigma
