import AnonCreds.Model.Claims
/-
Model of `Issuer::sign_credential`'s acceptance logic (`src/issuer.rs:104-146`), `ClaimSchema::is_valid`
(`src/credential/schema.rs:142-151`) and `ClaimValidator::is_valid` (`src/claim/validator.rs:72-107`).
Regular-expression matching is done by the `regex` crate: its verdict on the claim at the
validator's position is an input (`matches`).
-/
namespace AC.Issue

inductive Validator where
  | length (min max : Option Nat)
  | range (min max : Option Int)
  /-- `verdict` of the compiled regex on this position's claim text -/
  | regex (verdict : Bool)
  | anyOne (claims : List ClaimData)
deriving Repr, DecidableEq

structure ClaimSchemaM where
  type : ClaimType
  validators : List Validator
deriving Repr, DecidableEq

def u64Max : Nat := two64 - 1
def i64Min : Int := -(two63 : Int)
def i64Max : Int := (two63 : Int) - 1

/-- `ClaimValidator::is_valid`: `none` = the validator does not apply to this claim type -/
def Validator.isValid : Validator → ClaimData → Option Bool
  | .length min max, .hashed v _ => some (decide (min.getD 0 ≤ v.length) && decide (v.length ≤ max.getD u64Max))
  | .length min max, .revocation v => some (decide (min.getD 0 ≤ v.length) && decide (v.length ≤ max.getD u64Max))
  | .length _ _, _ => none
  | .range min max, .number n => some (decide (min.getD i64Min ≤ n) && decide (n ≤ max.getD i64Max))
  | .range _ _, _ => none
  | .regex m, .hashed v _ => if utf8Valid v then some m else none
  | .regex m, .revocation _ => some m
  | .regex _, _ => none
  | .anyOne cs, c => some (cs.contains c)

/-- `ClaimSchema::is_valid`: `result &= b` over all validators, `None` short-circuits -/
def schemaValid (vs : List Validator) (c : ClaimData) : Option Bool :=
  go vs true
where
  go : List Validator → Bool → Option Bool
    | [], acc => some acc
    | v :: rest, acc =>
      match v.isValid c with
      | some b => go rest (acc && b)
      | none => none

/-- the per-position loop of `sign_credential`; `rev` = revocation claim seen so far. `none` = error -/
def scan : List (ClaimData × ClaimSchemaM) → Option Bytes → Option (Option Bytes)
  | [], rev => some rev
  | (c, t) :: rest, rev =>
    if c.type ≠ t.type then none
    else match schemaValid t.validators c with
      | some true =>
        (match c with
         | .revocation id => if rev.isSome then none else scan rest (some id)
         | _ => scan rest rev)
      | _ => none

/-- `sign_credential` up to the point where signing starts: `some id` = accepted, with the
revocation identifier. `revoked id` = "not active and in elements". -/
def signAccepts (schema : List ClaimSchemaM) (revoked : Bytes → Bool) (claims : List ClaimData) : Option Bytes :=
  if claims.length ≠ schema.length then none
  else match scan (claims.zip schema) none with
    | some (some id) => if revoked id then none else some id
    | _ => none

end AC.Issue
