import AnonCreds.Model.Fr
/-
Model of the VB20 zero-knowledge membership proof used for non-revocation
(`src/knox/accumulator/vb20/proof.rs`: `MembershipProofCommitting::new`, `gen_proof`,
`MembershipProof::finalize`) and of its use by the presentation layer
(`src/presentation/revocation.rs`, `src/verifier/revocation.rs`).

`F` is the scalar field, `G` the group G1 written additively. Target-group values are read through
the pairing with the fixed generator `P~`: the value `e(A, P~) · e(B, Q~)` with `Q~ = α·P~` is
represented by `A + α • B` (bilinearity + non-degeneracy of the pairing; trusted, as in C14 / C17).
-/
namespace AC.Membership
variable {F G : Type}

/-- `ProofParams` (the generator `K` only enters the transcript) -/
structure Params (G : Type) where
  x : G
  y : G
  z : G

/-- `MembershipProof` -/
structure MProof (F G : Type) where
  ec : G
  tSigma : G
  tRho : G
  sSigma : F
  sRho : F
  sDeltaSigma : F
  sDeltaRho : F
  sY : F

/-- what enters the challenge hash after `Ec, T_sigma, T_rho`: `MembershipProofFinal` / the `cap_r_*` fields -/
structure Commitments (G : Type) where
  rE : G
  rSigma : G
  rRho : G
  rDeltaSigma : G
  rDeltaRho : G
deriving DecidableEq

/-- the prover's random choices (`generate_fr` calls and the message blinder) -/
structure Coins (F : Type) where
  sigma : F
  rho : F
  rY : F
  rSigma : F
  rRho : F
  rDeltaSigma : F
  rDeltaRho : F

section
variable [Add F] [Mul F] [Neg F] [Add G] [Neg G] [SMul F G]

/-- `MembershipProofCommitting::new` for message `y`, handle `C`: the three published points and the commitments -/
def commit (pp : Params G) (α : F) (C : G) (k : Coins F) : G × G × G × Commitments G :=
  let ec := (k.sigma + k.rho) • pp.z + C
  let tS := k.sigma • pp.x
  let tR := k.rho • pp.y
  let lhs := k.rY • ec + (-(k.rDeltaSigma + k.rDeltaRho)) • pp.z
  (ec, tS, tR,
   { rE := lhs + α • ((-(k.rSigma + k.rRho)) • pp.z)
     rSigma := k.rSigma • pp.x
     rRho := k.rRho • pp.y
     rDeltaSigma := k.rY • tS + k.rDeltaSigma • (-pp.x)
     rDeltaRho := k.rY • tR + k.rDeltaRho • (-pp.y) })

/-- `schnorr(r, v, c) = v·c + r` -/
def schnorr (r v c : F) : F := v * c + r

/-- `gen_proof` -/
def genProof (pp : Params G) (y : F) (C : G) (k : Coins F) (c : F) : MProof F G :=
  { ec := (k.sigma + k.rho) • pp.z + C
    tSigma := k.sigma • pp.x
    tRho := k.rho • pp.y
    sY := schnorr k.rY y c
    sSigma := schnorr k.rSigma k.sigma c
    sRho := schnorr k.rRho k.rho c
    sDeltaSigma := schnorr k.rDeltaSigma (y * k.sigma) c
    sDeltaRho := schnorr k.rDeltaRho (y * k.rho) c }

/-- `MembershipProof::finalize` against accumulator value `V` -/
def finalize (pp : Params G) (α : F) (V : G) (c : F) (p : MProof F G) : Commitments G :=
  let lhs := p.sY • p.ec + (-(p.sDeltaSigma + p.sDeltaRho)) • pp.z + (-c) • V
  let rhs := (-(p.sSigma + p.sRho)) • pp.z + c • p.ec
  { rE := lhs + α • rhs
    rSigma := p.sSigma • pp.x + c • (-p.tSigma)
    rRho := p.sRho • pp.y + c • (-p.tRho)
    rDeltaSigma := p.sY • p.tSigma + p.sDeltaSigma • (-pp.x)
    rDeltaRho := p.sY • p.tRho + p.sDeltaRho • (-pp.y) }

end

/-- what the revocation verifier contributes: the recomputed commitments enter the hash, and the
proof's `s_y` must equal the signature proof's response for the identifier claim -/
def linkOk [DecidableEq F] (p : MProof F G) (sigResponse : F) : Bool := p.sY == sigResponse

/-! ### executable instance: coordinates over four independent bases `[V₀, X, Y, Z]` -/

structure V4 where
  a : Fr
  b : Fr
  c : Fr
  d : Fr
deriving DecidableEq, Repr, Inhabited

instance : Add V4 := ⟨fun p q => ⟨p.a + q.a, p.b + q.b, p.c + q.c, p.d + q.d⟩⟩
instance : Neg V4 := ⟨fun p => ⟨-p.a, -p.b, -p.c, -p.d⟩⟩
instance : SMul Fr V4 := ⟨fun k p => ⟨k * p.a, k * p.b, k * p.c, k * p.d⟩⟩

def stdParams : Params V4 := ⟨⟨0, 1, 0, 0⟩, ⟨0, 0, 1, 0⟩, ⟨0, 0, 0, 1⟩⟩

end AC.Membership
