import AnonCreds.Model.Claims
import AnonCreds.Model.Fr
/-
Text syntax shared by the line-protocol driver (`Main.lean`) and the Rust harness.
Byte strings are lower-case hex, the empty string is `-`; scalars are 64 hex digits big-endian.
-/
namespace AC.Wire
open AC

def hexOf (b : Bytes) : String := if b.isEmpty then "-" else String.ofList (hexEncode b)

def bytesOf? (s : String) : Option Bytes := if s = "-" then some [] else hexDecode? s.toList

def scalarHex (n : Nat) : String := String.ofList (hexEncode (toBE 32 n))

def scalarOf? (s : String) : Option Nat := (bytesOf? s).map beVal

def intOf? (s : String) : Option Int := s.toInt?

def showOutcome {α} (f : α → String) : Outcome α → String
  | .ok a => "ok " ++ f a
  | .err => "err"
  | .panic _ => "panic"

def claimStr : ClaimData → String
  | .hashed v pf => s!"H:{hexOf v}:{if pf then 1 else 0}"
  | .number v => s!"N:{v}"
  | .scalar s => s!"S:{scalarHex s}"
  | .revocation id => s!"R:{hexOf id}"
  | .enumeration e => s!"E:{hexOf e.dst}:{e.value.toNat}:{e.total}"

def claimOf? (s : String) : Option ClaimData :=
  match s.splitOn ":" with
  | ["H", v, pf] => (bytesOf? v).map fun b => .hashed b (pf = "1")
  | ["N", v] => (intOf? v).map .number
  | ["S", v] => (scalarOf? v).map .scalar
  | ["R", v] => (bytesOf? v).map .revocation
  | ["E", d, v, t] =>
    match bytesOf? d, v.toNat?, t.toNat? with
    | some d, some v, some t => some (.enumeration ⟨d, UInt8.ofNat v, t⟩)
    | _, _, _ => none
  | _ => none

def typeOf? : String → Option ClaimType
  | "hashed" => some .hashed
  | "number" => some .number
  | "scalar" => some .scalar
  | "revocation" => some .revocation
  | "enumeration" => some .enumeration
  | _ => none

end AC.Wire

namespace AC.Wire
open AC

def frHex (x : Fr) : String := scalarHex x.val
def frOf? (s : String) : Option Fr := (scalarOf? s).map Fr.ofNat

/-- comma-separated list, `-` is the empty list -/
def listOf? {α} (f : String → Option α) (s : String) : Option (List α) :=
  if s = "-" then some [] else (s.splitOn ",").mapM f

def showList {α} (f : α → String) (l : List α) : String :=
  if l.isEmpty then "-" else ",".intercalate (l.map f)

def g1Tok (x : Fr) : String := "@g1(" ++ frHex x ++ ")"

end AC.Wire
