import AnonCreds.Model.Basic
/-
Model of `src/utils.rs` (zero_center), `src/claim/{number,scalar,hashed,enumeration,revocation,data}.rs`.
Strings are their UTF-8 bytes. Scalars are canonical naturals `< rOrder`.
-/
namespace AC

/-! ### integers -/

def two63 : Nat := 2 ^ 63
def two64 : Nat := 2 ^ 64

/-- `x as u64` for an `isize`/`i64` (two's complement) -/
def asU64 (v : Int) : Nat := (v % (two64 : Int)).toNat

/-- `x as isize` for a `u64` -/
def asI64 (u : Nat) : Int := if u < two63 then (u : Int) else (u : Int) - (two64 : Int)

/-- `utils::zero_center`: `num as u64 ^ TOP_BIT` -/
def zeroCenter (v : Int) : Nat := asU64 v ^^^ two63

/-- `NumberClaim::to_scalar` = `Scalar::from(zero_center(value))` (a u64 is always canonical) -/
def numberToScalar (v : Int) : Nat := zeroCenter v

/-- `NumberClaim::from(Scalar)`: low 8 little-endian bytes, `as isize`, zero-centre, `as isize` -/
def numberFromScalar (s : Nat) : Int := asI64 (zeroCenter (asI64 (s % two64)))

/-! ### UTF-8 validity (what `String::from_utf8` accepts) -/

def isCont (b : UInt8) : Bool := 0x80 ≤ b.toNat && b.toNat ≤ 0xBF

def utf8Valid : Bytes → Bool
  | [] => true
  | b0 :: rest =>
    let n := b0.toNat
    if n < 0x80 then utf8Valid rest
    else if 0xC2 ≤ n && n ≤ 0xDF then
      match rest with
      | b1 :: r => isCont b1 && utf8Valid r
      | _ => false
    else if 0xE0 ≤ n && n ≤ 0xEF then
      match rest with
      | b1 :: b2 :: r =>
        let m := b1.toNat
        (if n = 0xE0 then 0xA0 ≤ m && m ≤ 0xBF
         else if n = 0xED then 0x80 ≤ m && m ≤ 0x9F
         else isCont b1) && isCont b2 && utf8Valid r
      | _ => false
    else if 0xF0 ≤ n && n ≤ 0xF4 then
      match rest with
      | b1 :: b2 :: b3 :: r =>
        let m := b1.toNat
        (if n = 0xF0 then 0x90 ≤ m && m ≤ 0xBF
         else if n = 0xF4 then 0x80 ≤ m && m ≤ 0x8F
         else isCont b1) && isCont b2 && isCont b3 && utf8Valid r
      | _ => false
    else false

/-! ### scalar packing (`ScalarClaim::{encode_str, encode_bytes, decode_to_str, decode_to_bytes}`) -/

/-- the 32-byte big-endian buffer built by `encode_str` / `encode_bytes` -/
def packBuffer (value : Bytes) : Bytes :=
  if value.isEmpty then List.replicate 32 0
  else UInt8.ofNat value.length :: (List.replicate (31 - value.length) 0 ++ value)

/-- `ScalarClaim::encode_bytes` (and `encode_str` on the UTF-8 bytes): `Err` above 31 bytes, else
the scalar whose big-endian encoding is the buffer (`from_be_bytes` rejects non-canonical values). -/
def encodeBytes (value : Bytes) : Outcome Nat :=
  if value.length > 31 then .err
  else
    let n := beVal (packBuffer value)
    if n < rOrder then .ok n else .err

/-- `data[32 - len..]` of the 32-byte big-endian encoding; a length byte above 31 is an error
(on the pinned tree the slice panicked for `len > 32` — finding F21, repaired). -/
def tailOfLen (s : Nat) (len : Nat) : Outcome Bytes :=
  if len > 31 then .err
  else .ok ((toBE 32 s).drop (32 - len))

/-- `ScalarClaim::decode_to_bytes`: the length byte is `data[lenIdx]`. The code under test uses
index `lenIdx` (1 on the pinned tree — finding F17 —, 0 after the fix). -/
def decodeToBytesAt (lenIdx : Nat) (s : Nat) : Outcome Bytes :=
  tailOfLen s ((toBE 32 s).getD lenIdx 0).toNat

def decodeToBytes (s : Nat) : Outcome Bytes := decodeToBytesAt 0 s

/-- `ScalarClaim::decode_to_str` -/
def decodeToStr (s : Nat) : Outcome Bytes :=
  match tailOfLen s ((toBE 32 s).getD 0 0).toNat with
  | .ok b => if utf8Valid b then .ok b else .err
  | .err => .err
  | .panic p => .panic p

/-! ### claim data -/

inductive ClaimType where
  | hashed | number | scalar | revocation | enumeration
deriving Repr, DecidableEq, Inhabited

structure EnumClaim where
  dst : Bytes
  value : UInt8
  total : Nat
deriving Repr, DecidableEq, Inhabited

inductive ClaimData where
  | hashed (value : Bytes) (printFriendly : Bool)
  | number (v : Int)
  | scalar (s : Nat)
  | revocation (id : Bytes)
  | enumeration (e : EnumClaim)
deriving Repr, DecidableEq, Inhabited

def ClaimData.type : ClaimData → ClaimType
  | .hashed .. => .hashed
  | .number .. => .number
  | .scalar .. => .scalar
  | .revocation .. => .revocation
  | .enumeration .. => .enumeration

/-- `vb20::SALT`, prefixed by `Element::hash` -/
def accSalt : Bytes := "VB-ACC-HASH-SALT-".toUTF8.toList

/-- What is fed to the hash-to-scalar function for hash-encoded claims (`none`: not hashed). The hash
itself (SHAKE-256 → wide reduction, resp. the accumulator's element hash) is a parameter. -/
def ClaimData.preHash : ClaimData → Option Bytes
  | .hashed v _ => some v
  | .revocation id => some (accSalt ++ id)
  | .enumeration e =>
    some (e.dst ++ [UInt8.ofNat e.dst.length] ++ toLE 2 e.total ++ [e.value])
  | _ => none

/-- `ClaimData::to_scalar` with the hash-to-scalar map (SHAKE-256, wide reduction) as a parameter -/
def ClaimData.toScalar (hShake : Bytes → Nat) (c : ClaimData) : Nat :=
  match c with
  | .number v => numberToScalar v
  | .scalar s => s
  | _ => hShake (c.preHash.getD [])

/-! ### byte codec (`ClaimData::to_bytes` / `from_bytes`) -/

def ClaimData.toBytes : ClaimData → Bytes
  | .hashed v _ => v
  | .number v => toBE 8 (asU64 v)
  | .scalar s => toBE 32 s
  | .revocation id => id
  | .enumeration e => [e.value]

/-- `from_bytes`. `strict = false` is the pinned behaviour (`try_from(data).unwrap()` panics when a
scalar claim is not 32 bytes), `strict = true` the repaired one (error). -/
def ClaimData.fromBytes (strict : Bool) (t : ClaimType) (d : Bytes) : Outcome ClaimData :=
  match t with
  | .hashed => .ok (.hashed d false)
  | .number =>
    if d.length = 1 ∨ d.length = 2 ∨ d.length = 4 ∨ d.length = 8 then .ok (.number (asI64 (beVal d)))
    else .err
  | .scalar =>
    if d.length ≠ 32 then (if strict then .err else .panic "data.rs: try_from(data).unwrap()")
    else if beVal d < rOrder then .ok (.scalar (beVal d)) else .err
  | .revocation =>
    if d.length ≠ 16 then .err
    else if utf8Valid d then .ok (.revocation d) else .err
  | .enumeration => .err

/-! ### text codec (`ClaimData::to_text` / `from_text`) -/

def strBytes (s : String) : Bytes := s.toUTF8.toList

def natDigits (n : Nat) : Bytes := (toString n).toUTF8.toList

/-- `isize::to_string` -/
def intToText (v : Int) : Bytes :=
  if v < 0 then strBytes "-" ++ natDigits v.natAbs else natDigits v.natAbs

def digitsVal? : Bytes → Option Nat
  | [] => none
  | ds => ds.foldl (fun acc d =>
      match acc with
      | none => none
      | some a => if 48 ≤ d.toNat ∧ d.toNat ≤ 57 then some (a * 10 + (d.toNat - 48)) else none) (some 0)

/-- `str::parse::<isize>`: optional sign, at least one ASCII digit, overflow is an error -/
def parseI64? (b : Bytes) : Option Int :=
  match b with
  | [] => none
  | c :: rest =>
    if c = 45 then
      match digitsVal? rest with
      | some n => if n ≤ two63 then some (-(n : Int)) else none
      | none => none
    else
      let ds := if c = 43 then rest else b
      match digitsVal? ds with
      | some n => if n < two63 then some (n : Int) else none
      | none => none

/-- BARE `uint` (LEB128) -/
def uvarint (n : Nat) : Bytes :=
  if h : n < 0x80 then [UInt8.ofNat n] else UInt8.ofNat (n % 128 + 128) :: uvarint (n / 128)
decreasing_by omega

/-- serde_bare's `Uint` decoder: at most 10 bytes, the tenth at most 1 -/
def uvarintDecode? (b : Bytes) : Option (Nat × Bytes) :=
  go 0 0 0 b
where
  go (i x s : Nat) : Bytes → Option (Nat × Bytes)
    | [] => none
    | c :: rest =>
      if i > 9 ∨ (i = 9 ∧ c.toNat > 1) then none
      else if c.toNat < 0x80 then some ((x ||| (c.toNat <<< s)) % two64, rest)
      else go (i + 1) (x ||| ((c.toNat &&& 0x7f) <<< s)) (s + 7) rest

/-- `serde_bare::to_vec(&EnumerationClaim)`: string, u8, u64 (usize) -/
def EnumClaim.bare (e : EnumClaim) : Bytes :=
  uvarint e.dst.length ++ e.dst ++ [e.value] ++ toLE 8 e.total

/-- `serde_bare::from_slice::<EnumerationClaim>` (trailing bytes are ignored) -/
def EnumClaim.unbare? (b : Bytes) : Option EnumClaim :=
  match uvarintDecode? b with
  | none => none
  | some (len, rest) =>
    if rest.length < len then none
    else
      let dst := rest.take len
      let rest := rest.drop len
      if !utf8Valid dst then none
      else match rest with
        | v :: r8 => if r8.length < 8 then none else some ⟨dst, v, leVal (r8.take 8)⟩
        | [] => none

def asciiHex (b : Bytes) : Bytes := (hexEncode b).map fun c => UInt8.ofNat c.toNat
def hexDecodeBytes? (b : Bytes) : Option Bytes := hexDecode? (b.map fun x => Char.ofNat x.toNat)

/-- `ClaimData::to_text`; panics for a print-friendly hashed claim that is not UTF-8 -/
def ClaimData.toText : ClaimData → Outcome Bytes
  | .hashed v true => if utf8Valid v then .ok (strBytes "ut8:" ++ v) else .panic "data.rs: from_utf8().unwrap()"
  | .hashed v false => .ok (strBytes "hex:" ++ asciiHex v)
  | .number v => .ok (strBytes "num:" ++ intToText v)
  | .scalar s => .ok (strBytes "scl:" ++ asciiHex (toBE 32 s))
  | .revocation id => .ok (strBytes "rev:" ++ id)
  | .enumeration e => .ok (strBytes "enm:" ++ asciiHex e.bare)

/-- `ClaimData::from_text` on a valid UTF-8 string given as bytes. `strict = false`: pinned behaviour
(slicing panics below 4 bytes or off a character boundary, `from_be_hex` panics on short / non-hex
input); `strict = true`: repaired behaviour (errors). -/
def ClaimData.fromText (strict : Bool) (s : Bytes) : Outcome ClaimData :=
  if s.length < 4 || (match s[4]? with | some b => isCont b | none => false) then
    (if strict then .err else .panic "data.rs: &s[0..4]")
  else
    let tag := s.take 4
    let body := s.drop 4
    if tag = strBytes "hex:" then
      match hexDecodeBytes? body with
      | some v => .ok (.hashed v false)
      | none => .err
    else if tag = strBytes "ut8:" then .ok (.hashed body true)
    else if tag = strBytes "num:" then
      match parseI64? body with
      | some v => .ok (.number v)
      | none => .err
    else if tag = strBytes "scl:" then
      if strict then
        (if body.length ≠ 64 then .err
         else match hexDecodeBytes? body with
          | some v => if beVal v < rOrder then .ok (.scalar (beVal v)) else .err
          | none => .err)
      else
        (if body.length < 64 then .panic "blstrs util: index out of bounds"
         else match hexDecodeBytes? (body.take 64) with
          | some v => if beVal v < rOrder then .ok (.scalar (beVal v)) else .err
          | none => .panic "blstrs util: invalid hex byte")
    else if tag = strBytes "rev:" then .ok (.revocation body)
    else if tag = strBytes "enm:" then
      match hexDecodeBytes? body with
      | some v => (match EnumClaim.unbare? v with
        | some e => .ok (.enumeration e)
        | none => .err)
      | none => .err
    else .err

end AC
