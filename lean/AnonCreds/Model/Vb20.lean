import AnonCreds.Model.Basic
/-
Model of `src/knox/accumulator/vb20.rs` (Polynomial, PolynomialG1, dad), `vb20/key.rs`
(batch_additions, batch_deletions, create_coefficients), `vb20/accumulator.rs` (update) and
`vb20/witness.rs` (membership / non-membership witnesses, single-step, batch and multi-batch
updates). `F` is the scalar field, `G` the group G1 written additively with `F` acting on it.
-/
namespace AC.Vb20
variable {F G : Type}

/-! ### `Polynomial` -/

/-- `Polynomial +=`: pointwise, keeping the longer tail -/
def polyAdd [Add F] : List F → List F → List F
  | [], q => q
  | p, [] => p
  | a :: p, b :: q => (a + b) :: polyAdd p q

/-- `Polynomial -=`: pointwise, a longer right-hand tail is negated -/
def polySub [Sub F] [Neg F] : List F → List F → List F
  | [], q => q.map (- ·)
  | p, [] => p
  | a :: p, b :: q => (a - b) :: polySub p q

/-- `Polynomial *= Scalar` -/
def polyScale [Mul F] (c : F) (p : List F) : List F := p.map (c * ·)

/-- `Polynomial *= &[Scalar]`: convolution, resized to `len p + len q - 1` -/
def polyMul [Add F] [Mul F] [Zero F] : List F → List F → List F
  | [], q => List.replicate (q.length - 1) 0
  | c :: cs, q => polyAdd (polyScale c q) (match cs with
      | [] => []
      | _ => (0 : F) :: polyMul cs q)

def polyEval [Add F] [Mul F] [Zero F] : List F → F → F
  | [], _ => 0
  | a :: p, x => a + x * polyEval p x

/-- `PolynomialG1::evaluate`: `None` on the empty polynomial, else Σ xⁱ • Pᵢ -/
def polyEvalG [Add G] [Zero G] [SMul F G] [Mul F] [One F] (ps : List G) (x : F) : Option G :=
  match ps with
  | [] => none
  | p0 :: rest => some (go rest x p0)
where
  go : List G → F → G → G
    | [], _, acc => acc
    | p :: ps, pw, acc => go ps (pw * x) (acc + pw • p)

/-- `PolynomialG1 +=` -/
def polyAddG [Add G] : List G → List G → List G
  | [], q => q
  | p, [] => p
  | a :: p, b :: q => (a + b) :: polyAddG p q

/-! ### secret-key side -/

/-- `SecretKey::batch_additions`: ∏ (v + α) -/
def batchAdd [Add F] [Mul F] [One F] (α : F) : List F → F
  | [] => 1
  | v :: vs => (v + α) * batchAdd α vs

/-- `SecretKey::batch_deletions` -/
def batchDel [Add F] [Mul F] [One F] [Inv F] (α : F) (vs : List F) : F := (batchAdd α vs)⁻¹

/-- `dad`: ∏ (v - y) -/
def dad [Sub F] [Mul F] [One F] (y : F) : List F → F
  | [] => 1
  | v :: vs => (v - y) * dad y vs

/-- ∏ `[v, -1]` starting from `[1]` (the inner `poly *= &[j, -1]` loops) -/
def linProd [Add F] [Mul F] [Zero F] [One F] [Neg F] : List F → List F
  | [] => [1]
  | v :: vs => polyMul (linProd vs) [v, -1]

/-- v_D loop of `create_coefficients` with its accumulators threaded: `c` = ∏(d+α)⁻¹ so far,
`P` = ∏ (d - x) so far -/
def vdGo [Add F] [Mul F] [Zero F] [One F] [Neg F] [Inv F] (α : F) : F → List F → List F → List F → List F
  | _, _, [], v => v
  | c, P, d :: ds, v =>
    let c' := c * (d + α)⁻¹
    vdGo α c' (polyMul P [d, -1]) ds (polyAdd v (polyScale c' P))

/-- v_A loop of `create_coefficients`: `c` = ∏ (a+α) over the elements already passed -/
def vaGo [Add F] [Mul F] [Zero F] [One F] [Neg F] (α : F) : F → List F → List F → List F
  | _, [], v => v
  | c, a :: as, v => vaGo α (c * (a + α)) as (polyAdd v (polyScale c (linProd as)))

/-- `SecretKey::create_coefficients` -/
def createCoefficients [Add F] [Sub F] [Mul F] [Zero F] [One F] [Neg F] [Inv F]
    (α : F) (adds dels : List F) : List F :=
  let vD := polyScale (batchAdd α adds) (vdGo α 1 [1] dels [])
  let vA := vaGo α 1 adds []
  polySub vA vD

/-- `Accumulator::update`: new value and the published coefficients `ωᵢ • V` -/
def accUpdate [Add F] [Sub F] [Mul F] [Zero F] [One F] [Neg F] [Inv F] [SMul F G]
    (α : F) (V : G) (adds dels : List F) : G × List G :=
  ((batchAdd α adds * batchDel α dels) • V, (createCoefficients α adds dels).map (· • V))

/-! ### witnesses -/

/-- `MembershipWitness::new` = `accumulator.remove(key, y)` -/
def mwNew [Add F] [Inv F] [SMul F G] (α y : F) (V : G) : G := (α + y)⁻¹ • V

structure Delta (F G : Type) where
  d : F
  p : G

/-- `evaluate_delta`: `none` stands for `Err` (the element was deleted, or no coefficients) -/
def evaluateDelta [Add F] [Sub F] [Mul F] [Zero F] [One F] [Inv F] [DecidableEq F]
    [Add G] [Zero G] [SMul F G]
    (y : F) (adds dels : List F) (coefs : List G) : Option (Delta F G) :=
  let dD := dad y dels
  if dD = 0 then none
  else
    let dDi := dD⁻¹
    match polyEvalG coefs y with
    | some v => some ⟨dad y adds * dDi, dDi • v⟩
    | none => none

/-- `MembershipWitness::apply_delta` -/
def mwApply [Add G] [SMul F G] (C : G) (δ : Delta F G) : G := δ.d • C + δ.p

/-- `MembershipWitness::batch_update`: unchanged when the delta cannot be evaluated -/
def mwBatchUpdate [Add F] [Sub F] [Mul F] [Zero F] [One F] [Inv F] [DecidableEq F]
    [Add G] [Zero G] [SMul F G]
    (C : G) (y : F) (adds dels : List F) (coefs : List G) : G :=
  match evaluateDelta y adds dels coefs with
  | some δ => mwApply C δ
  | none => C

/-- ∏ d_A(y) over the epochs of a multi-batch call -/
def prodA [Sub F] [Mul F] [One F] (y : F) : List (List F × List F × List G) → F
  | [] => 1
  | t :: r => dad y t.1 * prodA y r

/-- ∏ d_D(y) over the epochs -/
def prodD [Sub F] [Mul F] [One F] (y : F) : List (List F × List F × List G) → F
  | [] => 1
  | t :: r => dad y t.2.1 * prodD y r

/-- the summed coefficient polynomial of `evaluate_deltas`: epoch `i` contributes its coefficients
scaled by `(∏_{k>i} d_A,k(y)) · (∏_{h<i} d_D,h(y))`; `pre` carries the product over the earlier
epochs. (The Rust loop computes the two products by index with `take` / `skip` and adds the epochs
left to right; this is the same sum written by recursion on the list — the correspondence stream
`vb.mwmulti` / `vb.nmmulti` compares it with the real code for every contiguous grouping.) -/
def deltasPoly [Sub F] [Mul F] [One F] [Add G] [SMul F G] (y : F) : F → List (List F × List F × List G) → List G
  | _, [] => []
  | pre, t :: r => polyAddG (t.2.2.map ((prodA y r * pre) • ·)) (deltasPoly y (pre * dad y t.2.1) r)

/-- `evaluate_deltas` over a list of (additions, deletions, coefficients) -/
def evaluateDeltas [Add F] [Sub F] [Mul F] [Zero F] [One F] [Inv F] [DecidableEq F]
    [Add G] [Zero G] [SMul F G]
    (y : F) (deltas : List (List F × List F × List G)) : Option (Delta F G) :=
  let accD := prodD y deltas
  if accD = 0 then none
  else
    let accDi := accD⁻¹
    match polyEvalG (deltasPoly y 1 deltas) y with
    | some v => some ⟨prodA y deltas * accDi, accDi • v⟩
    | none => none

def mwMultiBatchUpdate [Add F] [Sub F] [Mul F] [Zero F] [One F] [Inv F] [DecidableEq F]
    [Add G] [Zero G] [SMul F G]
    (C : G) (y : F) (deltas : List (List F × List F × List G)) : G :=
  match evaluateDeltas y deltas with
  | some δ => mwApply C δ
  | none => C

/-- deletion loop of `MembershipWitness::update_assign`; `none` = early `return` (element removed) -/
def mwUpdateDels [Sub F] [Zero F] [Inv F] [DecidableEq F] [Sub G] [SMul F G]
    (y : F) (Vnew : G) : List F → G → Option G
  | [], C => some C
  | d :: ds, C =>
    if d - y = 0 then none
    else mwUpdateDels y Vnew ds ((d - y)⁻¹ • (C - Vnew))

def mwUpdateAdds [Sub F] [Add G] [SMul F G] (y : F) (Vold : G) : List F → G → G
  | [], C => C
  | a :: as, C => mwUpdateAdds y Vold as ((a - y) • C + Vold)

/-- `MembershipWitness::update` (single-step formulas). When a deletion equals `y` the function
returns early, keeping the partially updated value. -/
def mwUpdate [Sub F] [Zero F] [Inv F] [DecidableEq F] [Add G] [Sub G] [SMul F G]
    (C : G) (y : F) (Vold Vnew : G) (adds dels : List F) : G :=
  go y Vold Vnew adds dels C
where
  go (y : F) (Vold Vnew : G) (adds : List F) : List F → G → G
    | [], C => mwUpdateAdds y Vold adds C
    | d :: ds, C =>
      if d - y = 0 then C
      else go y Vold Vnew adds ds ((d - y)⁻¹ • (C - Vnew))

/-- `MembershipWitness::verify` in a group whose discrete logs are known is
`e(C, yP̃ + Q̃) = e(V, P̃)`; abstractly: `(y + α) • C = V` -/
def mwVerify [Add F] [SMul F G] [DecidableEq G] (α y : F) (C V : G) : Bool := (y + α) • C = V

/-! ### non-membership witnesses -/

structure NmWitness (F G : Type) where
  c : G
  d : F

/-- `NonMembershipWitness::new` with generator `P`: `none` when the value is a member -/
def nmNew [Add F] [Sub F] [Mul F] [One F] [Inv F] [DecidableEq F] [SMul F G]
    (α y : F) (elements : List F) (P : G) : Option (NmWitness F G) :=
  if elements.contains y then none
  else
    let fvα := elements.foldl (fun a e => a * (e + α)) 1
    let d := elements.foldl (fun a e => a * (e - y)) 1
    some ⟨((fvα - d) * (y + α)⁻¹) • P, d⟩

def nmApply [Mul F] [Add G] [SMul F G] (w : NmWitness F G) (δ : Delta F G) : NmWitness F G :=
  ⟨δ.d • w.c + δ.p, w.d * δ.d⟩

def nmBatchUpdate [Add F] [Sub F] [Mul F] [Zero F] [One F] [Inv F] [DecidableEq F]
    [Add G] [Zero G] [SMul F G]
    (w : NmWitness F G) (y : F) (adds dels : List F) (coefs : List G) : NmWitness F G :=
  match evaluateDelta y adds dels coefs with
  | some δ => nmApply w δ
  | none => w

def nmMultiBatchUpdate [Add F] [Sub F] [Mul F] [Zero F] [One F] [Inv F] [DecidableEq F]
    [Add G] [Zero G] [SMul F G]
    (w : NmWitness F G) (y : F) (deltas : List (List F × List F × List G)) : NmWitness F G :=
  match evaluateDeltas y deltas with
  | some δ => nmApply w δ
  | none => w

/-- `NonMembershipWitness::verify`: `e(C, yP̃+Q̃)·e(P,P̃)^d = e(V,P̃)`, abstractly `(y+α)•C + d•P = V` -/
def nmVerify [Add F] [Add G] [SMul F G] [DecidableEq G] (α y : F) (w : NmWitness F G) (P V : G) : Bool :=
  (y + α) • w.c + w.d • P = V

end AC.Vb20
