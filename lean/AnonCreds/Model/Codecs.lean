import AnonCreds.Model.Basic
/-
Model of the hand-written byte codecs (`to_bytes` / `from_bytes`) of keys and proofs, after the
repairs of finding F19. Fixed-width encodings of points and scalars (blstrs compressed points,
big-endian scalars) are parameters packaged as `Fixed`: an encoder of constant width with a decoder
that inverts it.
-/
namespace AC.Codecs

/-- a fixed-width codec (width `w`) for values of type `α` -/
structure Fixed (α : Type) (w : Nat) where
  enc : α → Bytes
  dec : Bytes → Option α
  width : ∀ a, (enc a).length = w
  roundtrip : ∀ a, dec (enc a) = some a

variable {α β γ : Type} {w w1 w2 : Nat}

/-- bounds-checked read of one value (the `take` cursor of the repaired decoders) -/
def read (c : Fixed α w) (b : Bytes) : Option (α × Bytes) :=
  if b.length < w then none
  else match c.dec (b.take w) with
    | some a => some (a, b.drop w)
    | none => none

/-- `n` values in a row -/
def readMany (c : Fixed α w) : Nat → Bytes → Option (List α × Bytes)
  | 0, b => some ([], b)
  | n + 1, b =>
    match read c b with
    | some (a, rest) =>
      (match readMany c n rest with
       | some (as, rest') => some (a :: as, rest')
       | none => none)
    | none => none

def writeMany (c : Fixed α w) (l : List α) : Bytes := l.flatMap c.enc

/-- 4-byte big-endian count -/
def u32be (n : Nat) : Bytes := toBE 4 n

def readCount (b : Bytes) : Option (Nat × Bytes) :=
  if b.length < 4 then none else some (beVal (b.take 4), b.drop 4)

/-! ### PS public key: `w x |y| y* |y_blinds| y_blinds*` -/

structure PsPk (G1 G2 : Type) where
  w : G2
  x : G2
  y : List G2
  yBlinds : List G1

def psPkEncode {G1 G2 : Type} (g1 : Fixed G1 48) (g2 : Fixed G2 96) (k : PsPk G1 G2) : Bytes :=
  g2.enc k.w ++ g2.enc k.x ++ u32be k.y.length ++ writeMany g2 k.y ++ u32be k.yBlinds.length
    ++ writeMany g1 k.yBlinds

/-- `ps::PublicKey::from_bytes` (repaired): cursor reads, and nothing may be left over -/
def psPkDecode {G1 G2 : Type} (g1 : Fixed G1 48) (g2 : Fixed G2 96) (b : Bytes) : Option (PsPk G1 G2) :=
  match read g2 b with
  | none => none
  | some (w, b) =>
  match read g2 b with
  | none => none
  | some (x, b) =>
  match readCount b with
  | none => none
  | some (ny, b) =>
  match readMany g2 ny b with
  | none => none
  | some (y, b) =>
  match readCount b with
  | none => none
  | some (nb, b) =>
    if b.length ≠ nb * 48 then none
    else match readMany g1 nb b with
      | some (yb, _) => some ⟨w, x, y, yb⟩
      | none => none

/-! ### proofs: fixed header of points, then a run of scalars whose count follows from the length -/

structure BbsPokBytes (G1 F : Type) where
  abar : G1
  bbar : G1
  t : G1
  proof : List F

def bbsPokEncode {G1 F : Type} (g1 : Fixed G1 48) (sc : Fixed F 32) (p : BbsPokBytes G1 F) : Bytes :=
  g1.enc p.abar ++ g1.enc p.bbar ++ g1.enc p.t ++ writeMany sc p.proof

/-- `bbs::PokSignatureProof::from_bytes` (repaired): at least two responses, response part a multiple of 32 -/
def bbsPokDecode {G1 F : Type} (g1 : Fixed G1 48) (sc : Fixed F 32) (b : Bytes) : Option (BbsPokBytes G1 F) :=
  if b.length < 32 * 2 + 48 * 3 then none
  else if (b.length - 48 * 3) % 32 ≠ 0 then none
  else
    let n := (b.length - 48 * 3) / 32
    match read g1 b with
    | none => none
    | some (abar, b) =>
    match read g1 b with
    | none => none
    | some (bbar, b) =>
    match read g1 b with
    | none => none
    | some (t, b) =>
    match readMany sc n b with
    | some (proof, _) => some ⟨abar, bbar, t, proof⟩
    | none => none

/-- the pinned length test of the BBS decoder: total length a multiple of 32 -/
def pinnedBbsLengthOk (len : Nat) : Bool := len % 32 == 0

/-- opaque instance used by the driver: a value *is* its `w` bytes (validity of the point / scalar
bytes themselves is blstrs', not modelled) -/
def raw (w : Nat) : Fixed { b : Bytes // b.length = w } w where
  enc := fun a => a.1
  dec := fun b => if h : b.length = w then some ⟨b, h⟩ else none
  width := fun a => a.2
  roundtrip := fun a => by simp [a.2]

/-- shape of a decoded PS public key: `(|y|, |y_blinds|)` -/
def psPkShape (b : Bytes) : Option (Nat × Nat) :=
  (psPkDecode (raw 48) (raw 96) b).map fun k => (k.y.length, k.yBlinds.length)

/-- number of responses of a decoded BBS proof -/
def bbsPokShape (b : Bytes) : Option Nat :=
  (bbsPokDecode (raw 48) (raw 32) b).map fun p => p.proof.length

end AC.Codecs
