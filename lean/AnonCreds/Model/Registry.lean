import AnonCreds.Model.Vb20
/-
Model of the issuer's revocation bookkeeping: `src/revocation_registry.rs` (revoke, add) and the
registry-touching parts of `src/issuer.rs` (sign_credential / blind_sign_credential: refuse revoked
identifiers, record the identifier after signing succeeded; update_revocation_handle; revoke_credentials).
`IndexSet` is an insertion-ordered duplicate-free list.
-/
namespace AC.Registry
open AC.Vb20
variable {F G : Type}

/-- `IndexSet::insert` -/
def insertIfAbsent (l : List String) (x : String) : List String := if x ∈ l then l else l ++ [x]

structure State (G : Type) where
  elements : List String
  active : List String
  value : G

inductive Op where
  /-- `sign_credential` / `blind_sign_credential` with acceptable claims and a valid request -/
  | issue (id : String)
  /-- an issuance attempt whose signing step fails (e.g. blind request with a bad proof) -/
  | issueFail (id : String)
  /-- `revoke_credentials` -/
  | revoke (ids : List String)
  /-- `update_revocation_handle` -/
  | refresh (id : String)
  /-- serialise the issuer and restore it -/
  | persist
  /-- `RevocationRegistry::add` called directly on the issuer's public registry field -/
  | add (ids : List String)
deriving Repr, DecidableEq

inductive Out (G : Type) where
  | handle (w : G)
  | done
  | err

def Out.isErr {G} : Out G → Bool
  | .err => true
  | _ => false

/-- "this claim is already revoked" test of both issuance paths -/
def alreadyRevoked (s : State G) (id : String) : Bool := !s.active.contains id && s.elements.contains id

/-- one iteration of `RevocationRegistry::add`: an identifier never seen before becomes an element and
active (`if self.elements.insert(e) { self.active.insert(e) }`); a known one — active or revoked — is left alone -/
def addOne (s : State G) (e : String) : State G :=
  if s.elements.contains e then s
  else { s with elements := s.elements ++ [e], active := insertIfAbsent s.active e }

def addAll (s : State G) (ids : List String) : State G := ids.foldl addOne s

def step [Add F] [Mul F] [One F] [Inv F] [SMul F G] (h : String → F) (α : F) (s : State G) :
    Op → State G × Out G
  | .issue id =>
    if alreadyRevoked s id then (s, .err)
    else
      ({ s with active := insertIfAbsent s.active id, elements := insertIfAbsent s.elements id },
       .handle (mwNew α (h id) s.value))
  | .issueFail _ => (s, .err)
  | .revoke ids =>
    if ids.all (s.active.contains ·) && ids.Nodup then
      ({ s with active := s.active.filter (!ids.contains ·),
                value := batchDel α (ids.map h) • s.value }, .done)
    else (s, .err)
  | .refresh id =>
    if s.active.contains id then (s, .handle (mwNew α (h id) s.value)) else (s, .err)
  | .persist => (s, .done)
  | .add ids => (addAll s ids, .done)

def run [Add F] [Mul F] [One F] [Inv F] [SMul F G] (h : String → F) (α : F) (s : State G) :
    List Op → State G
  | [] => s
  | op :: ops => run h α (step h α s op).1 ops

/-- the pinned `revoke` (finding F11, repaired): identifiers are removed one by one and an
unknown one aborts after the earlier removals, with the accumulator untouched -/
def pinnedRevoke [Add F] [Mul F] [One F] [Inv F] [SMul F G] (h : String → F) (α : F) (s : State G)
    (ids : List String) : State G × Out G :=
  go s ids
where
  go (cur : State G) : List String → State G × Out G
    | [] => ({ cur with value := batchDel α (ids.map h) • cur.value }, .done)
    | e :: es =>
      if cur.active.contains e then go { cur with active := cur.active.filter (· != e) } es
      else (cur, .err)

end AC.Registry
