import AnonCreds.Model.Claims
import AnonCreds.Model.Sigma
/-
Model of the decision logic of `Presentation::verify` (`src/presentation/verify.rs`): the dispatch of
(statement, proof) pairs, the disclosed-claims check, reference resolution of predicate statements, the
order "plan → challenge comparison → per-statement verifiers". Cryptographic sub-checks are
parameters (`Checks`): the model says *which* of them an accepted presentation has passed.
Maps (`IndexMap`, `BTreeSet`) are association lists / lists whose keys are unique after decoding.
-/
namespace AC.Verify

/-- `list.get_index_of(label)` -/
def indexOf? (labels : List String) (l : String) : Option Nat :=
  match labels.findIdx? (· == l) with
  | some i => some i
  | none => none

/-- a signature statement as the verifier sees it -/
structure SigStmt where
  id : String
  /-- requested labels (`BTreeSet`) -/
  disclosed : List String
  /-- issuer schema: labels in index order, and the claim type at each index -/
  labels : List String
  types : List ClaimType
deriving Repr, DecidableEq

/-- the signature proof's own index → scalar map (`IndexMap<usize, Scalar>`) -/
abbrev Inner (F : Type) := List (Nat × F)

/-- `check_disclosed_messages` (repair of finding F03): the reported claims are exactly the requested
labels known to the schema, have the schema's type, and the proof's map holds exactly their encodings
at the schema's indices -/
def checkDisclosed {F : Type} [DecidableEq F] (enc : ClaimData → F) (ss : SigStmt) (inner : Inner F)
    (reported : List (String × ClaimData)) : Bool :=
  reported.length == (ss.disclosed.filter (ss.labels.contains ·)).length
  && inner.length == reported.length
  && reported.all fun (l, c) =>
      ss.disclosed.contains l &&
      match indexOf? ss.labels l with
      | none => false
      | some i =>
        match ss.types[i]? with
        | none => false
        | some t => decide (c.type = t) && decide (inner.lookup i = some (enc c))

inductive Kind where
  | signature | revocation | equality | commitment | verenc | range | membership | ved
deriving Repr, DecidableEq

/-- a predicate statement: kind, id, the statement ids it references with claim indices -/
structure PredStmt where
  kind : Kind
  id : String
  refs : List (String × Nat)
deriving Repr, DecidableEq

inductive Stmt where
  | sig (s : SigStmt)
  | pred (p : PredStmt)
deriving Repr, DecidableEq

def Stmt.id : Stmt → String
  | .sig s => s.id
  | .pred p => p.id

/-- a proof as far as the dispatch is concerned: its variant, for signature proofs the inner map and
the set of hidden indices for which the index → response lookup returns a value -/
structure ProofM (F : Type) where
  kind : Kind
  /-- the `id` field carried inside the proof -/
  innerId : String
  inner : Inner F
  /-- `get_hidden_message_proofs` succeeded and contains these claim indices -/
  hiddenIdx : Option (List Nat)

structure Pres (F : Type) where
  proofs : List (String × ProofM F)
  disclosed : List (String × List (String × ClaimData))

/-- verdicts of the cryptographic sub-checks, supplied from outside the model -/
structure Checks where
  challengeOk : Bool
  /-- post-challenge verifier of the statement with this id (PoK pairing/commitment check,
  linkage `s_y = response`, bulletproofs, byte sum, equality of responses) -/
  stmtOk : String → Bool

inductive Verdict where
  | ok
  | errPlan (why : String)
  | errChallenge
  | errVerifier (id : String)
deriving Repr, DecidableEq

/-- resolve the hidden-message lookup of a predicate statement (`get_sig_hidden_message_proofs` +
`.get(&claim)`): the referenced id must carry a *signature* proof whose own id names a *signature*
statement, and the lookup must contain the claim index -/
def resolveRef {F : Type} (stmts : List Stmt) (p : Pres F) (ref : String) (claim : Nat) : Bool :=
  match p.proofs.lookup ref with
  | none => false
  | some pr =>
    pr.kind == .signature &&
    (match stmts.find? (·.id == pr.innerId) with
     | some (.sig _) => true
     | _ => false) &&
    (match pr.hiddenIdx with
     | some l => l.contains claim
     | none => false)

/-- plan stage for one signature statement -/
def planSig {F : Type} [DecidableEq F] (enc : ClaimData → F) (p : Pres F) (s : SigStmt) : Option String :=
  match p.proofs.lookup s.id with
  | none => some "signature proof missing"
  | some pr =>
    if pr.kind != .signature then some "proof of another type under a signature statement"
    else match p.disclosed.lookup s.id with
      | none => some "no disclosed messages"
      | some rep => if checkDisclosed enc s pr.inner rep then none else some "disclosed messages invalid"

/-- plan stage for one predicate statement -/
def planPred {F : Type} (stmts : List Stmt) (p : Pres F) (q : PredStmt) : Option String :=
  match p.proofs.lookup q.id with
  | none => some "unknown predicate statement / missing proof"
  | some pr =>
    if pr.kind != q.kind then some "proof variant does not match the statement"
    else match q.kind with
      | .equality => none            -- checked by its post-challenge verifier
      | .range =>
        -- the reference must be a commitment *statement* carrying a commitment *proof*
        (match q.refs with
         | (r, _) :: _ =>
           (match stmts.find? (·.id == r) with
            | some (.pred c) =>
              if c.kind != .commitment then some "range reference is not a commitment statement"
              else match p.proofs.lookup r with
                | some cp => if cp.kind == .commitment then none else some "range reference has no commitment proof"
                | none => some "range reference has no proof"
            | _ => some "range reference is not a commitment statement")
         | [] => some "range without reference")
      | .signature => some "signature kind among predicates"
      | _ =>
        (match q.refs with
         | (r, c) :: _ => if resolveRef stmts p r c then none else some "reference does not resolve"
         | [] => some "predicate without reference")

def firstSome {α β} (f : α → Option β) : List α → Option β
  | [] => none
  | a :: as => match f a with
    | some b => some b
    | none => firstSome f as

/-- everything `Presentation::verify` decides before the challenge is compared: every proof is stored
under the id it carries (repair of the proof-id finding), then signature statements, then predicates
in schema order -/
def planStage {F : Type} [DecidableEq F] (enc : ClaimData → F) (stmts : List Stmt) (p : Pres F) : Option String :=
  let sigs := stmts.filterMap fun | .sig s => some s | _ => none
  let preds := stmts.filterMap fun | .pred q => some q | _ => none
  if p.proofs.any (fun e => e.2.innerId != e.1) then some "proof stored under another id"
  else match firstSome (planSig enc p) sigs with
    | some why => some why
    | none => firstSome (planPred stmts p) preds

/-- `Presentation::verify`: the plan stage, then the challenge comparison, then every verifier -/
def verify {F : Type} [DecidableEq F] (enc : ClaimData → F) (stmts : List Stmt) (p : Pres F) (ck : Checks) : Verdict :=
  match planStage enc stmts p with
  | some why => .errPlan why
  | none =>
    if !ck.challengeOk then .errChallenge
    else match stmts.find? (fun s => !ck.stmtOk s.id) with
      | some s => .errVerifier s.id
      | none => .ok

/-- `EqualityVerifier::verify` once the responses of the referenced claims are collected: every
element equals the first; an empty list is an error -/
def allEqual {F : Type} [DecidableEq F] : List F → Bool
  | [] => false            -- "must have at least one claim in an equality proof"
  | p :: ps => ps.all (· == p)

/-- the response every predicate verifier links to: the caller sorts the proof's revealed indices,
walks them with `get_hidden_message_proofs` and picks the entry of the statement's claim index -/
def linkedResponse {F : Type} (n offset : Nat) (rvl : List Nat) (proof : List F) (claim : Nat) : Option F :=
  match AC.Sigma.hiddenProofs n offset (rvl.mergeSort (· ≤ ·)) proof with
  | some l => (l.find? (·.1 == claim)).map (·.2)
  | none => none

/-- `EqualityVerifier::verify`: the linked responses of all references exist and are equal -/
def equalityVerdict {F : Type} [DecidableEq F] (offset : Nat) (claim : Nat)
    (refs : List (Nat × List Nat × List F)) : Bool :=
  match refs.mapM (fun r => linkedResponse r.1 offset r.2.1 r.2.2 claim) with
  | some rs => allEqual rs
  | none => false

/-! ### order of the statement-id markers in the main transcript -/

/-- kinds whose builder / verifier opens its transcript contribution with a statement-id marker
(`append_message(b"", id)`) inside the predicate loop -/
def markerKind (k : Kind) : Bool := k == .commitment || k == .verenc || k == .ved

def predOf : Stmt → Option PredStmt
  | .pred q => some q
  | _ => none

/-- statement ids in the order `verify` appends statement-id markers: commitment, verifiable-encryption and
encrypt-and-decrypt statements in schema order, then (after the loop) the range statements -/
def verifyMarkers (stmts : List Stmt) : List String :=
  ((stmts.filterMap predOf).filter fun q => markerKind q.kind).map (·.id)
    ++ ((stmts.filterMap predOf).filter fun q => q.kind == .range).map (·.id)

end AC.Verify
