import AnonCreds.Model.Basic
/-
Executable instance of the scalar field: naturals modulo the BLS12-381 group order.
Only used by the driver (`Main.lean`); theorems are stated over an arbitrary field.
-/
namespace AC

structure Fr where
  val : Nat
deriving DecidableEq, Repr, Inhabited, BEq

namespace Fr
def ofNat (n : Nat) : Fr := ⟨n % rOrder⟩
instance : OfNat Fr n := ⟨ofNat n⟩
instance : Zero Fr := ⟨⟨0⟩⟩
instance : One Fr := ⟨⟨1⟩⟩
instance : Add Fr := ⟨fun a b => ⟨(a.val + b.val) % rOrder⟩⟩
instance : Mul Fr := ⟨fun a b => ⟨(a.val * b.val) % rOrder⟩⟩
instance : Neg Fr := ⟨fun a => ⟨(rOrder - a.val) % rOrder⟩⟩
instance : Sub Fr := ⟨fun a b => ⟨(a.val + (rOrder - b.val)) % rOrder⟩⟩

def powAux (fuel : Nat) (b : Fr) (e : Nat) (acc : Fr) : Fr :=
  match fuel with
  | 0 => acc
  | fuel + 1 =>
    if e = 0 then acc
    else powAux fuel (b * b) (e / 2) (if e % 2 = 1 then acc * b else acc)

def pow (b : Fr) (e : Nat) : Fr := powAux 260 b e 1

/-- inverse by Fermat; `0⁻¹ = 0` (callers that can hit zero model the `CtOption` check explicitly) -/
instance : Inv Fr := ⟨fun a => pow a (rOrder - 2)⟩
instance : Div Fr := ⟨fun a b => a * b⁻¹⟩
/-- scalar action of the field on itself: the discrete-log picture of a group with known generator -/
instance : SMul Fr Fr := ⟨fun a b => a * b⟩
end Fr

end AC
