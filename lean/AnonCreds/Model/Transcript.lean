import AnonCreds.Model.Claims
/-
Model of everything `Presentation::create` / `verify` absorb into the Fiat–Shamir transcript *before*
any proof material: curve parameters, nonce, `PresentationSchema::add_challenge_contribution`
(`src/presentation/schema.rs:44-56`), the eight `Statement::add_challenge_contribution`
implementations (`src/statement/*.rs`), `IssuerPublic::add_challenge_contribution`
(`src/issuer.rs:330-349`) and `CredentialSchema::add_challenge_contribution`
(`src/credential/schema.rs:81-127`). One `Item` per `append_message` call (merlin frames label and
length of every item). Keys and points are their byte encodings; strings their UTF-8 bytes.
What the code does not hash is not in the model's types: the per-claim schema entries (only their
count is hashed) and the distinction between an absent and an empty schema label / description.
-/
namespace AC.Transcript

structure Item where
  label : String
  data : Bytes
deriving Repr, DecidableEq

/-- `Uint::from(n).to_vec()` (uint-zigzag): LEB128 of the value as u128 -/
def uint (n : Nat) : Bytes := uvarint n

/-- `Uint::from(v : isize)`: the sign-extended 128-bit two's complement value -/
def uintI (v : Int) : Bytes := uvarint (v % (2 ^ 128 : Int)).toNat

def str (s : String) : Bytes := s.toUTF8.data.toList

/-- `append_u64`: 8 little-endian bytes -/
def u64le (n : Nat) : Bytes := toLE 8 n

structure CredSchemaT where
  id : Bytes
  /-- label / description with `None` already mapped to the empty string -/
  label : Bytes
  description : Bytes
  blindClaims : List Bytes
  claimIndices : List Bytes
  nClaims : Nat
deriving Repr, DecidableEq

structure IssuerT where
  id : Bytes
  verifyingKey : Bytes
  revocationKey : Bytes
  registry : Bytes
  encryptionKey : Bytes
  schema : CredSchemaT
deriving Repr, DecidableEq

inductive StmtT where
  | signature (id : Bytes) (disclosed : List Bytes) (issuer : IssuerT)
  | revocation (id ref : Bytes) (claim : Nat) (vk acc : Bytes)
  | membership (id ref : Bytes) (claim : Nat) (vk acc : Bytes)
  | equality (id : Bytes) (refs : List (Bytes × Nat))
  | commitment (id ref : Bytes) (claim : Nat) (mgen bgen : Bytes)
  | range (id ref sigId : Bytes) (claim : Nat) (lower upper : Option Int)
  | verenc (id : Bytes) (allow : Bool) (ref : Bytes) (claim : Nat) (mgen key : Bytes)
  | ved (id ref : Bytes) (claim : Nat) (mgen key : Bytes)
deriving Repr, DecidableEq

def indexed {α} (l : List α) : List (Nat × α) := l.zipIdx.map fun p => (p.2, p.1)

def credSchemaItems (s : CredSchemaT) : List Item :=
  [⟨"schema id length", uint s.id.length⟩, ⟨"schema id", s.id⟩,
   ⟨"schema label length", uint s.label.length⟩, ⟨"schema label", s.label⟩,
   ⟨"schema description length", uint s.description.length⟩, ⟨"schema description", s.description⟩,
   ⟨"blind claims length", uint s.blindClaims.length⟩]
  ++ s.blindClaims.flatMap (fun b => [⟨"blind claim", b⟩])
  ++ [⟨"claim indices length", uint s.claimIndices.length⟩]
  ++ (indexed s.claimIndices).flatMap (fun (i, l) =>
      [⟨"claim indices label length", uint l.length⟩, ⟨"claim indices label", l⟩,
       ⟨"claim indices index", uint i⟩])
  ++ [⟨"claims length", uint s.nClaims⟩]

def issuerItems (i : IssuerT) : List Item :=
  [⟨"issuer id", i.id⟩, ⟨"issuer verifying key", i.verifyingKey⟩,
   ⟨"issuer revocation verifying key", i.revocationKey⟩, ⟨"issuer revocation registry", i.registry⟩,
   ⟨"issuer verifiable encryption key", i.encryptionKey⟩] ++ credSchemaItems i.schema

def stmtItems : StmtT → List Item
  | .signature id disclosed issuer =>
    [⟨"statement type", str "ps signature"⟩, ⟨"statement id", id⟩,
     ⟨"disclosed message length", uint disclosed.length⟩]
    ++ (indexed disclosed).flatMap (fun (i, d) =>
        [⟨"disclosed message label index", uint i⟩, ⟨"disclosed message label", d⟩])
    ++ issuerItems issuer
  | .revocation id ref claim vk acc =>
    [⟨"statement type", str "vb20 set membership revocation"⟩, ⟨"statement id", id⟩,
     ⟨"reference statement id", ref⟩, ⟨"claim index", uint claim⟩, ⟨"verification key", vk⟩,
     ⟨"accumulator", acc⟩]
  | .membership id ref claim vk acc =>
    [⟨"statement type", str "vb20 set membership"⟩, ⟨"statement id", id⟩,
     ⟨"reference statement id", ref⟩, ⟨"claim index", uint claim⟩, ⟨"verification key", vk⟩,
     ⟨"accumulator", acc⟩]
  | .equality id refs =>
    [⟨"statement type", str "equality"⟩, ⟨"statement id", id⟩,
     ⟨"reference statement ids to claim index length", uint refs.length⟩]
    ++ refs.flatMap (fun (r, i) =>
        [⟨"reference statement id", r⟩, ⟨"reference statement claim index", uint i⟩])
  | .commitment id ref claim mgen bgen =>
    [⟨"statement type", str "commitment"⟩, ⟨"statement id", id⟩, ⟨"reference statement id", ref⟩,
     ⟨"claim index", uint claim⟩, ⟨"message generator", mgen⟩, ⟨"blinder generator", bgen⟩]
  | .range id ref sigId claim lower upper =>
    [⟨"statement type", str "range proof"⟩, ⟨"statement id", id⟩,
     ⟨"reference commitment statement id", ref⟩, ⟨"reference signature statement id", sigId⟩,
     ⟨"claim index", uint claim⟩]
    ++ (match lower with
        | none => [⟨"lower version", [0]⟩]
        | some l => [⟨"lower version", [1]⟩, ⟨"lower", uintI l⟩])
    ++ (match upper with
        | none => [⟨"upper version", [0]⟩]
        | some u => [⟨"upper version", [1]⟩, ⟨"upper", uintI u⟩])
  | .verenc id allow ref claim mgen key =>
    [⟨"statement type", str "el-gamal verifiable encryption"⟩, ⟨"statement id", id⟩,
     ⟨"allow message decryption", u64le (if allow then 1 else 0)⟩, ⟨"reference statement id", ref⟩,
     ⟨"claim index", uint claim⟩, ⟨"message generator", mgen⟩, ⟨"encryption key", key⟩]
  | .ved id ref claim mgen key =>
    [⟨"statement type", str "el-gamal verifiable encryption w/decryption"⟩, ⟨"statement id", id⟩,
     ⟨"reference statement id", ref⟩, ⟨"claim index", uint claim⟩, ⟨"message generator", mgen⟩,
     ⟨"encryption key", key⟩]

/-- the fixed preamble (`add_curve_parameters_challenge_contribution`); the generator encodings
are parameters, the two moduli are literal -/
def curveItems (g1 g2 : Bytes) : List Item :=
  [⟨"curve name", str "BLS12-381"⟩, ⟨"curve G1 generator", g1⟩, ⟨"curve G2 generator", g2⟩,
   ⟨"subgroup size", toBE 32 rOrder⟩,
   ⟨"field modulus", toBE 48 0x1a0111ea397fe69a4b1ba7b6434bacd764774b84f38512bf6730d2a0f6b0f6241eabfffeb153ffffb9feffffffffaaab⟩]

/-- `PresentationSchema::add_challenge_contribution`; statements as (map key, statement) in order -/
def schemaItems (schemaId : Bytes) (stmts : List (Bytes × StmtT)) : List Item :=
  [⟨"presentation schema id", schemaId⟩, ⟨"presentation statement length", uint stmts.length⟩]
  ++ stmts.flatMap (fun (k, s) => ⟨"presentation statement id", k⟩ :: stmtItems s)

/-- everything hashed before proof material, in order -/
def publicItems (g1 g2 : Bytes) (nonce schemaId : Bytes) (stmts : List (Bytes × StmtT)) : List Item :=
  curveItems g1 g2 ++ [⟨"nonce", nonce⟩] ++ schemaItems schemaId stmts

end AC.Transcript
