/-
Shared definitions of the executable model (core Lean only — no Mathlib, so that the
line-protocol driver links as a `lean_exe`).
-/
namespace AC

/-- Result of a partial Rust function: `ok`, a returned `Err(_)`, or a panic (unwinding /
abort). Error *messages* are not modelled; the panic site is kept as a short tag. -/
inductive Outcome (α : Type) where
  | ok (a : α)
  | err
  | panic (site : String)
deriving Repr, DecidableEq, Inhabited

namespace Outcome
def isOk {α} : Outcome α → Bool
  | ok _ => true
  | _ => false
def isPanic {α} : Outcome α → Bool
  | panic _ => true
  | _ => false
def map {α β} (f : α → β) : Outcome α → Outcome β
  | ok a => ok (f a)
  | err => err
  | panic s => panic s
def bind {α β} (o : Outcome α) (f : α → Outcome β) : Outcome β :=
  match o with
  | ok a => f a
  | err => err
  | panic s => panic s
instance : Monad Outcome where
  pure := ok
  bind := bind
end Outcome

abbrev Bytes := List UInt8

/-- order of the BLS12-381 scalar field -/
def rOrder : Nat := 0x73eda753299d7d483339d80809a1d80553bda402fffe5bfeffffffff00000001

/-! ### hex (the `hex` crate: `encode` is lower-case, `decode` accepts both cases and
requires an even number of digits) -/

def hexDigit (n : Nat) : Char :=
  if n < 10 then Char.ofNat (48 + n) else Char.ofNat (87 + n)

def hexVal? (c : Char) : Option Nat :=
  if '0' ≤ c ∧ c ≤ '9' then some (c.toNat - 48)
  else if 'a' ≤ c ∧ c ≤ 'f' then some (c.toNat - 87)
  else if 'A' ≤ c ∧ c ≤ 'F' then some (c.toNat - 55)
  else none

def hexEncode (b : Bytes) : List Char :=
  b.flatMap fun x => [hexDigit (x.toNat / 16), hexDigit (x.toNat % 16)]

def hexDecode? : List Char → Option Bytes
  | [] => some []
  | [_] => none
  | a :: b :: rest =>
    match hexVal? a, hexVal? b, hexDecode? rest with
    | some x, some y, some r => some (UInt8.ofNat (x * 16 + y) :: r)
    | _, _, _ => none

/-! ### big/little endian -/

/-- big-endian value of a byte string -/
def beVal (b : Bytes) : Nat := b.foldl (fun acc x => acc * 256 + x.toNat) 0

/-- little-endian value of a byte string -/
def leVal : Bytes → Nat
  | [] => 0
  | x :: xs => x.toNat + 256 * leVal xs

/-- `n` as exactly `len` little-endian bytes (truncating) -/
def toLE : Nat → Nat → Bytes
  | 0, _ => []
  | len + 1, n => UInt8.ofNat (n % 256) :: toLE len (n / 256)

/-- `n` as exactly `len` big-endian bytes (truncating) -/
def toBE (len n : Nat) : Bytes := (toLE len n).reverse

end AC
