import AnonCreds.Model.Wire
import AnonCreds.Model.Fr
import AnonCreds.Model.Vb20
import AnonCreds.Model.Registry
import AnonCreds.Model.Sigma
import AnonCreds.Model.Verify
import AnonCreds.Model.Transcript
import AnonCreds.Model.Range
import AnonCreds.Model.Issue
import AnonCreds.Model.Codecs
import AnonCreds.Model.Membership
import AnonCreds.Model.Create
import AnonCreds.Proofs.CreatePlan
import AnonCreds.Model.Lin
/-
Line-protocol driver: one request per line on stdin, one reply per line on stdout.
Unknown or malformed requests answer `bad-op` (never a default value).
-/
open AC AC.Wire

def claimsOp (toks : List String) : Option String :=
  match toks with
  | ["zc", v] => (intOf? v).map fun v => toString (zeroCenter v)
  | ["num2s", v] => (intOf? v).map fun v => scalarHex (numberToScalar v)
  | ["s2num", s] => (scalarOf? s).map fun s => toString (numberFromScalar s)
  | ["encb", b] => (bytesOf? b).map fun b => showOutcome scalarHex (encodeBytes b)
  | ["decb", s] => (scalarOf? s).map fun s => showOutcome hexOf (decodeToBytes s)
  | ["decs", s] => (scalarOf? s).map fun s => showOutcome hexOf (decodeToStr s)
  | ["totext", c] => (claimOf? c).map fun c => showOutcome hexOf c.toText
  | ["fromtext", b] => (bytesOf? b).map fun b => showOutcome claimStr (ClaimData.fromText true b)
  | ["tobytes", c] => (claimOf? c).map fun c => hexOf c.toBytes
  | ["frombytes", t, b] =>
    match typeOf? t, bytesOf? b with
    | some t, some b => some (showOutcome claimStr (ClaimData.fromBytes true t b))
    | _, _ => none
  | ["prehash", c] => (claimOf? c).map fun c =>
    match c with
    | .hashed .. | .enumeration .. | .revocation .. => "@shake(" ++ hexOf (c.preHash.getD []) ++ ")"
    | .number v => scalarHex (numberToScalar v)
    | .scalar s => scalarHex s
  | ["utf8", b] => (bytesOf? b).map fun b => toString (utf8Valid b)
  | _ => none

/-- one `adds;dels;coefs` group of a multi-batch update -/
def deltaOf? (s : String) : Option (List Fr × List Fr × List Fr) :=
  match s.splitOn ";" with
  | [a, d, c] =>
    match listOf? frOf? a, listOf? frOf? d, listOf? frOf? c with
    | some a, some d, some c => some (a, d, c)
    | _, _, _ => none
  | _ => none

/-- VB20 accumulator ops; group elements are given by their discrete logs w.r.t. the G1 generator -/
def vbOp (toks : List String) : Option String :=
  open AC.Vb20 in
  match toks with
  | ["vb.coef", α, adds, dels] =>
    match frOf? α, listOf? frOf? adds, listOf? frOf? dels with
    | some α, some adds, some dels => some (showList frHex (createCoefficients α adds dels))
    | _, _, _ => none
  | ["vb.accupd", α, v, adds, dels] =>
    match frOf? α, frOf? v, listOf? frOf? adds, listOf? frOf? dels with
    | some α, some v, some adds, some dels =>
      let (v', cs) := accUpdate (G := Fr) α v adds dels
      some (g1Tok v' ++ " " ++ showList g1Tok cs)
    | _, _, _, _ => none
  | ["vb.mwnew", α, y, v] =>
    match frOf? α, frOf? y, frOf? v with
    | some α, some y, some v => some (g1Tok (mwNew (G := Fr) α y v))
    | _, _, _ => none
  | ["vb.mwbatch", c, y, adds, dels, coefs] =>
    match frOf? c, frOf? y, listOf? frOf? adds, listOf? frOf? dels, listOf? frOf? coefs with
    | some c, some y, some adds, some dels, some coefs => some (g1Tok (mwBatchUpdate (G := Fr) c y adds dels coefs))
    | _, _, _, _, _ => none
  | "vb.mwmulti" :: c :: y :: deltas =>
    match frOf? c, frOf? y, deltas.mapM deltaOf? with
    | some c, some y, some ds => some (g1Tok (mwMultiBatchUpdate (G := Fr) c y ds))
    | _, _, _ => none
  | ["vb.mwupdate", c, y, vold, vnew, adds, dels] =>
    match frOf? c, frOf? y, frOf? vold, frOf? vnew, listOf? frOf? adds, listOf? frOf? dels with
    | some c, some y, some vo, some vn, some adds, some dels => some (g1Tok (mwUpdate (G := Fr) c y vo vn adds dels))
    | _, _, _, _, _, _ => none
  | ["vb.mwverify", α, y, c, v] =>
    match frOf? α, frOf? y, frOf? c, frOf? v with
    | some α, some y, some c, some v => some (toString (mwVerify (G := Fr) α y c v))
    | _, _, _, _ => none
  | ["vb.nmnew", α, y, elems] =>
    match frOf? α, frOf? y, listOf? frOf? elems with
    | some α, some y, some es =>
      match nmNew (G := Fr) α y es 1 with
      | some w => some (g1Tok w.c ++ " " ++ frHex w.d)
      | none => some "none"
    | _, _, _ => none
  | ["vb.nmbatch", c, d, y, adds, dels, coefs] =>
    match frOf? c, frOf? d, frOf? y, listOf? frOf? adds, listOf? frOf? dels, listOf? frOf? coefs with
    | some c, some d, some y, some adds, some dels, some coefs =>
      let w := nmBatchUpdate (G := Fr) ⟨c, d⟩ y adds dels coefs
      some (g1Tok w.c ++ " " ++ frHex w.d)
    | _, _, _, _, _, _ => none
  | "vb.nmmulti" :: c :: d :: y :: deltas =>
    match frOf? c, frOf? d, frOf? y, deltas.mapM deltaOf? with
    | some c, some d, some y, some ds =>
      let w := nmMultiBatchUpdate (G := Fr) ⟨c, d⟩ y ds
      some (g1Tok w.c ++ " " ++ frHex w.d)
    | _, _, _, _ => none
  | ["vb.nmverify", α, y, c, d, v] =>
    match frOf? α, frOf? y, frOf? c, frOf? d, frOf? v with
    | some α, some y, some c, some d, some v => some (toString (nmVerify (G := Fr) α y ⟨c, d⟩ 1 v))
    | _, _, _, _, _ => none
  | _ => none

/-- `idx:scalar;idx:scalar` revealed list, `-` empty -/
def rvlOf? (s : String) : Option (List (Nat × Fr)) :=
  if s = "-" then some [] else (s.splitOn ";").mapM fun e =>
    match e.splitOn ":" with
    | [i, m] => match i.toNat?, frOf? m with
      | some i, some m => some (i, m)
      | _, _ => none
    | _ => none

def natsOf? (s : String) : Option (List Nat) := listOf? (·.toNat?) s

/-- signature proofs of knowledge in discrete-log space (G1 = G2 = Fr, generator 1) -/
def sigmaOp (toks : List String) : Option String :=
  open AC.Sigma in
  match toks with
  | ["bbs.verify", x, ys, rvl, c, abar, bbar, t, proof] =>
    match frOf? x, listOf? frOf? ys, rvlOf? rvl, frOf? c, frOf? abar, frOf? bbar, frOf? t, listOf? frOf? proof with
    | some x, some ys, some rvl, some c, some abar, some bbar, some t, some proof =>
      let π : BbsPok Fr Fr := ⟨abar, bbar, t, proof⟩
      some (toString (bbsVerify (G := Fr) 1 ys rvl c π (decide (bbar = x * abar))))
    | _, _, _, _, _, _, _, _ => none
  | ["bbs.recommit", ys, rvl, c, abar, bbar, proof] =>
    match listOf? frOf? ys, rvlOf? rvl, frOf? c, frOf? abar, frOf? bbar, listOf? frOf? proof with
    | some ys, some rvl, some c, some abar, some bbar, some proof =>
      some (g1Tok (bbsRecommit (G := Fr) 1 ys rvl c ⟨abar, bbar, 0, proof⟩))
    | _, _, _, _, _, _ => none
  | ["pok.hidden", n, offset, rvl, proof] =>
    match n.toNat?, offset.toNat?, natsOf? rvl, listOf? frOf? proof with
    | some n, some off, some rvl, some proof =>
      match hiddenProofs n off rvl proof with
      | some l => some ("ok " ++ showList (fun (p : Nat × Fr) => s!"{p.1}:{frHex p.2}") l)
      | none => some "err"
    | _, _, _, _ => none
  | ["ps.recommit", w, ys, known, c, J, proof] =>
    match frOf? w, listOf? frOf? ys, natsOf? known, frOf? c, frOf? J, listOf? frOf? proof with
    | some w, some ys, some known, some c, some J, some proof =>
      some ("@g2(" ++ frHex (psRecommit (G := Fr) (G1 := Fr) 1 w ys known c ⟨0, 0, J, proof⟩) ++ ")")
    | _, _, _, _, _, _ => none
  | ["ps.verify", x, ys, rvl, s1, s2, J, proof] =>
    match frOf? x, listOf? frOf? ys, rvlOf? rvl, frOf? s1, frOf? s2, frOf? J, listOf? frOf? proof with
    | some x, some ys, some rvl, some s1, some s2, some J, some proof =>
      let π : PsPok Fr Fr Fr := ⟨s1, s2, J, proof⟩
      some (toString (psVerify (G := Fr) ys rvl π (decide (s1 * psJ x ys rvl π = s2))))
    | _, _, _, _, _, _, _ => none
  | _ => none

/-- `label~claim~scalar;…` reported map with the encoding of each claim -/
def reportedOf? (s : String) : Option (List (String × ClaimData × Fr)) :=
  if s = "-" then some [] else (s.splitOn ";").mapM fun e =>
    match e.splitOn "~" with
    | [l, c, x] => match claimOf? c, frOf? x with
      | some c, some x => some (l, c, x)
      | _, _ => none
    | _ => none

def strsOf (s : String) : List String := if s = "-" then [] else s.splitOn ","

/-- decision logic of `Presentation::verify` (C01, C02) -/
def verifyOp (toks : List String) : Option String :=
  open AC.Verify in
  match toks with
  | ["pred.linked", n, offset, rvl, proof, claim] =>
    match n.toNat?, offset.toNat?, natsOf? rvl, listOf? frOf? proof, claim.toNat? with
    | some n, some off, some rvl, some proof, some claim =>
      some (match linkedResponse n off rvl proof claim with
        | some r => "ok " ++ frHex r
        | none => "err")
    | _, _, _, _, _ => none
  | "eq.verdict" :: offset :: claim :: refs =>
    let ref? : String → Option (Nat × List Nat × List Fr) := fun tok =>
      match tok.splitOn "|" with
      | [n, rvl, proof] =>
        match n.toNat?, natsOf? rvl, listOf? frOf? proof with
        | some n, some rvl, some proof => some (n, rvl, proof)
        | _, _, _ => none
      | _ => none
    match offset.toNat?, claim.toNat?, refs.mapM ref? with
    | some off, some claim, some refs => some (toString (equalityVerdict off claim refs))
    | _, _, _ => none
  | ["ve.scalar", bytes] =>
    -- `decrypt_scalar` after the byte search: the big-endian value of the 32 recovered bytes, reduced mod r
    (bytesOf? bytes).map fun b => frHex (Fr.ofNat (beVal b))
  | ["eq.check", rs] =>
    (listOf? frOf? rs).map fun rs => toString (allEqual rs)
  | ["vf.disclosed", req, labels, types, rep, inner] =>
    match (strsOf types).mapM typeOf?, reportedOf? rep, rvlOf? inner with
    | some types, some rep, some inner =>
      let enc : ClaimData → Fr := fun c => ((rep.find? (fun e => e.2.1 == c)).map (·.2.2)).getD 0
      some (toString (checkDisclosed enc ⟨"", strsOf req, strsOf labels, types⟩ inner (rep.map fun e => (e.1, e.2.1))))
    | _, _, _ => none
  | _ => none

/-- statement token of `tr.public` (see DESIGN.md appendix B) -/
def stmtOf? (tok : String) : Option (Bytes × AC.Transcript.StmtT) :=
  open AC.Transcript in
  let b := bytesOf?
  let bl := listOf? bytesOf?
  let optInt : String → Option (Option Int) := fun s => if s = "-" then some none else (s.toInt?).map some
  match tok.splitOn "|" with
  | [k, "sig", id, d, iid, vk, rvk, reg, vek, sid, sl, sd, bc, ci, nc] =>
    match b k, b id, bl d, b iid, b vk, b rvk, b reg, b vek, b sid, b sl, b sd, bl bc, bl ci, nc.toNat? with
    | some k, some id, some d, some iid, some vk, some rvk, some reg, some vek, some sid, some sl, some sd, some bc, some ci, some nc =>
      some (k, .signature id d ⟨iid, vk, rvk, reg, vek, ⟨sid, sl, sd, bc, ci, nc⟩⟩)
    | _, _, _, _, _, _, _, _, _, _, _, _, _, _ => none
  | [k, "rev", id, r, c, vk, acc] =>
    match b k, b id, b r, c.toNat?, b vk, b acc with
    | some k, some id, some r, some c, some vk, some acc => some (k, .revocation id r c vk acc)
    | _, _, _, _, _, _ => none
  | [k, "mem", id, r, c, vk, acc] =>
    match b k, b id, b r, c.toNat?, b vk, b acc with
    | some k, some id, some r, some c, some vk, some acc => some (k, .membership id r c vk acc)
    | _, _, _, _, _, _ => none
  | [k, "eq", id, refs] =>
    let rs : Option (List (Bytes × Nat)) := if refs = "-" then some [] else (refs.splitOn ",").mapM fun e =>
      match e.splitOn ":" with
      | [r, i] => match b r, i.toNat? with
        | some r, some i => some (r, i)
        | _, _ => none
      | _ => none
    match b k, b id, rs with
    | some k, some id, some rs => some (k, .equality id rs)
    | _, _, _ => none
  | [k, "com", id, r, c, mg, bg] =>
    match b k, b id, b r, c.toNat?, b mg, b bg with
    | some k, some id, some r, some c, some mg, some bg => some (k, .commitment id r c mg bg)
    | _, _, _, _, _, _ => none
  | [k, "rng", id, r, sg, c, lo, hi] =>
    match b k, b id, b r, b sg, c.toNat?, optInt lo, optInt hi with
    | some k, some id, some r, some sg, some c, some lo, some hi => some (k, .range id r sg c lo hi)
    | _, _, _, _, _, _, _ => none
  | [k, "ve", id, al, r, c, mg, key] =>
    match b k, b id, b r, c.toNat?, b mg, b key with
    | some k, some id, some r, some c, some mg, some key => some (k, .verenc id (al = "1") r c mg key)
    | _, _, _, _, _, _ => none
  | [k, "ved", id, r, c, mg, key] =>
    match b k, b id, b r, c.toNat?, b mg, b key with
    | some k, some id, some r, some c, some mg, some key => some (k, .ved id r c mg key)
    | _, _, _, _, _, _ => none
  | _ => none

def itemStr (i : AC.Transcript.Item) : String := hexOf (AC.Transcript.str i.label) ++ ":" ++ hexOf i.data

/-- Fiat–Shamir transcript, public part (C04) -/
def transcriptOp (toks : List String) : Option String :=
  match toks with
  | "tr.public" :: g1 :: g2 :: nonce :: sid :: stmts =>
    match bytesOf? g1, bytesOf? g2, bytesOf? nonce, bytesOf? sid, stmts.mapM stmtOf? with
    | some g1, some g2, some nonce, some sid, some stmts =>
      some (" ".intercalate ((AC.Transcript.publicItems g1 g2 nonce sid stmts).map itemStr))
    | _, _, _, _, _ => none
  | _ => none

/-- range statements (C08): `rg.check v lo up` with `-` for a missing bound -/
def rangeOp (toks : List String) : Option String :=
  open AC.Range in
  let optInt : String → Option (Option Int) := fun s => if s = "-" then some none else (s.toInt?).map some
  match toks with
  | ["rg.check", v, lo, up] =>
    match v.toInt?, optInt lo, optInt up with
    | some v, some lo, some up =>
      let acc := proverAccepts v lo up
      let sat := verifierSatisfiable rOrder v lo up
      some (s!"create={if acc then "ok" else "err"} verify={if acc then (if sat then "ok" else "err") else "-"} satisfiable={sat}")
    | _, _, _ => none
  | ["rg.adjusted", v, lo, up] =>
    match v.toInt?, lo.toInt?, up.toInt? with
    | some v, some lo, some up => some s!"{adjustedLower v lo} {adjustedUpper v up}"
    | _, _, _ => none
  | _ => none

/-- validator token: `L.min.max`, `R.min.max` (`_` = absent), `X.<0|1>` (regex verdict), `A.claim!claim…` -/
def validatorOf? (tok : String) : Option AC.Issue.Validator :=
  let optNat : String → Option (Option Nat) := fun s => if s = "_" then some none else (s.toNat?).map some
  let optInt : String → Option (Option Int) := fun s => if s = "_" then some none else (s.toInt?).map some
  match tok.splitOn "." with
  | ["L", a, b] => match optNat a, optNat b with
    | some a, some b => some (.length a b)
    | _, _ => none
  | ["R", a, b] => match optInt a, optInt b with
    | some a, some b => some (.range a b)
    | _, _ => none
  | ["X", m] => some (.regex (m = "1"))
  | ["A", cs] => (if cs = "" then some [] else (cs.splitOn "!").mapM claimOf?).map .anyOne
  | _ => none

/-- issuance (C15): `is.sign <revoked 0|1> <type~validators;…> <claim;…>` -/
def issueOp (toks : List String) : Option String :=
  match toks with
  | ["is.sign", rev, schema, claims] =>
    let entries : Option (List AC.Issue.ClaimSchemaM) := if schema = "-" then some [] else (schema.splitOn ";").mapM fun e =>
      match e.splitOn "~" with
      | [t, vs] => match typeOf? t, (if vs = "-" then some [] else (vs.splitOn ",").mapM validatorOf?) with
        | some t, some vs => some ⟨t, vs⟩
        | _, _ => none
      | _ => none
    let cl : Option (List ClaimData) := if claims = "-" then some [] else (claims.splitOn ";").mapM claimOf?
    match entries, cl with
    | some entries, some cl => some (if (AC.Issue.signAccepts entries (fun _ => rev = "1") cl).isSome then "ok" else "err")
    | _, _ => none
  | _ => none

/-! ### stateful part: issuer registry (C13, C06) -/

structure RegD where
  alpha : Fr := 0
  v0 : String := ""
  ids : List (String × Fr) := []
  st : AC.Registry.State Fr := ⟨[], [], 1⟩
  /-- every handle issued or refreshed so far: (identifier, discrete log w.r.t. V0) -/
  handles : List (String × Fr) := []

structure DState where
  reg : RegD := {}
  stack : List RegD := []

def RegD.h (r : RegD) (id : String) : Fr := (r.ids.lookup id).getD 0

def v0Tok (r : RegD) (x : Fr) : String := "@g1mul(" ++ r.v0 ++ "," ++ frHex x ++ ")"

def regStep (d : DState) (op : AC.Registry.Op) : DState × String :=
  let r := d.reg
  let (st', out) := AC.Registry.step (G := Fr) r.h r.alpha r.st op
  match out with
  | .handle w =>
    let id := match op with
      | .issue id => id
      | .refresh id => id
      | _ => ""
    ({ d with reg := { r with st := st', handles := r.handles ++ [(id, w)] } }, "ok " ++ v0Tok r w)
  | .done => ({ d with reg := { r with st := st' } }, "ok")
  | .err => ({ d with reg := { r with st := st' } }, "err")

def regOp (d : DState) (toks : List String) : Option (DState × String) :=
  match toks with
  | ["reg.new", α, v0] => (frOf? α).map fun α => ({ d with reg := { alpha := α, v0 := v0 } }, "ok")
  | ["reg.id", name, hsc] => (frOf? hsc).map fun x => ({ d with reg := { d.reg with ids := (name, x) :: d.reg.ids } }, "ok")
  | ["reg.push"] => some ({ d with stack := d.reg :: d.stack }, "ok")
  | ["reg.pop"] =>
    match d.stack with
    | r :: rest => some ({ reg := r, stack := rest }, "ok")
    | [] => none
  | ["reg.issue", id] => some (regStep d (.issue id))
  | ["reg.failissue", id] => some (regStep d (.issueFail id))
  | ["reg.revoke", ids] => (listOf? some ids).map fun ids => regStep d (.revoke ids)
  | ["reg.refresh", id] => some (regStep d (.refresh id))
  | ["reg.add", ids] => (listOf? some ids).map fun ids => regStep d (.add ids)
  | ["reg.persist"] => some (regStep d .persist)
  | ["reg.state"] =>
    let r := d.reg
    some (d, s!"E={showList id r.st.elements} A={showList id r.st.active} V={v0Tok r r.st.value}")
  | ["reg.verify", k] =>
    match k.toNat? with
    | some k =>
      match d.reg.handles[k]? with
      | some (id, c) => some (d, toString (AC.Vb20.mwVerify (G := Fr) d.reg.alpha (d.reg.h id) c d.reg.st.value))
      | none => none
    | none => none
  | _ => none

def codecOp (toks : List String) : Option String :=
  match toks with
  | ["cd.pspk", b] => (bytesOf? b).map fun b =>
      match AC.Codecs.psPkShape b with
      | some (ny, nb) => s!"ok {ny} {nb}"
      | none => "err"
  | ["cd.bbspok", b] => (bytesOf? b).map fun b =>
      match AC.Codecs.bbsPokShape b with
      | some n => s!"ok {n}"
      | none => "err"
  | _ => none

/-- membership proof in coordinates over the bases `[V₀, X, Y, Z]` given (as compressed points) in the request -/
def membershipOp (toks : List String) : Option String :=
  open AC.Membership in
  let v4? : String → Option V4 := fun s =>
    match listOf? frOf? s with
    | some [a, b, c, d] => some ⟨a, b, c, d⟩
    | _ => none
  let lin : List String → V4 → String := fun bs v =>
    match bs with
    | [b0, b1, b2, b3] => s!"{b0}:{frHex v.a};{b1}:{frHex v.b};{b2}:{frHex v.c};{b3}:{frHex v.d}"
    | _ => "?"
  let g1 := fun bs v => "@lin(" ++ lin bs v ++ ")"
  let gt := fun bs v => "@gtlin(" ++ lin bs v ++ ")"
  let showC := fun bs (m : Commitments V4) =>
    " ".intercalate [gt bs m.rE, g1 bs m.rSigma, g1 bs m.rRho, g1 bs m.rDeltaSigma, g1 bs m.rDeltaRho]
  match toks with
  | ["mp.prove", b0, b1, b2, b3, alpha, y, cw, coins, c] =>
    match frOf? alpha, frOf? y, v4? cw, listOf? frOf? coins, frOf? c with
    | some alpha, some y, some cw, some [sg, rh, ry, rs, rr, rds, rdr], some c =>
      let bs := [b0, b1, b2, b3]
      let k : Coins Fr := ⟨sg, rh, ry, rs, rr, rds, rdr⟩
      let p := genProof stdParams y cw k c
      let cm := (commit stdParams alpha cw k).2.2.2
      some (" ".intercalate [g1 bs p.ec, g1 bs p.tSigma, g1 bs p.tRho, frHex p.sSigma, frHex p.sRho,
        frHex p.sDeltaSigma, frHex p.sDeltaRho, frHex p.sY, showC bs cm])
    | _, _, _, _, _ => none
  | ["mp.accepts", alpha, y, cw, v, coins, c] =>
    match frOf? alpha, frOf? y, v4? cw, v4? v, listOf? frOf? coins, frOf? c with
    | some alpha, some y, some cw, some v, some [sg, rh, ry, rs, rr, rds, rdr], some c =>
      let k : Coins Fr := ⟨sg, rh, ry, rs, rr, rds, rdr⟩
      some (toString (decide (finalize stdParams alpha v c (genProof stdParams y cw k c) = (commit stdParams alpha cw k).2.2.2)))
    | _, _, _, _, _, _ => none
  | ["mp.finalize", b0, b1, b2, b3, alpha, v, c, ec, ts, tr, ss] =>
    match frOf? alpha, v4? v, frOf? c, v4? ec, v4? ts, v4? tr, listOf? frOf? ss with
    | some alpha, some v, some c, some ec, some ts, some tr, some [sS, sR, sDS, sDR, sY] =>
      some (showC [b0, b1, b2, b3] (finalize stdParams alpha v c ⟨ec, ts, tr, sS, sR, sDS, sDR, sY⟩))
    | _, _, _, _, _, _, _ => none
  | _ => none

/-- `vf.plan`: the plan stage of `Presentation::verify` on a structural description of schema and
presentation (ids and labels are opaque hex strings). Fields are separated by `/`, list items by `,`,
entries by `;`. -/
def kindOf? : String → Option AC.Verify.Kind
  | "signature" => some .signature
  | "revocation" => some .revocation
  | "equality" => some .equality
  | "commitment" => some .commitment
  | "verenc" => some .verenc
  | "range" => some .range
  | "membership" => some .membership
  | "ved" => some .ved
  | _ => none

def kindName : AC.Verify.Kind → String
  | .signature => "signature"
  | .revocation => "revocation"
  | .equality => "equality"
  | .commitment => "commitment"
  | .verenc => "verenc"
  | .range => "range"
  | .membership => "membership"
  | .ved => "ved"

def planOp (toks : List String) : Option String :=
  open AC.Verify in
  let entries : String → List String := fun s => if s = "-" then [] else s.splitOn ";"
  let items : String → List String := fun s => if s = "-" then [] else s.splitOn ","
  match toks with
  | [op, offset, stmts, proofs, disclosed] =>
    if op != "vf.plan" && op != "vf.planwhy" then none else
    let why := op == "vf.planwhy"
    -- statements; for signature statements also the number of messages of the key
    let stmt? : String → Option (Stmt × Nat) := fun tok =>
      match tok.splitOn "/" with
      | ["S", id, n, req, labels, types] =>
        match n.toNat?, (items types).mapM typeOf? with
        | some n, some types => some (.sig ⟨id, items req, items labels, types⟩, n)
        | _, _ => none
      | ["P", kind, id, refs] =>
        match kindOf? kind, (items refs).mapM (fun (r : String) => match r.splitOn ":" with
            | [a, b] => b.toNat?.map fun b => (a, b)
            | _ => none) with
        | some kind, some refs => some (.pred ⟨kind, id, refs⟩, 0)
        | _, _ => none
      | _ => none
    match offset.toNat?, (entries stmts).mapM stmt? with
    | some offset, some sts =>
      let stmtList := sts.map (·.1)
      let nOf : String → Option Nat := fun id => (sts.find? (fun s => s.1.id == id && (match s.1 with | .sig _ => true | _ => false))).map (·.2)
      let proof? : String → Option (String × ProofM Fr) := fun tok =>
        match tok.splitOn "/" with
        | [key, kind, innerId, inner, plen] =>
          match kindOf? kind, (items inner).mapM (fun (e : String) => match e.splitOn ":" with
              | [i, m] => match i.toNat?, frOf? m with
                | some i, some m => some (i, m)
                | _, _ => none
              | _ => none), plen.toNat? with
          | some kind, some inner, some plen =>
            -- which hidden indices the index → response lookup yields, for the key of the statement the proof names
            let hidden : Option (List Nat) :=
              match nOf innerId with
              | some n =>
                (AC.Sigma.hiddenProofs n offset ((inner.map (·.1)).mergeSort (· ≤ ·)) (List.replicate plen (0 : Fr))).map (·.map (·.1))
              | none => none
            some (key, ⟨kind, innerId, inner, hidden⟩)
          | _, _, _ => none
        | _ => none
      let disc? : String → Option (String × List (String × ClaimData × Fr)) := fun tok =>
        match tok.splitOn "/" with
        | [id, reps] =>
          ((items reps).mapM fun (e : String) => match e.splitOn "~" with
            | [l, c, x] => match claimOf? c, frOf? x with
              | some c, some x => some (l, c, x)
              | _, _ => none
            | _ => none).map fun r => (id, r)
        | _ => none
      match (entries proofs).mapM proof?, (entries disclosed).mapM disc? with
      | some prs, some ds =>
        let all := ds.flatMap (·.2)
        let enc : ClaimData → Fr := fun c => ((all.find? (fun e => e.2.1 == c)).map (·.2.2)).getD 0
        let pres : Pres Fr := ⟨prs, ds.map fun d => (d.1, d.2.map fun e => (e.1, e.2.1))⟩
        some (match planStage enc stmtList pres with
          | some w => if why then "plan-err " ++ w else "plan-err"
          | none => "plan-ok")
      | _, _ => none
    | _, _ => none
  | _ => none

/-- `cr.ok`: validation logic of `Presentation::create` on a structural description of the holder's
credentials and the (possibly inconsistent) schema -/
def createOp (toks : List String) : Option String :=
  open AC.Create in
  let entries : String → List String := fun s => if s = "-" then [] else s.splitOn ";"
  let items : String → List String := fun s => if s = "-" then [] else s.splitOn ","
  let optInt : String → Option (Option Int) := fun s => if s = "-" then some none else (s.toInt?).map some
  match toks with
  | [op, creds, stmts] =>
    if op != "cr.ok" && op != "cr.proofs" && op != "tr.markers" then none else
    let cred? : String → Option (String × CredI) := fun tok =>
      match tok.splitOn "/" with
      | [k, "M"] => some (k, .membership)
      | [k, "S", cs] =>
        ((items cs).mapM fun (c : String) => match c.splitOn ":" with
          | [e, n] => match scalarOf? e, optInt n with
            | some e, some n => some (⟨e, n⟩ : ClaimI)
            | _, _ => none
          | _ => none).map fun cs => (k, .sig cs)
      | _ => none
    let stmt? : String → Option CStmt := fun tok =>
      match tok.splitOn "/" with
      | ["S", id, disclosed, labels, nKey] => nKey.toNat?.map fun n => .sig id (items disclosed) (items labels) n
      | ["E", id, refs] =>
        ((items refs).mapM fun (r : String) => match r.splitOn ":" with
          | [a, b] => b.toNat?.map fun b => (a, b)
          | _ => none).map fun refs => .equality id refs
      | ["X", kind, id, ref, claim] =>
        match kindOf? kind, claim.toNat? with
        | some kind, some claim => some (.simple kind id ref claim)
        | _, _ => none
      | ["R", id, ref, sigId, claim, lower, upper] =>
        match claim.toNat?, optInt lower, optInt upper with
        | some claim, some lower, some upper => some (.range id ref sigId claim lower upper)
        | _, _, _ => none
      | _ => none
    match (entries creds).mapM cred?, (entries stmts).mapM stmt? with
    | some creds, some stmts =>
      if op == "tr.markers" then
        let j : List String → String := fun l => if l.isEmpty then "-" else ",".intercalate l
        some ("P:" ++ j (createMarkers creds stmts) ++ " V:" ++
          j (AC.Verify.verifyMarkers (stmts.map (AC.CreatePlan.toV fun _ => []))))
      else if op == "cr.ok" then some (toString (createOk creds stmts))
      else some (match createProofs creds stmts with
        | none => "err"
        | some ps =>
          let proofs := if ps.isEmpty then "-" else ";".intercalate (ps.map fun p =>
            p.id ++ "/" ++ kindName p.kind ++ "/" ++ toString p.n ++ "/" ++
              (if p.revealed.isEmpty then "-" else ",".intercalate (p.revealed.map toString)))
          let dis := match createReport creds stmts with
            | none => "?"
            | some ds => if ds.isEmpty then "-" else ";".intercalate (ds.map fun d =>
                d.1 ++ "/" ++ (if d.2.isEmpty then "-" else ",".intercalate d.2))
          proofs ++ " D " ++ dis)
    | _, _ => none
  | _ => none

/-- blind signing context: the issuer's recomputation over opaque generators (coordinates over the
bases `[Y_0 … Y_{n-1}] ++ extra ++ [C]` given as compressed points) -/
def blindOp (toks : List String) : Option String :=
  open AC.Sigma in
  match toks with
  | ["bl.items", suite, pk, gen, rc, bc, nonce] =>
    some (" ".intercalate ((blindItems (suite == "bbs") pk gen rc bc nonce).map fun e => e.1.replace " " "_" ++ "=" ++ e.2))
  | ["bl.verify", n, known, nExtra, proofs, challenge, bases] =>
    match n.toNat?, natsOf? known, nExtra.toNat?, listOf? frOf? proofs, frOf? challenge with
    | some n, some known, some nExtra, some proofs, some c =>
      let bs := if bases = "-" then [] else bases.splitOn ","
      let d := n + nExtra + 1
      if bs.length ≠ d then none else
      let ys := (List.range n).map (Lin.unit d)
      let extra := (List.range nExtra).map fun j => Lin.unit d (n + j)
      let ctx : BlindCtx Fr Lin := ⟨Lin.unit d (n + nExtra), c, proofs⟩
      -- the hash comparison is the real code's; the model reports the shape decision and the recomputed point
      let shape := blindVerify ys known extra ctx (fun _ => true)
      some (match shape with
        | none => "err"
        | some false => "false"
        | some true =>
          let r := Lin.coords d (blindRecommit ys known extra ctx)
          "@lin(" ++ ";".intercalate ((bs.zip r).map fun (b, k) => b ++ ":" ++ frHex k) ++ ")")
    | _, _, _, _, _ => none
  | _ => none

/-- predicate verifiers that share a response with the signature proof: the recomputed commitments the
real verifier hashes, over opaque bases; the shared response is the model's sorted lookup -/
def recommitOp (toks : List String) : Option String :=
  open AC.Sigma AC.Verify in
  let lin := fun (bs : List String) (v : Lin) =>
    "@lin(" ++ ";".intercalate ((bs.zip (Lin.coords bs.length v)).map fun (b, k) => b ++ ":" ++ frHex k) ++ ")"
  match toks with
  | ["cm.recommit", n, offset, rvl, proof, claim, c, sb, m, b, cc] =>
    match n.toNat?, offset.toNat?, natsOf? rvl, listOf? frOf? proof, claim.toNat?, frOf? c, frOf? sb with
    | some n, some off, some rvl, some proof, some claim, some c, some sb =>
      some (match linkedResponse n off rvl proof claim with
        | none => "no-linked-response"
        | some sm =>
          -- the hashed items of the statement: the commitment itself, then the recomputed value
          let r := lin [m, b, cc] (commitmentRecommit (Lin.unit 3 0) (Lin.unit 3 1) (Lin.unit 3 2) c sm sb)
          " ".intercalate ((commitmentItems cc r).map fun e => e.1.replace " " "_" ++ "=" ++ e.2))
    | _, _, _, _, _, _, _ => none
  | ["eg.recommit", n, offset, rvl, proof, claim, c, sb, g, m, k, c1, c2] =>
    match n.toNat?, offset.toNat?, natsOf? rvl, listOf? frOf? proof, claim.toNat?, frOf? c, frOf? sb with
    | some n, some off, some rvl, some proof, some claim, some c, some sb =>
      some (match linkedResponse n off rvl proof claim with
        | none => "no-linked-response"
        | some sm =>
          let r := elgamalRecommit (Lin.unit 5 0) (Lin.unit 5 1) (Lin.unit 5 2) (Lin.unit 5 3) (Lin.unit 5 4) c sm sb
          " ".intercalate ((elgamalItems c1 c2 (lin [g, m, k, c1, c2] r.1) (lin [g, m, k, c1, c2] r.2)).map fun e => e.1 ++ "=" ++ e.2))
    | _, _, _, _, _, _, _ => none
  | _ => none

def answer (d : DState) (line : String) : DState × String :=
  let toks := (line.trimAscii.toString.splitOn " ").filter (· ≠ "")
  match claimsOp toks with
  | some r => (d, r)
  | none =>
  match vbOp toks with
  | some r => (d, r)
  | none =>
  match sigmaOp toks with
  | some r => (d, r)
  | none =>
  match verifyOp toks with
  | some r => (d, r)
  | none =>
  match transcriptOp toks with
  | some r => (d, r)
  | none =>
  match rangeOp toks with
  | some r => (d, r)
  | none =>
  match issueOp toks with
  | some r => (d, r)
  | none =>
  match codecOp toks with
  | some r => (d, r)
  | none =>
  match membershipOp toks with
  | some r => (d, r)
  | none =>
  match planOp toks with
  | some r => (d, r)
  | none =>
  match createOp toks with
  | some r => (d, r)
  | none =>
  match blindOp toks with
  | some r => (d, r)
  | none =>
  match recommitOp toks with
  | some r => (d, r)
  | none =>
  match regOp d toks with
  | some r => r
  | none => (d, "bad-op")

partial def loop (h : IO.FS.Stream) (out : IO.FS.Stream) (d : DState) : IO Unit := do
  let line ← h.getLine
  if line.isEmpty then return ()
  let (d', r) := answer d line
  out.putStrLn r
  loop h out d'

def main : IO Unit := do
  let out ← IO.getStdout
  loop (← IO.getStdin) out {}
