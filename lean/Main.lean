import AnonCreds.Model.Wire
/-
Line-protocol driver: one request per line on stdin, one reply per line on stdout.
Unknown or malformed requests answer `bad-op` (never a default value).
-/
open AC AC.Wire

def claimsOp (toks : List String) : Option String :=
  match toks with
  | ["zc", v] => (intOf? v).map fun v => toString (zeroCenter v)
  | ["num2s", v] => (intOf? v).map fun v => scalarHex (numberToScalar v)
  | ["s2num", s] => (scalarOf? s).map fun s => toString (numberFromScalar s)
  | ["encb", b] => (bytesOf? b).map fun b => showOutcome scalarHex (encodeBytes b)
  | ["decb", s] => (scalarOf? s).map fun s => showOutcome hexOf (decodeToBytes s)
  | ["decs", s] => (scalarOf? s).map fun s => showOutcome hexOf (decodeToStr s)
  | ["totext", c] => (claimOf? c).map fun c => showOutcome hexOf c.toText
  | ["fromtext", b] => (bytesOf? b).map fun b => showOutcome claimStr (ClaimData.fromText true b)
  | ["tobytes", c] => (claimOf? c).map fun c => hexOf c.toBytes
  | ["frombytes", t, b] =>
    match typeOf? t, bytesOf? b with
    | some t, some b => some (showOutcome claimStr (ClaimData.fromBytes true t b))
    | _, _ => none
  | ["prehash", c] => (claimOf? c).map fun c =>
    match c with
    | .hashed .. | .enumeration .. | .revocation .. => "@shake(" ++ hexOf (c.preHash.getD []) ++ ")"
    | .number v => scalarHex (numberToScalar v)
    | .scalar s => scalarHex s
  | ["utf8", b] => (bytesOf? b).map fun b => toString (utf8Valid b)
  | _ => none

def answer (line : String) : String :=
  let toks := (line.trimAscii.toString.splitOn " ").filter (· ≠ "")
  match claimsOp toks with
  | some r => r
  | none => "bad-op"

partial def loop (h : IO.FS.Stream) (out : IO.FS.Stream) : IO Unit := do
  let line ← h.getLine
  if line.isEmpty then return ()
  out.putStrLn (answer line)
  loop h out

def main : IO Unit := do
  let out ← IO.getStdout
  loop (← IO.getStdin) out
