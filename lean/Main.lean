import AnonCreds.Model.Wire
import AnonCreds.Model.Fr
import AnonCreds.Model.Vb20
/-
Line-protocol driver: one request per line on stdin, one reply per line on stdout.
Unknown or malformed requests answer `bad-op` (never a default value).
-/
open AC AC.Wire

def claimsOp (toks : List String) : Option String :=
  match toks with
  | ["zc", v] => (intOf? v).map fun v => toString (zeroCenter v)
  | ["num2s", v] => (intOf? v).map fun v => scalarHex (numberToScalar v)
  | ["s2num", s] => (scalarOf? s).map fun s => toString (numberFromScalar s)
  | ["encb", b] => (bytesOf? b).map fun b => showOutcome scalarHex (encodeBytes b)
  | ["decb", s] => (scalarOf? s).map fun s => showOutcome hexOf (decodeToBytes s)
  | ["decs", s] => (scalarOf? s).map fun s => showOutcome hexOf (decodeToStr s)
  | ["totext", c] => (claimOf? c).map fun c => showOutcome hexOf c.toText
  | ["fromtext", b] => (bytesOf? b).map fun b => showOutcome claimStr (ClaimData.fromText true b)
  | ["tobytes", c] => (claimOf? c).map fun c => hexOf c.toBytes
  | ["frombytes", t, b] =>
    match typeOf? t, bytesOf? b with
    | some t, some b => some (showOutcome claimStr (ClaimData.fromBytes true t b))
    | _, _ => none
  | ["prehash", c] => (claimOf? c).map fun c =>
    match c with
    | .hashed .. | .enumeration .. | .revocation .. => "@shake(" ++ hexOf (c.preHash.getD []) ++ ")"
    | .number v => scalarHex (numberToScalar v)
    | .scalar s => scalarHex s
  | ["utf8", b] => (bytesOf? b).map fun b => toString (utf8Valid b)
  | _ => none

/-- one `adds;dels;coefs` group of a multi-batch update -/
def deltaOf? (s : String) : Option (List Fr × List Fr × List Fr) :=
  match s.splitOn ";" with
  | [a, d, c] =>
    match listOf? frOf? a, listOf? frOf? d, listOf? frOf? c with
    | some a, some d, some c => some (a, d, c)
    | _, _, _ => none
  | _ => none

/-- VB20 accumulator ops; group elements are given by their discrete logs w.r.t. the G1 generator -/
def vbOp (toks : List String) : Option String :=
  open AC.Vb20 in
  match toks with
  | ["vb.coef", α, adds, dels] =>
    match frOf? α, listOf? frOf? adds, listOf? frOf? dels with
    | some α, some adds, some dels => some (showList frHex (createCoefficients α adds dels))
    | _, _, _ => none
  | ["vb.accupd", α, v, adds, dels] =>
    match frOf? α, frOf? v, listOf? frOf? adds, listOf? frOf? dels with
    | some α, some v, some adds, some dels =>
      let (v', cs) := accUpdate (G := Fr) α v adds dels
      some (g1Tok v' ++ " " ++ showList g1Tok cs)
    | _, _, _, _ => none
  | ["vb.mwnew", α, y, v] =>
    match frOf? α, frOf? y, frOf? v with
    | some α, some y, some v => some (g1Tok (mwNew (G := Fr) α y v))
    | _, _, _ => none
  | ["vb.mwbatch", c, y, adds, dels, coefs] =>
    match frOf? c, frOf? y, listOf? frOf? adds, listOf? frOf? dels, listOf? frOf? coefs with
    | some c, some y, some adds, some dels, some coefs => some (g1Tok (mwBatchUpdate (G := Fr) c y adds dels coefs))
    | _, _, _, _, _ => none
  | "vb.mwmulti" :: c :: y :: deltas =>
    match frOf? c, frOf? y, deltas.mapM deltaOf? with
    | some c, some y, some ds => some (g1Tok (mwMultiBatchUpdate (G := Fr) c y ds))
    | _, _, _ => none
  | ["vb.mwupdate", c, y, vold, vnew, adds, dels] =>
    match frOf? c, frOf? y, frOf? vold, frOf? vnew, listOf? frOf? adds, listOf? frOf? dels with
    | some c, some y, some vo, some vn, some adds, some dels => some (g1Tok (mwUpdate (G := Fr) c y vo vn adds dels))
    | _, _, _, _, _, _ => none
  | ["vb.mwverify", α, y, c, v] =>
    match frOf? α, frOf? y, frOf? c, frOf? v with
    | some α, some y, some c, some v => some (toString (mwVerify (G := Fr) α y c v))
    | _, _, _, _ => none
  | ["vb.nmnew", α, y, elems] =>
    match frOf? α, frOf? y, listOf? frOf? elems with
    | some α, some y, some es =>
      match nmNew (G := Fr) α y es 1 with
      | some w => some (g1Tok w.c ++ " " ++ frHex w.d)
      | none => some "none"
    | _, _, _ => none
  | ["vb.nmbatch", c, d, y, adds, dels, coefs] =>
    match frOf? c, frOf? d, frOf? y, listOf? frOf? adds, listOf? frOf? dels, listOf? frOf? coefs with
    | some c, some d, some y, some adds, some dels, some coefs =>
      let w := nmBatchUpdate (G := Fr) ⟨c, d⟩ y adds dels coefs
      some (g1Tok w.c ++ " " ++ frHex w.d)
    | _, _, _, _, _, _ => none
  | "vb.nmmulti" :: c :: d :: y :: deltas =>
    match frOf? c, frOf? d, frOf? y, deltas.mapM deltaOf? with
    | some c, some d, some y, some ds =>
      let w := nmMultiBatchUpdate (G := Fr) ⟨c, d⟩ y ds
      some (g1Tok w.c ++ " " ++ frHex w.d)
    | _, _, _, _ => none
  | ["vb.nmverify", α, y, c, d, v] =>
    match frOf? α, frOf? y, frOf? c, frOf? d, frOf? v with
    | some α, some y, some c, some d, some v => some (toString (nmVerify (G := Fr) α y ⟨c, d⟩ 1 v))
    | _, _, _, _, _ => none
  | _ => none

def answer (line : String) : String :=
  let toks := (line.trimAscii.toString.splitOn " ").filter (· ≠ "")
  match claimsOp toks with
  | some r => r
  | none =>
  match vbOp toks with
  | some r => r
  | none => "bad-op"

partial def loop (h : IO.FS.Stream) (out : IO.FS.Stream) : IO Unit := do
  let line ← h.getLine
  if line.isEmpty then return ()
  out.putStrLn (answer line)
  loop h out

def main : IO Unit := do
  let out ← IO.getStdout
  loop (← IO.getStdin) out
