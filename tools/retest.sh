#!/bin/sh
# usage: retest.sh P...  — clean-tree quick check of each property, then its round seed (/tmp/wt-P/seed/patch.diff); log: work/retest.log
cd /verif
for P in "$@"; do
  echo "=== $P clean" >> work/retest.log
  python3 check.py $P --tier quick 2>&1 | grep -E "VIOLATION|quick:" | cut -c1-300 >> work/retest.log
  echo "=== $P seeded" >> work/retest.log
  ./seedtest.sh $P /tmp/wt-$P/seed/patch.diff 2>&1 | grep -v "^KNOWN" | cut -c1-300 >> work/retest.log
done
echo "RETEST DONE $*" >> work/retest.log
