#!/bin/sh
# usage: replay_some.sh <seed dir name>...  — like replay_all_seeds.sh for the named stored seeds; log: work/replay_some.log
cd /verif; OUT=work/replay_some.log
for n in "$@"; do
  d=seeded/$n; P=$(echo $n | cut -d- -f1)
  git -C /repo status --short -- src | grep -q . && { echo "TREE DIRTY" >> $OUT; exit 2; }
  if git -C /repo apply /verif/$d/patch.diff 2>/dev/null; then
    python3 check.py $P --tier quick > /tmp/replay_$n.out 2>&1; rc=$?
    git -C /repo checkout -- .
    echo "$n rc=$rc violations=$(grep -c '^VIOLATION' /tmp/replay_$n.out) $(grep '^VIOLATION' /tmp/replay_$n.out | sed 's/.*replay=[^ ]* //' | tr '\n' ';' | cut -c1-160)" >> $OUT
  else
    echo "$n patch-does-not-apply-to-current-HEAD" >> $OUT
  fi
done
echo DONE >> $OUT
