#!/bin/sh
# For every `fixed` entry of known_findings.json: re-introduce the defect (reverse patch of the fix commit,
# src/ only), run the property's quick check, expect a VIOLATION, restore the tree. Results: /verif/work/revert_fix.log
cd /verif
OUT=/verif/work/revert_fix.log; : > $OUT
python3 - <<'PY' > /tmp/revert_list.txt
import json
k=json.load(open('/verif/known_findings.json'))
L=k['findings'] if isinstance(k,dict) else k
seen=set()
for e in L:
    if e.get('status')=='fixed':
        key=(e['commit'],e['property'])
        if key in seen: continue
        seen.add(key); print(e['commit'],e['property'],e['signature'])
PY
while read c p sig; do
  git -C /repo status --short -- src | grep -q . && { echo "TREE DIRTY, abort" >> $OUT; exit 2; }
  git -C /repo diff $c $c^ -- src > /tmp/rev_$c.diff
  if git -C /repo apply /tmp/rev_$c.diff 2>/dev/null; then
    python3 check.py $p --tier quick > /tmp/rev_$c.out 2>&1; rc=$?
    git -C /repo checkout -- .
    echo "$c $p rc=$rc expected=$sig :: $(grep -c '^VIOLATION' /tmp/rev_$c.out) violation line(s): $(grep '^VIOLATION' /tmp/rev_$c.out | sed 's/.*replay=[^ ]* //' | tr '\n' ';' | cut -c1-300)" >> $OUT
  else
    echo "$c $p reverse-patch-does-not-apply (later commits touch the same lines)" >> $OUT
  fi
done < /tmp/revert_list.txt
echo DONE >> $OUT
