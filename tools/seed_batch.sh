#!/bin/sh
# usage: seed_batch.sh P1 P2 ...  — confirm each seed in its worktree, run the property's quick check on it; log to work/seed_batch.log
cd /verif
for P in "$@"; do
  echo "=== $P" >> work/seed_batch.log
  ./confirm_seed.sh $P 2>&1 | grep -A1 "demo:" | grep "test result" >> work/seed_batch.log
  ./seedtest.sh $P /tmp/wt-$P/seed/patch.diff 2>&1 | grep -v "^KNOWN" | cut -c1-300 >> work/seed_batch.log
done
echo "BATCH DONE $*" >> work/seed_batch.log
