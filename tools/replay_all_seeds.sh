#!/bin/sh
# Applies every stored seeded change to /repo in turn, runs the property's quick check, expects a VIOLATION,
# restores the tree. Log: work/replay_seeds.log
cd /verif; OUT=work/replay_seeds.log; : > $OUT
for d in seeded/*/; do
  n=$(basename $d); P=$(echo $n | cut -d- -f1)
  git -C /repo status --short -- src | grep -q . && { echo "TREE DIRTY" >> $OUT; exit 2; }
  if git -C /repo apply /verif/$d/patch.diff 2>/dev/null; then
    python3 check.py $P --tier quick > /tmp/replay_$n.out 2>&1; rc=$?
    git -C /repo checkout -- .
    echo "$n rc=$rc violations=$(grep -c '^VIOLATION' /tmp/replay_$n.out) $(grep '^VIOLATION' /tmp/replay_$n.out | sed 's/.*replay=[^ ]* //' | tr '\n' ';' | cut -c1-160)" >> $OUT
  else
    echo "$n patch-does-not-apply-to-current-HEAD" >> $OUT
  fi
done
echo DONE >> $OUT
