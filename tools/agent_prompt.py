import json,sys
pid=sys.argv[1]
import os
avoid=json.load(open('/tmp/avoid.json')).get(pid,[]) if os.path.exists('/tmp/avoid.json') and len(sys.argv)>2 else []
focus=json.load(open('/tmp/focus.json')).get(pid,[]) if os.path.exists('/tmp/focus.json') and len(sys.argv)>2 else []
avoid_txt=('\n\nAn earlier regression for this property has already been written; yours must be a DIFFERENT idea (different mechanism, different place in the code). Already used:\n'+'\n'.join('  * '+a for a in avoid)) if avoid else ''
files={'C03':'src/presentation/create.rs, src/presentation/verify.rs, src/presentation.rs, src/presentation/*.rs, src/verifier/*.rs, src/knox/bbs/pok_signature.rs, src/knox/ps/pok_signature.rs','C04':'src/presentation/create.rs, src/presentation/verify.rs, src/presentation/schema.rs, src/statement/*.rs, src/issuer.rs, src/credential/schema.rs, src/verifier/revocation.rs','C08':'src/presentation/range.rs, src/verifier/range.rs, src/utils.rs, src/claim/number.rs, src/statement/range.rs','C11':'src/presentation/verify.rs, src/verifier/*.rs, src/knox/bbs/pok_signature_proof.rs, src/knox/ps/pok_signature_proof.rs, src/knox/accumulator/vb20/proof.rs','C17':'src/knox/bbs/signature.rs, src/knox/bbs/pok_signature.rs, src/knox/bbs/pok_signature_proof.rs, src/knox/ps/signature.rs, src/knox/ps/pok_signature.rs, src/knox/ps/pok_signature_proof.rs, src/knox/short_group_sig_core/proof_committed_builder.rs','C01':'src/presentation/verify.rs, src/verifier/signature.rs, src/knox/bbs/pok_signature_proof.rs, src/knox/ps/pok_signature_proof.rs',
'C02':'src/presentation/verify.rs, src/presentation.rs, src/presentation/signature.rs, src/verifier/signature.rs, src/statement/signature.rs',
'C14':'src/knox/accumulator/vb20/witness.rs, src/knox/accumulator/vb20/key.rs, src/knox/accumulator/vb20/accumulator.rs, src/knox/accumulator/vb20.rs',
'C18':'src/utils.rs, src/claim/number.rs, src/claim/scalar.rs, src/claim/hashed.rs, src/claim/enumeration.rs, src/claim/revocation.rs, src/claim/data.rs'}
for l in open('/verif/properties.jsonl'):
    p=json.loads(l)
    if p['id']==pid:
        print(f"""You are helping test a verification effort by writing a realistic *regression* for a Rust library.

The library is the Rust crate `credx` (hyperledger anoncreds-v2-rs: anonymous credentials, BBS/PS signatures, VB20 accumulator revocation, Fiat-Shamir presentations). You have your own scratch git worktree of it at `/tmp/wt-{pid}` (work ONLY there; never touch /repo or /verif; a pre-built `target/` directory is already in the worktree so `cargo` builds are incremental; there is no network: always use `cargo ... --offline`, and set `CARGO_NET_OFFLINE=true`).

Here is a semantic property the library is supposed to satisfy:

---
{pid} — {p['title']}

{p['statement']}

Quantifier: {p['quantifier']['text']}
---

Relevant code: {files.get(pid) or ', '.join(p['anchors']['files'])}. Integration tests live in `tests/` (see tests/flow.rs, tests/revocation.rs, tests/range.rs for API usage).

{avoid_txt}

{('Prefer to place your change in one of these files (they have not been used yet): '+', '.join(focus)+'.') if focus else ''}

YOUR TASK: make ONE small, realistic change to the library source (the kind of slip a maintainer could make in a refactor or "optimisation") that BREAKS this property, while
  (a) the crate still compiles,
  (b) the existing test suite still passes: `cd /tmp/wt-{pid} && CARGO_NET_OFFLINE=true cargo test --workspace --no-fail-fast --offline` (55 tests; note the tests rewrite some files under samples/ — ignore those, do not include them in your patch), and
  (c) the breakage needs something SPECIFIC to manifest — an unusual input or parameter value, a particular multi-step sequence, a crafted (adversarial) object, a boundary case, or two cooperating sites that each look fine alone. It must NOT be something ordinary use would expose at once.

Then write a DEMONSTRATION: a new integration test file `tests/demo_{pid.lower()}.rs` (using only the crate's public API; objects with private fields can be crafted by editing their serde_json text form and parsing it back with serde_json::from_str) that FAILS with your change and PASSES on the unchanged code. Verify both facts yourself: run the demo with your change applied (must fail), then remove the source change with `git diff -- src > seed/patch.diff && git apply -R seed/patch.diff` (keep the demo), run it again (must pass), then restore the change with `git apply seed/patch.diff`. NEVER use `git stash`: the stash is shared with other worktrees of this repository that other people are using at the same time.

Deliverables (write these files, all under /tmp/wt-{pid}/):
  - `seed/patch.diff`  : `git diff` of the library source change only (src/ files; not the demo, not samples/)
  - `seed/demo_{pid.lower()}.rs` : copy of the demonstration test
  - `seed/notes.md`    : 5-15 lines: what you changed, why it breaks the property, exactly what is needed for it to manifest, and the commands you ran with their observed outcomes (suite passes with change: yes/no; demo fails with change: yes/no; demo passes without: yes/no).
Leave the worktree with your source change APPLIED and the demo test present. Do not commit. Be concrete and finish; do not ask questions. Report the three file paths and a one-paragraph summary at the end.""")
