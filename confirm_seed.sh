#!/bin/sh
# confirm a seeded change in its scratch worktree: suite passes with the change, demo fails with it and passes without
P=$1; W=/tmp/wt-$P; d=$(echo $P | tr A-Z a-z)
cd $W || exit 2
export CARGO_NET_OFFLINE=true
git checkout -q -- samples 2>/dev/null
git diff --quiet -- src && git apply seed/patch.diff
cp seed/demo_$d.rs tests/demo_$d.rs
echo "[with change] suite:"; cargo test --workspace --no-fail-fast --offline 2>&1 | grep -E "^test result|Running tests/demo" | tr '\n' ' '; echo
echo "[with change] demo:"; cargo test --offline --test demo_$d 2>&1 | grep -E "^test result" 
git diff -- src > /tmp/confirm_$P.diff && git apply -R /tmp/confirm_$P.diff
echo "[without change] demo:"; cargo test --offline --test demo_$d 2>&1 | grep -E "^test result"
git apply /tmp/confirm_$P.diff
git checkout -q -- samples 2>/dev/null
