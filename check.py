#!/usr/bin/env python3
"""check.py <PROPERTY> [--tier quick|thorough] [--replay FILE]

Decides one property (see DESIGN.md §4):
  1. proof obligations   lake build of AnonCreds.Props.<P> (+ everything it imports), axiom audit
  2. correspondence      Rust harness (real code, built from /repo's working tree) vs. compiled Lean driver
  3. search              the property's attack / enumeration catalogue on the real code (inside the harness)
  4. classification      against known_findings.json; evidence/<P>.json; VIOLATION / KNOWN-FINDING lines
Exit 0: property held on everything explored (known findings are reported, not failed). Exit 1: violation.
"""
import fcntl
import json
import os
import re
import subprocess
import sys
import time

ROOT = os.path.dirname(os.path.abspath(__file__))
LEAN = os.path.join(ROOT, "lean")
HARN = os.path.join(ROOT, "harness")
WORK = os.path.join(ROOT, "work")
EVID = os.path.join(ROOT, "evidence")
ALLOWED_AXIOMS = {"propext", "Classical.choice", "Quot.sound"}
# generators whose scenarios are independent are run as parallel shards (VERIF_SHARD=i/n) and merged
SHARDED = {"C01": 8, "C02": 8, "C03": 8, "C04": 10, "C05": 8, "C06": 14, "C07": 8, "C08": 8, "C09": 8, "C10": 8, "C11": 12, "C12": 8, "C16": 8, "C19": 3, "C20": 16}
ENV = dict(os.environ, CARGO_NET_OFFLINE="true")


def sh(cmd, cwd=None, timeout=None, stdin=None, stdout=None):
    p = subprocess.run(cmd, cwd=cwd, env=ENV, timeout=timeout, stdin=stdin,
                       stdout=stdout if stdout is not None else subprocess.PIPE,
                       stderr=subprocess.STDOUT if stdout is None else subprocess.PIPE, text=True)
    return p.returncode, (p.stdout if stdout is None else (p.stderr or ""))


class Lock:
    def __init__(self, name):
        os.makedirs(WORK, exist_ok=True)
        self.f = open(os.path.join(WORK, name + ".lock"), "w")

    def __enter__(self):
        fcntl.flock(self.f, fcntl.LOCK_EX)

    def __exit__(self, *a):
        fcntl.flock(self.f, fcntl.LOCK_UN)
        self.f.close()


def assumptions_of(prop):
    """what the check trusts for this property: the level_note of MANIFEST.json plus the common base"""
    out = []
    try:
        m = json.load(open(os.path.join(ROOT, "MANIFEST.json")))
        for c in m.get("checks", []):
            if c.get("property_id") == prop and c.get("level_note"):
                out.append(c["level_note"])
    except Exception:
        pass
    out += ["G1/G2 are vector spaces over the scalar field; pairing equations are read through the secret key (bilinearity, non-degeneracy); hash-derived generators are independent; SHAKE / merlin are collision resistant; Fiat-Shamir + forking lemma, q-SDH, PS assumption, DL, DDH are assumed (DESIGN.md A4)",
            "the Lean model is hand-written; it is tied to /repo's working tree by the correspondence counted under traces_validated_against_impl and by the oracle cases run on the real code",
            "third-party crates (blstrs_plus, bulletproofs, merlin, serde back ends, regex, aes-gcm) are called, not modelled"]
    return out


def props_info(prop):
    """theorem names declared in Props/<prop>.lean (namespace AC.<prop>)"""
    path = os.path.join(LEAN, "AnonCreds", "Props", prop + ".lean")
    if not os.path.exists(path):
        return path, []
    src = open(path).read()
    # strip block and line comments before looking for declarations
    src_nc = re.sub(r"/-.*?-/", "", src, flags=re.S)
    src_nc = re.sub(r"--.*", "", src_nc)
    names = re.findall(r"^\s*(?:private\s+|protected\s+)?theorem\s+([^\s(:{\[]+)", src_nc, flags=re.M)
    return path, names


def lean_stage(prop, thorough):
    """build + audit. Returns dict(obligations, discharged, problems[], theorems[], axioms{})"""
    res = {"obligations": 0, "discharged": 0, "problems": [], "theorems": [], "axioms": {}, "leanchecker": None}
    path, names = props_info(prop)
    if not names:
        res["problems"].append("no theorems found in Props/%s.lean" % prop)
        return res
    res["obligations"] = len(names)
    with Lock("lake"):
        rc, out = sh(["lake", "build", "AnonCreds.Props." + prop, "driver"], cwd=LEAN, timeout=3000)
    if rc != 0:
        res["problems"].append("lake build failed:\n" + out[-3000:])
        return res
    if re.search(r"declaration uses 'sorry'|warning:.*sorry", out):
        res["problems"].append("sorry in build output")
    # forbidden constructs in the Lean sources (comments stripped)
    bad = re.compile(r"\bsorry\b|\badmit\b|^\s*axiom\s|native_decide|bv_decide|implemented_by|\bunsafe\s|maxHeartbeats\s+0\b", re.M)
    for dp, _, fs in os.walk(os.path.join(LEAN, "AnonCreds")):
        for f in fs:
            if f.endswith(".lean"):
                s = open(os.path.join(dp, f)).read()
                s = re.sub(r"/-.*?-/", "", s, flags=re.S)
                s = re.sub(r"--.*", "", s)
                m = bad.search(s)
                if m:
                    res["problems"].append("forbidden construct %r in %s" % (m.group(0).strip(), f))
    # axiom audit: one #print axioms per property theorem, in a scratch file outside the library
    os.makedirs(WORK, exist_ok=True)
    audit = os.path.join(WORK, "Audit_%s.lean" % prop)
    with open(audit, "w") as f:
        f.write("import AnonCreds.Props.%s\n" % prop)
        for n in names:
            f.write("#print axioms AC.%s.%s\n" % (prop, n))
    rc, out = sh(["lake", "env", "lean", audit], cwd=LEAN, timeout=1800)
    if rc != 0:
        res["problems"].append("axiom audit failed:\n" + out[-2000:])
        return res
    # parse: "'AC.C18.foo' depends on axioms: [propext, ...]" / "does not depend on any axioms"
    flat = re.sub(r"\s+", " ", out)
    for n in names:
        full = "AC.%s.%s" % (prop, n)
        m = re.search(r"'%s' (does not depend on any axioms|depends on axioms: \[([^\]]*)\])" % re.escape(full), flat)
        if not m:
            res["problems"].append("no axiom report for " + full)
            continue
        axs = [a.strip() for a in (m.group(2) or "").split(",") if a.strip()]
        res["axioms"][n] = axs
        extra = [a for a in axs if a not in ALLOWED_AXIOMS]
        if extra:
            res["problems"].append("theorem %s depends on non-standard axioms %s" % (full, extra))
        else:
            res["discharged"] += 1
            res["theorems"].append(n)
    if thorough:
        rc, out = sh(["lake", "env", "leanchecker", "AnonCreds.Props." + prop], cwd=LEAN, timeout=3000)
        res["leanchecker"] = "ok" if rc == 0 else out[-1500:]
        if rc != 0:
            res["problems"].append("leanchecker rejected AnonCreds.Props.%s" % prop)
    return res


def harness_stage(prop, tier, seed):
    """build harness against /repo's working tree, run gen → driver → judge"""
    out = {"problems": [], "gen": None, "judge": None}
    with Lock("cargo"):
        rc, log = sh(["cargo", "build", "--offline"], cwd=HARN, timeout=3000)
    if rc != 0:
        out["problems"].append("harness does not build against /repo's working tree:\n" + log[-3000:])
        return out
    wd = os.path.join(WORK, "%s-%s" % (prop, tier))
    os.makedirs(wd, exist_ok=True)
    for f in ("ops.txt", "impl.txt", "model.txt", "gen.json", "judge.json"):
        try:
            os.remove(os.path.join(wd, f))
        except FileNotFoundError:
            pass
    exe = os.path.join(HARN, "target", "debug", "vharness")
    nshard = SHARDED.get(prop, 1)
    if nshard == 1:
        rc, log = sh([exe, "gen", prop, tier, str(seed), wd], cwd=ROOT, timeout=6 * 3600)
        if rc != 0 or not os.path.exists(os.path.join(wd, "gen.json")):
            out["problems"].append("harness gen failed (rc=%s):\n%s" % (rc, log[-3000:]))
            return out
    else:
        procs = []
        for i in range(nshard):
            sd = os.path.join(wd, "shard%d" % i)
            os.makedirs(sd, exist_ok=True)
            for f in ("ops.txt", "impl.txt", "gen.json"):
                try:
                    os.remove(os.path.join(sd, f))
                except FileNotFoundError:
                    pass
            procs.append((sd, subprocess.Popen([exe, "gen", prop, tier, str(seed), sd], cwd=ROOT, env=dict(ENV, VERIF_SHARD="%d/%d" % (i, nshard)),
                                               stdout=subprocess.PIPE, stderr=subprocess.STDOUT, text=True)))
        merged = None
        with open(os.path.join(wd, "ops.txt"), "w") as fo, open(os.path.join(wd, "impl.txt"), "w") as fi:
            for sd, pr in procs:
                log, _ = pr.communicate(timeout=6 * 3600)
                if pr.returncode != 0 or not os.path.exists(os.path.join(sd, "gen.json")):
                    out["problems"].append("harness gen failed in %s (rc=%s):\n%s" % (os.path.basename(sd), pr.returncode, (log or "")[-3000:]))
                    continue
                fo.write(open(os.path.join(sd, "ops.txt")).read())
                fi.write(open(os.path.join(sd, "impl.txt")).read())
                g = json.load(open(os.path.join(sd, "gen.json")))
                if merged is None:
                    merged = g
                else:
                    for k in ("model_ops", "oracle_evals", "distinct_nontrivial"):
                        merged[k] += g[k]
                    for k, v in g["counters"].items():
                        merged["counters"][k] = merged["counters"].get(k, 0) + v
                    merged["samples"] = (merged["samples"] + g["samples"])[:12]
                    merged["notes"] += g["notes"]
                    have = {v["signature"] for v in merged["violations"]}
                    merged["violations"] += [v for v in g["violations"] if v["signature"] not in have]
        if out["problems"] or merged is None:
            return out
        json.dump(merged, open(os.path.join(wd, "gen.json"), "w"))
    driver = os.path.join(LEAN, ".lake", "build", "bin", "driver")
    with open(os.path.join(wd, "ops.txt")) as fi, open(os.path.join(wd, "model.txt"), "w") as fo:
        p = subprocess.run([driver], stdin=fi, stdout=fo, stderr=subprocess.PIPE, text=True, timeout=3600)
    if p.returncode != 0:
        out["problems"].append("lean driver failed: " + p.stderr[-1500:])
        return out
    rc, log = sh([exe, "judge", wd], cwd=ROOT, timeout=3600)
    if rc != 0:
        out["problems"].append("judge failed: " + log[-1500:])
        return out
    out["gen"] = json.load(open(os.path.join(wd, "gen.json")))
    out["judge"] = json.load(open(os.path.join(wd, "judge.json")))
    return out


def main():
    args = sys.argv[1:]
    if not args:
        print(__doc__)
        sys.exit(2)
    prop = args[0]
    tier = os.environ.get("VERIF_TIER", "quick")
    replay = None
    i = 1
    while i < len(args):
        if args[i] == "--tier":
            tier = args[i + 1]
            i += 2
        elif args[i] == "--replay":
            replay = args[i + 1]
            i += 2
        else:
            i += 1
    if tier not in ("quick", "thorough"):
        tier = "quick"
    seed = int(os.environ.get("VERIF_SEED", "1") or "1")
    if replay:
        r = json.load(open(replay))
        seed, tier = r.get("seed", seed), r.get("tier", tier)
        print("replaying %s: seed=%s tier=%s signature=%s" % (replay, seed, tier, r.get("signature")))
    t0 = time.time()
    os.makedirs(EVID, exist_ok=True)
    os.makedirs(os.path.join(EVID, "replay"), exist_ok=True)

    for f in os.listdir(os.path.join(EVID, "replay")):
        if f.startswith(prop + "-"):
            os.remove(os.path.join(EVID, "replay", f))
    known = json.load(open(os.path.join(ROOT, "known_findings.json")))
    known_sigs = {k["signature"]: k for k in known if k["property"] == prop and k["status"] == "known"}

    lean = lean_stage(prop, tier == "thorough")
    har = harness_stage(prop, tier, seed)

    violations = []  # (signature, what, replay-json)
    for pr in lean["problems"]:
        violations.append(("proof:" + pr.split("\n")[0][:80], "proof obligation no longer checks: " + pr, {"theorem_or_build": pr}, True))
    for pr in har["problems"]:
        violations.append(("correspondence:" + pr.split("\n")[0][:80], "correspondence could not be established: " + pr, {"problem": pr}, True))
    gen, judge = har["gen"], har["judge"]
    found_known = []
    if gen is not None:
        def known_key(sig):
            if sig in known_sigs:
                return sig
            for k in known_sigs:
                if k.endswith("*") and sig.startswith(k[:-1]):
                    return k
            return None
        for v in gen["violations"]:
            kk = known_key(v["signature"])
            if kk is not None:
                v = dict(v, known_key=kk)
                found_known.append(v)
            else:
                violations.append((v["signature"], v["what"], v["replay"], False))
        if judge["disagreements"] > 0:
            # model and implementation differ: did the search (above) find a failing input?
            have_input = any(not nf for (_, _, _, nf) in violations)
            violations.append(("model-vs-impl", "the Lean model and the implementation disagree on %d of %d compared operations; first: %s"
                               % (judge["disagreements"], judge["compared"], json.dumps(judge["first"][:3])),
                               {"correspondence": "M-stream of " + prop, "first_disagreements": judge["first"]}, not have_input))
        if judge["bad_ops"] > 0:
            violations.append(("driver-bad-op", "%d request lines were not understood by the model driver" % judge["bad_ops"], {}, True))

    lines = []
    seen_known = set()
    for k in found_known:
        kk = k.get("known_key", k["signature"])
        if kk in seen_known:
            continue
        seen_known.add(kk)
        lines.append("KNOWN-FINDING: property=%s %s [%s] e.g. %s" % (prop, known_sigs[kk]["what"], k["signature"], k["what"][:200]))
    rc = 0
    for (sig, what, rep, no_input) in violations:
        rc = 1
        safe = re.sub(r"[^A-Za-z0-9_.-]+", "_", sig)[:60]
        path = os.path.join(EVID, "replay", "%s-%s.json" % (prop, safe))
        json.dump({"property": prop, "signature": sig, "what": what, "tier": tier, "seed": seed, "input": rep,
                   "how_to_replay": "python3 check.py %s --replay %s" % (prop, path)}, open(path, "w"), indent=1)
        lines.append("VIOLATION property=%s replay=%s %s%s" % (prop, path, sig, " no-failing-input-found" if no_input else ""))

    wall = time.time() - t0
    cov = {
        "obligations": lean["obligations"],
        "discharged": lean["discharged"],
        "checker_cmd": "cd lean && lake build AnonCreds.Props.%s && lake env lean ../work/Audit_%s.lean  (#print axioms per theorem%s)" % (prop, prop, "; lake env leanchecker AnonCreds.Props.%s" % prop if tier == "thorough" else ""),
        "trusted_base": ["Lean 4.33 kernel", "axioms: propext, Classical.choice, Quot.sound (per-theorem list under 'axioms')",
                         "hand-written Lean model tied to /repo by the differential correspondence reported below (harness/, check.py)",
                         "cryptographic reductions and third-party crates listed in DESIGN.md §5"],
        "theorems": lean["theorems"],
        "axioms": lean["axioms"],
        "leanchecker": lean["leanchecker"],
        "evaluations": (gen["model_ops"] + gen["oracle_evals"]) if gen else 0,
        "distinct_nontrivial": gen["distinct_nontrivial"] if gen else 0,
        "rule": gen["rule"] if gen else "",
        "samples": gen["samples"] if gen else [],
        "traces_validated_against_impl": judge["compared"] if judge else 0,
        "model_vs_impl_disagreements": judge["disagreements"] if judge else None,
        "oracle_cases_on_real_code": gen["oracle_evals"] if gen else 0,
        "counters": gen["counters"] if gen else {},
        "known_findings_observed": [k["signature"] for k in found_known],
        "notes": gen["notes"] if gen else [],
    }
    ev = {"property_id": prop, "tier": tier, "seed": seed, "level": "proof", "coverage": cov,
          "assumptions": assumptions_of(prop),
          "wall_s": round(wall, 2), "violations": sum(1 for _ in violations)}
    json.dump(ev, open(os.path.join(EVID, prop + ".json"), "w"), indent=1)
    for l in lines:
        print(l)
    print("%s %s: %d/%d theorems, %s model/impl comparisons (%s disagreements), %s oracle cases, %d violation(s), %d known finding(s), %.1fs"
          % (prop, tier, lean["discharged"], lean["obligations"], cov["traces_validated_against_impl"], cov["model_vs_impl_disagreements"],
             cov["oracle_cases_on_real_code"], len(violations), len(found_known), wall))
    sys.exit(rc)


if __name__ == "__main__":
    main()
