#!/bin/sh
# runs the repository's own test-suite (guard off = no hooks exist) and restores the sample files the tests rewrite
cd /repo && CARGO_NET_OFFLINE=true cargo test --workspace --no-fail-fast --offline 2>&1 | grep -E "^test result|FAILED|panicked|failed" ; git checkout -- samples
