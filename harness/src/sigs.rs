//! C17: signature suites at the knox API. Oracle checks with library-generated keys and the real
//! prover; model correspondence with hand-made keys / signatures / proofs whose discrete logs are known.
use crate::common::*;
use crate::pres::{g1_hex_c, g2_hex_c};
use credx::knox::bbs;
use credx::knox::ps;
use credx::knox::short_group_sig_core::short_group_traits::*;
use credx::knox::short_group_sig_core::{HiddenMessage, ProofMessage};
use serde_json::json;
use std::num::NonZeroUsize;

fn sl(v: &[Scalar]) -> String {
    if v.is_empty() {
        "-".into()
    } else {
        v.iter().map(sc_hex).collect::<Vec<_>>().join(",")
    }
}
fn rvl_s(v: &[(usize, Scalar)]) -> String {
    if v.is_empty() {
        "-".into()
    } else {
        v.iter().map(|(i, m)| format!("{}:{}", i, sc_hex(m))).collect::<Vec<_>>().join(";")
    }
}
fn idx_s(v: &[usize]) -> String {
    if v.is_empty() {
        "-".into()
    } else {
        v.iter().map(|i| i.to_string()).collect::<Vec<_>>().join(",")
    }
}
fn g1(k: &Scalar) -> G1Projective {
    G1Projective::GENERATOR * k
}
fn g2(k: &Scalar) -> G2Projective {
    G2Projective::GENERATOR * k
}

fn msg_vector(rng: &mut Rng, n: usize) -> Vec<Scalar> {
    (0..n)
        .map(|_| match rng.below(8) {
            0 => Scalar::ZERO,
            1 => Scalar::ONE,
            2 => -Scalar::ONE,
            _ => rng.scalar(),
        })
        .collect()
}

/// challenge as `verify_signature_pok` derives it
fn pok_challenge<S: ShortGroupSignatureScheme>(pok: &S::ProofOfSignatureKnowledgeContribution, nonce: Scalar) -> Scalar {
    let mut t = merlin::Transcript::new(b"signature proof of knowledge");
    pok.add_proof_contribution(&mut t);
    t.append_message(b"nonce", nonce.to_be_bytes().as_ref());
    let mut res = [0u8; 64];
    t.challenge_bytes(b"signature proof of knowledge", &mut res);
    Scalar::from_bytes_wide(&res)
}

/// oracle level: library keys, real signer, real prover, every partition
fn oracle_suite<S: ShortGroupSignatureScheme>(em: &mut Emitter, rng: &mut Rng, suite: &str) {
    let max_n = em.n(4, 6);
    for n in 1..=max_n {
        let (pk, sk) = S::new_keys(NonZeroUsize::new(n).unwrap(), rng.chacha()).unwrap();
        let (pk2, _sk2) = S::new_keys(NonZeroUsize::new(n).unwrap(), rng.chacha()).unwrap();
        // a fresh key has one generator per message position, all different
        {
            let kv = serde_json::to_value(&pk).unwrap_or_default();
            for field in ["y", "y_blinds"] {
                if let Some(a) = kv[field].as_array() {
                    let pts: Vec<&str> = a.iter().filter_map(|x| x.as_str()).collect();
                    for i in 0..pts.len() {
                        for j in i + 1..pts.len() {
                            if pts[i] == pts[j] {
                                em.violation("key-generators-repeat", format!("{}: generators {} and {} of a fresh key ({}) are equal: positions are interchangeable", suite, i, j, field), json!({"suite": suite, "n": n, "pk": kv}));
                            }
                        }
                    }
                }
            }
        }
        for rep in 0..em.n(2, 6) {
            let msgs = if rep == 0 { vec![Scalar::ZERO; n] } else if rep == 1 { vec![-Scalar::ONE; n] } else { msg_vector(rng, n) };
            let sig = match S::sign(&sk, &msgs) {
                Ok(s) => s,
                Err(_) => {
                    em.violation("sign-failed", format!("{}: sign failed for a vector filling the capacity {}", suite, n), json!({"suite": suite, "msgs": sl(&msgs)}));
                    continue;
                }
            };
            em.oracle_case(&format!("{} sig n={} rep={}", suite, n, rep));
            let replay = json!({"suite": suite, "n": n, "msgs": sl(&msgs), "pk": serde_json::to_value(&pk).unwrap(), "sig": serde_json::to_value(&sig).unwrap()});
            if sig.verify(&pk, &msgs).is_err() {
                em.violation("signature-rejected", format!("{}: fresh signature does not verify (n={})", suite, n), replay.clone());
            }
            if sig.verify(&pk2, &msgs).is_ok() {
                em.violation("signature-verifies-under-other-key", format!("{}: signature verifies under another key (n={})", suite, n), replay.clone());
            }
            // a vector of another length: surplus messages appended (beyond the key's capacity), the last one dropped
            for extra in 1..=2usize {
                let mut m2 = msgs.clone();
                for _ in 0..extra {
                    m2.push(rng.scalar());
                }
                if matches!(call_total(|| sig.verify(&pk, &m2).is_ok()), Out::Ok(true)) {
                    em.violation("signature-verifies-with-surplus-messages", format!("{}: signature over {} messages verifies for that vector with {} more appended", suite, n, extra), replay.clone());
                }
                let mut m3 = msgs.clone();
                for _ in 0..extra {
                    m3.push(Scalar::ZERO);
                }
                if matches!(call_total(|| sig.verify(&pk, &m3).is_ok()), Out::Ok(true)) {
                    em.violation("signature-verifies-with-surplus-messages", format!("{}: signature over {} messages verifies for that vector with {} zero messages appended", suite, n, extra), replay.clone());
                }
            }
            if n >= 2 && !bool::from(msgs[n - 1].is_zero()) {
                let m4 = msgs[..n - 1].to_vec();
                if matches!(call_total(|| sig.verify(&pk, &m4).is_ok()), Out::Ok(true)) {
                    em.violation("signature-verifies-with-missing-message", format!("{}: signature over {} messages verifies with the last message dropped", suite, n), replay.clone());
                }
            }
            for i in 0..n {
                let mut m2 = msgs.clone();
                m2[i] += Scalar::ONE;
                if sig.verify(&pk, &m2).is_ok() {
                    em.violation("signature-verifies-with-changed-message", format!("{}: signature verifies with message {} changed", suite, i), replay.clone());
                }
            }
            // changes that touch two positions at once: exchange, and moving an amount from one message to another
            // (a verification that binds only a combination of the messages passes these and every single change)
            for i in 0..n {
                for j in i + 1..n {
                    if msgs[i] != msgs[j] {
                        let mut m2 = msgs.clone();
                        m2.swap(i, j);
                        if sig.verify(&pk, &m2).is_ok() {
                            em.violation("signature-verifies-with-messages-exchanged", format!("{}: signature verifies with messages {} and {} exchanged", suite, i, j), replay.clone());
                        }
                    }
                    let d = Scalar::from(5u64);
                    let mut m3 = msgs.clone();
                    m3[i] += d;
                    m3[j] -= d;
                    if sig.verify(&pk, &m3).is_ok() {
                        em.violation("signature-verifies-with-amount-moved", format!("{}: signature verifies after moving an amount from message {} to message {}", suite, j, i), replay.clone());
                    }
                }
            }
            // every single-component change of the signature (through its JSON form)
            let sv = serde_json::to_value(&sig).unwrap();
            let mut ls = vec![];
            crate::pres::leaves(&sv, &mut vec![], &mut ls);
            for (path, leaf) in &ls {
                let repl = match crate::pres::leaf_kind(leaf) {
                    crate::pres::LeafKind::Scalar => json!(sc_hex(&rng.scalar())),
                    crate::pres::LeafKind::G1 => json!(g1_hex_c(&g1(&rng.scalar()))),
                    _ => continue,
                };
                let mut v2 = sv.clone();
                *crate::pres::get_mut(&mut v2, path).unwrap() = repl;
                if let Ok(s2) = serde_json::from_str::<S::Signature>(&serde_json::to_string(&v2).unwrap()) {
                    em.oracle_case(&format!("{} sigleaf {:?} n={} rep={}", suite, path, n, rep));
                    if s2.verify(&pk, &msgs).is_ok() {
                        em.violation("signature-verifies-with-changed-component", format!("{}: signature verifies with component {:?} replaced", suite, path), replay.clone());
                    }
                }
            }
            // proofs of knowledge for all partitions (n <= 4) or random ones
            let parts: Vec<u32> = if n <= 4 { (0..(1u32 << n)).collect() } else { (0..8).map(|_| rng.below(1 << n) as u32).collect() };
            for mask in parts {
                let ext = rng.coin();
                let pm: Vec<ProofMessage<Scalar>> = (0..n)
                    .map(|i| {
                        if mask >> i & 1 == 1 {
                            ProofMessage::Revealed(msgs[i])
                        } else if ext && i % 2 == 0 {
                            ProofMessage::Hidden(HiddenMessage::ExternalBlinding(msgs[i], rng.scalar()))
                        } else {
                            ProofMessage::Hidden(HiddenMessage::ProofSpecificBlinding(msgs[i]))
                        }
                    })
                    .collect();
                let rvl: Vec<(usize, Scalar)> = (0..n).filter(|i| mask >> i & 1 == 1).map(|i| (i, msgs[i])).collect();
                let pok = match S::commit_signature_pok(sig.clone(), &pk, &pm, rng.chacha()) {
                    Ok(p) => p,
                    Err(_) => {
                        em.violation("pok-commit-failed", format!("{}: commit_signature_pok failed (n={}, mask={:b})", suite, n, mask), replay.clone());
                        continue;
                    }
                };
                let nonce = rng.scalar();
                let c = pok_challenge::<S>(&pok, nonce);
                let proof = pok.generate_proof(c).unwrap();
                em.oracle_case(&format!("{} pok n={} rep={} mask={:b}", suite, n, rep, mask));
                em.count(&format!("{}:pok-partitions", suite));
                if !S::verify_signature_pok(&rvl, &pk, &proof, nonce, c) {
                    em.violation("pok-rejected", format!("{}: honest proof of knowledge rejected (n={}, mask={:b})", suite, n, mask), replay.clone());
                    continue;
                }
                // other revealed messages, partition, key, nonce, challenge
                let mut bad: Vec<(&str, Vec<(usize, Scalar)>, bool)> = vec![];
                for k in 0..rvl.len() {
                    let mut r2 = rvl.clone();
                    r2[k].1 += Scalar::ONE;
                    bad.push(("revealed-message-changed", r2, false));
                    let mut r3 = rvl.clone();
                    r3.remove(k);
                    bad.push(("revealed-entry-dropped", r3, false));
                    let mut r4 = rvl.clone();
                    let m = r4[k].1;
                    let half = rng.scalar();
                    r4[k].1 = half;
                    r4.insert(k + 1, (r4[k].0, m - half));
                    bad.push(("revealed-entry-split", r4, false));
                }
                for i in 0..n {
                    if mask >> i & 1 == 0 {
                        let mut r5 = rvl.clone();
                        r5.push((i, msgs[i]));
                        r5.sort_by_key(|(i, _)| *i);
                        bad.push(("hidden-message-additionally-revealed", r5, false));
                        // … and "revealed" as the zero scalar (a revealed zero contributes the identity)
                        let mut r5z = rvl.clone();
                        r5z.push((i, Scalar::ZERO));
                        r5z.sort_by_key(|(i, _)| *i);
                        if !bool::from(msgs[i].is_zero()) {
                            bad.push(("hidden-message-revealed-as-zero", r5z, false));
                        }
                    }
                }
                let mut r6 = rvl.clone();
                r6.push((n + 3, rng.scalar()));
                bad.push(("out-of-range-index-added", r6, false));
                bad.push(("other-key", rvl.clone(), true));
                for (what, r, other_key) in bad {
                    em.oracle_case(&format!("{} pokbad {} n={} rep={} mask={:b} {}", suite, what, n, rep, mask, rvl_s(&r)));
                    let ok = call_total(|| S::verify_signature_pok(&r, if other_key { &pk2 } else { &pk }, &proof, nonce, c));
                    match ok {
                        Out::Ok(true) => em.violation(&format!("pok-accepts:{}", what), format!("{}: proof of knowledge accepted with {} (n={}, mask={:b})", suite, what, n, mask), replay.clone()),
                        Out::Panic(m) => em.violation(&format!("pok-panic:{}", what), format!("{}: verify_signature_pok panicked with {}: {}", suite, what, m), replay.clone()),
                        _ => {}
                    }
                }
                if S::verify_signature_pok(&rvl, &pk, &proof, nonce + Scalar::ONE, c) {
                    em.violation("pok-accepts:other-nonce", format!("{}: proof accepted under another nonce", suite), replay.clone());
                }
                if S::verify_signature_pok(&rvl, &pk, &proof, nonce, c + Scalar::ONE) {
                    em.violation("pok-accepts:other-challenge", format!("{}: proof accepted with another challenge", suite), replay.clone());
                }
            }
        }
    }
}

/// keys near and at the largest capacity the library hands out (and around block sizes 32 / 64): sign, verify, every
/// single message changed, exchanges with the last positions, and a proof of knowledge over a random partition with the
/// first / last revealed and hidden positions changed
fn wide_suite<S: ShortGroupSignatureScheme>(em: &mut Emitter, rng: &mut Rng, suite: &str) {
    let ns: Vec<usize> = if em.thorough() { vec![31, 32, 33, 63, 64, 65, 100, 126, 127, 128, 129, 255, 256, 257, 300, 513] } else { vec![33, 65, 127, 128, 257] };
    for n in ns {
        let keys = call(|| S::new_keys(NonZeroUsize::new(n).unwrap(), rng.chacha()));
        let (pk, sk) = match keys {
            Out::Ok(k) => k,
            o => {
                em.count(&format!("{}:wide-keys-{}:{}", suite, n, o.class()));
                continue;
            }
        };
        // one generator per position, all different, over the whole key
        {
            let kv = serde_json::to_value(&pk).unwrap_or_default();
            for field in ["y", "y_blinds"] {
                if let Some(a) = kv[field].as_array() {
                    let mut seen: std::collections::BTreeMap<&str, usize> = std::collections::BTreeMap::new();
                    for (i, x) in a.iter().enumerate() {
                        if let Some(t) = x.as_str() {
                            if let Some(j) = seen.insert(t, i) {
                                em.violation("key-generators-repeat", format!("{}: generators {} and {} of a fresh key of capacity {} ({}) are equal: the positions are interchangeable", suite, j, i, n, field), json!({"suite": suite, "n": n}));
                                break;
                            }
                        }
                    }
                }
            }
        }
        let msgs = msg_vector(rng, n);
        em.oracle_case(&format!("{} wide n={}", suite, n));
        em.count(&format!("{}:wide", suite));
        let replay = json!({"suite": suite, "n": n, "msgs": sl(&msgs)});
        let sig = match call(|| S::sign(&sk, &msgs)) {
            Out::Ok(s) => s,
            o => {
                em.violation("sign-failed", format!("{}: sign {} for a vector filling the capacity {}", suite, o.class(), n), replay.clone());
                continue;
            }
        };
        if sig.verify(&pk, &msgs).is_err() {
            em.violation("signature-rejected", format!("{}: fresh signature does not verify (n={})", suite, n), replay.clone());
            continue;
        }
        for i in 0..n {
            let mut m2 = msgs.clone();
            m2[i] += Scalar::ONE;
            if sig.verify(&pk, &m2).is_ok() {
                em.violation("signature-verifies-with-changed-message", format!("{}: signature over {} messages verifies with message {} changed", suite, n, i), replay.clone());
                break;
            }
        }
        let mut pairs = vec![(0usize, n - 1), (n - 2, n - 1), (n / 2, n - 1), (0, 1)];
        if n > 256 {
            pairs.push((0, 256));
            pairs.push((n - 257, n - 1));
        }
        if n > 128 {
            pairs.push((0, 128));
        }
        for (i, j) in pairs {
            if i == j || msgs[i] == msgs[j] {
                continue;
            }
            let mut m2 = msgs.clone();
            m2.swap(i, j);
            if sig.verify(&pk, &m2).is_ok() {
                em.violation("signature-verifies-with-messages-exchanged", format!("{}: signature over {} messages verifies with messages {} and {} exchanged", suite, n, i, j), replay.clone());
            }
        }
        // proof of knowledge: every fourth position revealed, plus the last one in one of two runs
        for run in 0..5 {
            // run 2: nothing revealed; run 3: only the last message; run 4: only message 5 (or 0)
            let revealed = |i: usize| match run {
                2 => false,
                3 => i == n - 1,
                4 => i == 5.min(n - 1),
                _ => i % 4 == 1 || (run == 1 && i == n - 1),
            };
            let pm: Vec<ProofMessage<Scalar>> = (0..n).map(|i| if revealed(i) { ProofMessage::Revealed(msgs[i]) } else { ProofMessage::Hidden(HiddenMessage::ProofSpecificBlinding(msgs[i])) }).collect();
            let rvl: Vec<(usize, Scalar)> = (0..n).filter(|i| revealed(*i)).map(|i| (i, msgs[i])).collect();
            let pok = match call(|| S::commit_signature_pok(sig.clone(), &pk, &pm, rng.chacha())) {
                Out::Ok(p) => p,
                o => {
                    em.violation("pok-commit-failed", format!("{}: commit_signature_pok {} (n={})", suite, o.class(), n), replay.clone());
                    continue;
                }
            };
            let nonce = rng.scalar();
            let c = pok_challenge::<S>(&pok, nonce);
            let proof = match pok.generate_proof(c) {
                Ok(p) => p,
                Err(_) => {
                    em.violation("pok-generate-failed", format!("{}: generate_proof failed for an honest proof over {} messages ({} revealed)", suite, n, rvl.len()), replay.clone());
                    continue;
                }
            };
            em.oracle_case(&format!("{} wide pok n={} run={}", suite, n, run));
            if !S::verify_signature_pok(&rvl, &pk, &proof, nonce, c) {
                em.violation("pok-rejected", format!("{}: honest proof of knowledge over {} messages rejected", suite, n), replay.clone());
                continue;
            }
            for k in [0usize, rvl.len() / 2, rvl.len().saturating_sub(1)] {
                if rvl.is_empty() {
                    break;
                }
                let mut r2 = rvl.clone();
                r2[k].1 += Scalar::ONE;
                if matches!(call_total(|| S::verify_signature_pok(&r2, &pk, &proof, nonce, c)), Out::Ok(true)) {
                    em.violation("pok-accepts:revealed-message-changed", format!("{}: proof over {} messages accepted with revealed message {} changed", suite, n, r2[k].0), replay.clone());
                }
            }
            // a hidden position claimed as revealed with its true value / with zero must not verify (the proof hides it)
            for i in [0usize, n - 1, n - 2] {
                if !revealed(i) {
                    for v in [msgs[i], Scalar::ZERO] {
                        let mut r3 = rvl.clone();
                        r3.push((i, v));
                        r3.sort_by_key(|(i, _)| *i);
                        if matches!(call_total(|| S::verify_signature_pok(&r3, &pk, &proof, nonce, c)), Out::Ok(true)) {
                            em.violation("pok-accepts:hidden-message-additionally-revealed", format!("{}: proof over {} messages accepted with hidden message {} listed as revealed", suite, n, i), replay.clone());
                        }
                    }
                }
            }
        }
    }
}

/// public keys with one generator replaced by the point at infinity (the message at that position is then unbound):
/// such a key must be refused wherever it is used — no signature and no proof verifies under it for a vector that
/// differs from the signed one at that position
fn degenerate_keys<S: ShortGroupSignatureScheme>(em: &mut Emitter, rng: &mut Rng, suite: &str) {
    for n in [2usize, 3, 5] {
        let (pk, sk) = S::new_keys(NonZeroUsize::new(n).unwrap(), rng.chacha()).unwrap();
        let kv = serde_json::to_value(&pk).unwrap_or_default();
        for field in ["y", "y_blinds"] {
            let len = kv[field].as_array().map(|a| a.len()).unwrap_or(0);
            for i in 0..len.min(n) {
                let mut v2 = kv.clone();
                let old = v2[field][i].as_str().unwrap_or("").to_string();
                let ident = match old.len() {
                    96 => g1_hex_c(&G1Projective::IDENTITY),
                    192 => g2_hex_c(&G2Projective::IDENTITY),
                    _ => continue,
                };
                v2[field][i] = json!(ident);
                let bad: S::PublicKey = match serde_json::from_str(&v2.to_string()) {
                    Ok(k) => k,
                    Err(_) => {
                        em.count(&format!("{}:degenerate-key-undecodable", suite));
                        continue;
                    }
                };
                // the signed vector has zero at the unbound position, so that everything else about the signature fits the key
                let mut msgs = msg_vector(rng, n);
                msgs[i] = Scalar::ZERO;
                let sig = match S::sign(&sk, &msgs) {
                    Ok(s) => s,
                    Err(_) => continue,
                };
                let mut other = msgs.clone();
                other[i] = rng.scalar();
                em.oracle_case(&format!("{} degenerate key {}[{}] n={}", suite, field, i, n));
                em.count(&format!("{}:degenerate-key", suite));
                let replay = json!({"suite": suite, "n": n, "field": field, "index": i, "pk": v2});
                if matches!(call_total(|| sig.verify(&bad, &other).is_ok()), Out::Ok(true)) {
                    em.violation("signature-verifies-under-degenerate-key", format!("{}: under a key whose generator {}[{}] is the point at infinity a signature verifies for a message that was never signed", suite, field, i), replay.clone());
                }
                // proof of knowledge made under the degenerate key, position i revealed with another value
                let pm: Vec<ProofMessage<Scalar>> = (0..n).map(|j| if j == i { ProofMessage::Revealed(other[j]) } else { ProofMessage::Hidden(HiddenMessage::ProofSpecificBlinding(msgs[j])) }).collect();
                if let Out::Ok(pok) = call(|| S::commit_signature_pok(sig.clone(), &bad, &pm, rng.chacha())) {
                    let nonce = rng.scalar();
                    let c = pok_challenge::<S>(&pok, nonce);
                    if let Ok(proof) = pok.generate_proof(c) {
                        if matches!(call_total(|| S::verify_signature_pok(&[(i, other[i])], &bad, &proof, nonce, c)), Out::Ok(true)) {
                            em.violation("pok-accepts:degenerate-key", format!("{}: under a key whose generator {}[{}] is the point at infinity a proof is accepted with a revealed message that was never signed", suite, field, i), replay.clone());
                        }
                    }
                }
            }
        }
    }
}

/// BBS keys made with `SecretKey::random` directly (no capacity cap): generators stay pairwise different and bind their
/// positions beyond 128 and 256 messages too
fn bbs_beyond_cap(em: &mut Emitter, rng: &mut Rng) {
    let ns: Vec<usize> = if em.thorough() { vec![129, 256, 257, 300, 513] } else { vec![257, 300] };
    for n in ns {
        let sk = match call_total(|| bbs::SecretKey::random(NonZeroUsize::new(n).unwrap(), rng.chacha())) {
            Out::Ok(k) => k,
            _ => continue,
        };
        let pk = bbs::PublicKey::from(&sk);
        em.oracle_case(&format!("bbs beyond-cap n={}", n));
        em.count("bbs:beyond-cap");
        let kv = serde_json::to_value(&pk).unwrap_or_default();
        if let Some(a) = kv["y"].as_array() {
            let mut seen: std::collections::BTreeMap<&str, usize> = std::collections::BTreeMap::new();
            for (i, x) in a.iter().enumerate() {
                if let Some(t) = x.as_str() {
                    if let Some(j) = seen.insert(t, i) {
                        em.violation("key-generators-repeat", format!("bbs: generators {} and {} of a key of capacity {} are equal: the positions are interchangeable", j, i, n), json!({"suite": "bbs", "n": n}));
                        break;
                    }
                }
            }
        }
        let msgs: Vec<Scalar> = (0..n).map(|i| Scalar::from(1000u64 + i as u64)).collect();
        let sig = match call_total(|| bbs::BbsScheme::sign(&sk, &msgs)) {
            Out::Ok(Ok(s)) => s,
            _ => {
                em.count("bbs:beyond-cap:sign-refused");
                continue;
            }
        };
        if !bool::from(sig.verify(&pk, &msgs)) {
            em.count("bbs:beyond-cap:verify-refused");
            continue;
        }
        let mut pairs = vec![(0usize, n - 1), (n - 2, n - 1)];
        if n > 256 {
            pairs.push((0, 256));
            pairs.push((n - 257, n - 1));
        }
        if n > 128 {
            pairs.push((0, 128));
        }
        for (i, j) in pairs {
            let mut m2 = msgs.clone();
            m2.swap(i, j);
            if bool::from(sig.verify(&pk, &m2)) {
                em.violation("signature-verifies-with-messages-exchanged", format!("bbs: signature over {} messages verifies with messages {} and {} exchanged", n, i, j), json!({"suite": "bbs", "n": n, "i": i, "j": j}));
            }
        }
    }
}

/// model level, BBS: key, signature and proof made by hand (all discrete logs known)
fn model_bbs(em: &mut Emitter, rng: &mut Rng) {
    for case in 0..em.n(60, 1200) {
        let n = 1 + rng.below(5) as usize;
        let x = rng.scalar();
        let hs: Vec<Scalar> = (0..n).map(|_| rng.scalar()).collect();
        let pkv = json!({"y": hs.iter().map(|h| g1_hex_c(&g1(h))).collect::<Vec<_>>(), "w": g2_hex_c(&g2(&x))});
        let pk: bbs::PublicKey = serde_json::from_str(&pkv.to_string()).unwrap();
        let msgs = msg_vector(rng, n);
        let e = rng.scalar();
        let b = hs.iter().zip(&msgs).fold(Scalar::ONE, |a, (h, m)| a + *h * *m);
        let a = b * (x + e).invert().unwrap();
        let sig: bbs::Signature = serde_json::from_str(&json!({"a": g1_hex_c(&g1(&a)), "e": sc_hex(&e)}).to_string()).unwrap();
        em.oracle_case(&format!("bbs handmade sig {}", case));
        if credx::knox::short_group_sig_core::short_group_traits::Signature::verify(&sig, &pk, &msgs).is_err() && !bool::from(b.is_zero()) {
            em.violation("handmade-signature-rejected", "a BBS signature computed as (g1+Σ yᵢmᵢ)/(x+e) is rejected by Signature::verify", json!({"pk": pkv, "msgs": sl(&msgs)}));
        }
        // hand-made proof
        let mask = rng.below(1 << n) as u32;
        let rvl: Vec<(usize, Scalar)> = (0..n).filter(|i| mask >> i & 1 == 1).map(|i| (i, msgs[i])).collect();
        let hid: Vec<usize> = (0..n).filter(|i| mask >> i & 1 == 0).collect();
        let r = rng.scalar();
        let r_inv = (-r).invert().unwrap();
        let abar = r * a;
        let bbar = r * b - e * abar;
        let mut secrets: Vec<Scalar> = hid.iter().map(|i| msgs[*i]).collect();
        secrets.push(r_inv * e);
        secrets.push(r_inv);
        let nonces: Vec<Scalar> = secrets.iter().map(|_| rng.scalar()).collect();
        let mut t = Scalar::ZERO;
        for (k, i) in hid.iter().enumerate() {
            t += hs[*i] * nonces[k];
        }
        t += abar * nonces[hid.len()] + bbar * nonces[hid.len() + 1];
        let c = rng.scalar();
        let resp: Vec<Scalar> = nonces.iter().zip(&secrets).map(|(n, s)| *n + c * *s).collect();
        // variants: (label, rvl, c, abar, bbar, t, proof, x_for_key)
        let mut vars: Vec<(&str, Vec<(usize, Scalar)>, Scalar, Scalar, Scalar, Scalar, Vec<Scalar>, Scalar)> = vec![("honest", rvl.clone(), c, abar, bbar, t, resp.clone(), x)];
        for extra in 1..=2 {
            let mut p = resp.clone();
            for _ in 0..extra {
                p.push(rng.scalar());
            }
            vars.push(("overlong", rvl.clone(), c, abar, bbar, t, p, x));
        }
        for cut in 1..=resp.len().min(2) {
            vars.push(("short", rvl.clone(), c, abar, bbar, t, resp[..resp.len() - cut].to_vec(), x));
        }
        // over-long vector built so that the recomputed commitment matches without the challenge term
        {
            let mut p: Vec<Scalar> = (0..resp.len()).map(|_| rng.scalar()).collect();
            let lhs = -rvl.iter().fold(Scalar::ZERO, |acc, (i, m)| acc + hs[*i] * *m) - Scalar::ONE;
            let z = rng.scalar();
            p.push(z);
            let mut tt = Scalar::ZERO;
            for (k, i) in hid.iter().enumerate() {
                tt += hs[*i] * p[k];
            }
            tt += abar * p[hid.len()] + bbar * p[hid.len() + 1] + lhs * z;
            vars.push(("overlong-forged-commitment", rvl.clone(), c, abar, bbar, tt, p, x));
        }
        if rvl.len() >= 2 {
            let mut r2 = rvl.clone();
            r2.reverse();
            vars.push(("revealed-reversed", r2, c, abar, bbar, t, resp.clone(), x));
        }
        if !rvl.is_empty() {
            let mut r3 = rvl.clone();
            let m = r3[0].1;
            let half = rng.scalar();
            r3[0].1 = half;
            r3.insert(1, (r3[0].0, m - half));
            vars.push(("revealed-split", r3, c, abar, bbar, t, resp.clone(), x));
            let mut r4 = rvl.clone();
            r4[0].1 += Scalar::ONE;
            vars.push(("revealed-changed", r4, c, abar, bbar, t, resp.clone(), x));
        }
        if let Some(&hi) = hid.first() {
            let mut rz = rvl.clone();
            rz.push((hi, Scalar::ZERO));
            rz.sort_by_key(|(i, _)| *i);
            vars.push(("hidden-revealed-as-zero", rz, c, abar, bbar, t, resp.clone(), x));
        }
        let mut r5 = rvl.clone();
        r5.push((n, rng.scalar()));
        vars.push(("index-eq-capacity", r5, c, abar, bbar, t, resp.clone(), x));
        let mut r6 = rvl.clone();
        r6.push((n + 7, rng.scalar()));
        vars.push(("index-out-of-range", r6, c, abar, bbar, t, resp.clone(), x));
        // a hidden message additionally "revealed" with a fake value, listed out of order, its response shifted by -c·fake
        if let (Some(&hi), Some(&(ri, _))) = (hid.first(), rvl.last()) {
            if hi < ri {
                let fake = rng.scalar();
                let mut r7 = rvl.clone();
                r7.push((hi, fake));
                let mut p7 = resp.clone();
                p7[0] -= c * fake;
                vars.push(("unsorted-fake-reveal", r7, c, abar, bbar, t, p7, x));
            }
        }
        vars.push(("other-challenge", rvl.clone(), c + Scalar::ONE, abar, bbar, t, resp.clone(), x));
        vars.push(("abar-identity", rvl.clone(), c, Scalar::ZERO, bbar, t, resp.clone(), x));
        vars.push(("bbar-identity", rvl.clone(), c, abar, Scalar::ZERO, t, resp.clone(), x));
        vars.push(("t-identity", rvl.clone(), c, abar, bbar, Scalar::ZERO, resp.clone(), x));
        vars.push(("other-key", rvl.clone(), c, abar, bbar, t, resp.clone(), x + Scalar::ONE));
        vars.push(("bbar-not-x-abar", rvl.clone(), c, abar, bbar + Scalar::ONE, t, resp.clone(), x));
        for (label, r, c, ab, bb, tt, p, xk) in vars {
            let pv = json!({"a_bar": g1_hex_c(&g1(&ab)), "b_bar": g1_hex_c(&g1(&bb)), "t": g1_hex_c(&g1(&tt)), "proof": p.iter().map(sc_hex).collect::<Vec<_>>()});
            let proof: bbs::PokSignatureProof = match serde_json::from_str(&pv.to_string()) {
                Ok(p) => p,
                Err(_) => continue,
            };
            let pkk: bbs::PublicKey = if xk == x { pk.clone() } else { serde_json::from_str(&json!({"y": pkv["y"], "w": g2_hex_c(&g2(&xk))}).to_string()).unwrap() };
            let real = call(|| proof.verify(&pkk, &r, c));
            em.op(
                format!("bbs.verify {} {} {} {} {} {} {} {}", sc_hex(&xk), sl(&hs), rvl_s(&r), sc_hex(&c), sc_hex(&ab), sc_hex(&bb), sc_hex(&tt), sl(&p)),
                match &real {
                    Out::Ok(_) => "true".to_string(),
                    Out::Err => "false".to_string(),
                    Out::Panic(_) => "panic".to_string(),
                },
            );
            em.count(&format!("bbs:{}:{}", label, real.class()));
            em.oracle_case(&format!("bbs handmade {} {}", case, label));
            let legit = label == "honest" || label == "revealed-reversed";
            if real.is_ok() && !legit {
                em.violation(&format!("pok-accepts:{}", label), format!("bbs: hand-made proof variant '{}' accepted", label), json!({"pk": pkv, "rvl": rvl_s(&r), "c": sc_hex(&c), "proof": pv}));
            }
            if !real.is_ok() && legit {
                em.violation(&format!("handmade-pok-rejected:{}", label), format!("bbs: hand-made honest proof rejected with its true revealed messages ({})", label), json!({"pk": pkv, "rvl": rvl_s(&r), "c": sc_hex(&c), "proof": pv}));
            }
            if let Out::Panic(m) = &real {
                em.violation(&format!("pok-panic:{}", label), format!("bbs: verify panicked on variant '{}': {}", label, m), json!({"pk": pkv, "rvl": rvl_s(&r), "proof": pv}));
            }
            // index → response lookup on sorted lists (the form every caller now passes)
            let mut rs = r.clone();
            rs.sort_by_key(|(i, _)| *i);
            let hm = call(|| proof.get_hidden_message_proofs(&pkk, &rs));
            em.op(
                format!("pok.hidden {} 0 {} {}", n, idx_s(&rs.iter().map(|(i, _)| *i).collect::<Vec<_>>()), sl(&p)),
                match &hm {
                    Out::Ok(m) => format!("ok {}", if m.is_empty() { "-".to_string() } else { m.iter().map(|(i, s)| format!("{}:{}", i, sc_hex(s))).collect::<Vec<_>>().join(",") }),
                    Out::Err => "err".into(),
                    Out::Panic(_) => "panic".into(),
                },
            );
        }
    }
}

/// model level, PS
fn model_ps(em: &mut Emitter, rng: &mut Rng) {
    for case in 0..em.n(60, 1200) {
        let n = 1 + rng.below(5) as usize;
        let (x, w) = (rng.scalar(), rng.scalar());
        let ys: Vec<Scalar> = (0..n).map(|_| rng.scalar()).collect();
        let skv = json!({"w": sc_hex(&w), "x": sc_hex(&x), "y": ys.iter().map(sc_hex).collect::<Vec<_>>()});
        let sk: ps::SecretKey = match serde_json::from_str(&skv.to_string()) {
            Ok(s) => s,
            Err(_) => return,
        };
        let pk = sk.public_key();
        let msgs = msg_vector(rng, n);
        let m_tick = rng.scalar();
        let s1 = rng.scalar();
        let exp = x + w * m_tick + ys.iter().zip(&msgs).fold(Scalar::ZERO, |a, (y, m)| a + *y * *m);
        let s2 = s1 * exp;
        let sig: ps::Signature = serde_json::from_str(&json!({"sigma_1": g1_hex_c(&g1(&s1)), "sigma_2": g1_hex_c(&g1(&s2)), "m_tick": sc_hex(&m_tick)}).to_string()).unwrap();
        em.oracle_case(&format!("ps handmade sig {}", case));
        if credx::knox::short_group_sig_core::short_group_traits::Signature::verify(&sig, &pk, &msgs).is_err() {
            em.violation("handmade-signature-rejected", "a PS signature computed as σ₂ = (x + m'w + Σ mᵢyᵢ)σ₁ is rejected by Signature::verify", json!({"sk": skv, "msgs": sl(&msgs)}));
        }
        let mask = rng.below(1 << n) as u32;
        let rvl: Vec<(usize, Scalar)> = (0..n).filter(|i| mask >> i & 1 == 1).map(|i| (i, msgs[i])).collect();
        let hid: Vec<usize> = (0..n).filter(|i| mask >> i & 1 == 0).collect();
        let (r, t) = (rng.scalar(), rng.scalar());
        let sg1 = s1 * r;
        let sg2 = (s2 + s1 * t) * r;
        let mut secrets = vec![t, m_tick];
        secrets.extend(hid.iter().map(|i| msgs[*i]));
        let mut bases = vec![Scalar::ONE, w];
        bases.extend(hid.iter().map(|i| ys[*i]));
        let j = bases.iter().zip(&secrets).fold(Scalar::ZERO, |a, (b, s)| a + *b * *s);
        let nonces: Vec<Scalar> = secrets.iter().map(|_| rng.scalar()).collect();
        let c = rng.scalar();
        let resp: Vec<Scalar> = nonces.iter().zip(&secrets).map(|(n, s)| *n + c * *s).collect();
        let honest_commit = bases.iter().zip(&nonces).fold(Scalar::ZERO, |a, (b, s)| a + *b * *s);
        let mut vars: Vec<(&str, Vec<(usize, Scalar)>, Scalar, Scalar, Scalar, Vec<Scalar>)> = vec![("honest", rvl.clone(), sg1, sg2, j, resp.clone())];
        for extra in 1..=2 {
            let mut p = resp.clone();
            for _ in 0..extra {
                p.push(rng.scalar());
            }
            vars.push(("overlong", rvl.clone(), sg1, sg2, j, p));
        }
        // forgery without a signature: σ₂ = k σ₁, J chosen so that the pairing holds, one response too many
        {
            let k = rng.scalar();
            let jf = k - x - rvl.iter().fold(Scalar::ZERO, |a, (i, m)| a + ys[*i] * *m);
            let p: Vec<Scalar> = (0..resp.len() + 1).map(|_| rng.scalar()).collect();
            vars.push(("overlong-forgery-without-signature", rvl.clone(), s1, s1 * k, jf, p));
        }
        for cut in 1..=resp.len().min(2) {
            vars.push(("short", rvl.clone(), sg1, sg2, j, resp[..resp.len() - cut].to_vec()));
        }
        if !rvl.is_empty() {
            let mut r3 = rvl.clone();
            let m = r3[0].1;
            let half = rng.scalar();
            r3[0].1 = half;
            r3.insert(1, (r3[0].0, m - half));
            vars.push(("revealed-split", r3, sg1, sg2, j, resp.clone()));
            let mut r4 = rvl.clone();
            r4[0].1 += Scalar::ONE;
            vars.push(("revealed-changed", r4, sg1, sg2, j, resp.clone()));
        }
        let mut r5 = rvl.clone();
        r5.push((n, rng.scalar()));
        vars.push(("index-eq-capacity", r5, sg1, sg2, j, resp.clone()));
        vars.push(("sigma1-identity", rvl.clone(), Scalar::ZERO, sg2, j, resp.clone()));
        vars.push(("sigma2-identity", rvl.clone(), sg1, Scalar::ZERO, j, resp.clone()));
        // both points at infinity: the pairing equation holds trivially for every key and message vector, the Schnorr part
        // can be produced for arbitrary messages — only the explicit identity test of `verify` stands in the way
        vars.push(("sigmas-both-identity", rvl.clone(), Scalar::ZERO, Scalar::ZERO, j, resp.clone()));
        {
            let fake: Vec<Scalar> = secrets.iter().map(|_| rng.scalar()).collect();
            let jf = bases.iter().zip(&fake).fold(Scalar::ZERO, |a, (b, s)| a + *b * *s);
            let rf: Vec<Scalar> = nonces.iter().zip(&fake).map(|(n, s)| *n + c * *s).collect();
            let mut r6 = rvl.clone();
            for e in r6.iter_mut() {
                e.1 = rng.scalar();
            }
            vars.push(("sigmas-both-identity-unsigned-messages", r6, Scalar::ZERO, Scalar::ZERO, jf, rf));
        }
        vars.push(("sigma2-wrong", rvl.clone(), sg1, sg2 + Scalar::ONE, j, resp.clone()));
        for (label, r, a1, a2, jj, p) in vars {
            let pv = json!({"sigma_1": g1_hex_c(&g1(&a1)), "sigma_2": g1_hex_c(&g1(&a2)), "commitment": g2_hex_c(&g2(&jj)), "proof": p.iter().map(sc_hex).collect::<Vec<_>>()});
            let proof: ps::PokSignatureProof = match serde_json::from_str(&pv.to_string()) {
                Ok(p) => p,
                Err(_) => continue,
            };
            let real = call(|| proof.verify(&pk, &r, c));
            em.op(
                format!("ps.verify {} {} {} {} {} {} {}", sc_hex(&x), sl(&ys), rvl_s(&r), sc_hex(&a1), sc_hex(&a2), sc_hex(&jj), sl(&p)),
                match &real {
                    Out::Ok(_) => "true".to_string(),
                    Out::Err => "false".to_string(),
                    Out::Panic(_) => "panic".to_string(),
                },
            );
            em.count(&format!("ps:{}:{}", label, real.class()));
            // the commitment hashed into the challenge
            merlin::vlog::take();
            merlin::vlog::enable(true);
            let mut tr = merlin::Transcript::new(b"x");
            let _ = call_total(|| proof.add_proof_contribution(&pk, &r, c, &mut tr));
            merlin::vlog::enable(false);
            let log = merlin::vlog::take();
            if let Some(e) = log.iter().find(|e| e.kind == 0 && e.label == b"blind commitment") {
                let known: Vec<usize> = r.iter().map(|(i, _)| *i).collect();
                em.op(format!("ps.recommit {} {} {} {} {} {}", sc_hex(&w), sl(&ys), idx_s(&known), sc_hex(&c), sc_hex(&jj), sl(&p)), hex::encode(&e.data));
                if label == "honest" && e.data != g2(&honest_commit).to_compressed().to_vec() {
                    em.violation("ps-honest-commitment-mismatch", "ps: verifier recomputes another commitment than the honest prover hashed", json!({"sk": skv, "proof": pv}));
                }
            }
            em.oracle_case(&format!("ps handmade {} {}", case, label));
            // PS verify alone does not see the challenge: acceptance of the whole proof = verify ∧ commitment hashed equals the prover's
            let legit = label == "honest";
            if real.is_ok() && !legit && label != "overlong" && label != "short" {
                em.violation(&format!("pok-accepts:{}", label), format!("ps: hand-made proof variant '{}' accepted by verify", label), json!({"sk": skv, "rvl": rvl_s(&r), "proof": pv}));
            }
            if real.is_ok() && (label == "overlong" || label == "short") {
                em.violation(&format!("pok-accepts:{}", label), format!("ps: response vector of the wrong length accepted ('{}')", label), json!({"sk": skv, "rvl": rvl_s(&r), "proof": pv}));
            }
            if !real.is_ok() && legit {
                em.violation("handmade-pok-rejected", "ps: hand-made honest proof rejected", json!({"sk": skv, "proof": pv}));
            }
            if let Out::Panic(m) = &real {
                em.violation(&format!("pok-panic:{}", label), format!("ps: verify panicked on variant '{}': {}", label, m), json!({"sk": skv, "rvl": rvl_s(&r), "proof": pv}));
            }
            let mut rs = r.clone();
            rs.sort_by_key(|(i, _)| *i);
            let hm = call(|| proof.get_hidden_message_proofs(&pk, &rs));
            em.op(
                format!("pok.hidden {} 2 {} {}", n, idx_s(&rs.iter().map(|(i, _)| *i).collect::<Vec<_>>()), sl(&p)),
                match &hm {
                    Out::Ok(m) => format!("ok {}", if m.is_empty() { "-".to_string() } else { m.iter().map(|(i, s)| format!("{}:{}", i, sc_hex(s))).collect::<Vec<_>>().join(",") }),
                    Out::Err => "err".into(),
                    Out::Panic(_) => "panic".into(),
                },
            );
        }
    }
}

pub fn gen_c17(em: &mut Emitter, rng: &mut Rng) {
    em.rule = "oracle: library keys of capacity 1..N, sign / verify / verify under other key / each message changed / each signature \
               component replaced; real prover for all 2^n partitions (n ≤ 4) with proof-specific and external blinding, verified with true, \
               changed, dropped, split, extra, out-of-range revealed entries, other key, nonce, challenge; capacities 33 / 65 / 127 / 128 (thorough: ten widths up to the \
               largest the library keys): sign, verify, every message changed, exchanges with the last positions, proof of knowledge; keys with one generator at infinity (signed vector zero there): nothing verifies for another value at that position. model: hand-made keys, signatures and \
               proofs with known discrete logs (honest, over-long incl. forged commitments and signature-less PS forgery, short, identity \
               elements, index edge cases, other key) — real verify verdict, hashed PS commitment and index→response lookup vs the Lean model".into();
    oracle_suite::<bbs::BbsScheme>(em, rng, "bbs");
    oracle_suite::<ps::PsScheme>(em, rng, "ps");
    bbs_beyond_cap(em, &mut rng.sub(1721));
    degenerate_keys::<bbs::BbsScheme>(em, &mut rng.sub(1719), "bbs");
    degenerate_keys::<ps::PsScheme>(em, &mut rng.sub(1720), "ps");
    wide_suite::<bbs::BbsScheme>(em, &mut rng.sub(1717), "bbs");
    wide_suite::<ps::PsScheme>(em, &mut rng.sub(1718), "ps");
    model_bbs(em, rng);
    model_ps(em, rng);
}
