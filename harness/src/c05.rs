//! C05 (predicate proofs are bound to the referenced signed claim) and C09 (equality statements).
use crate::adv::*;
use crate::common::*;
use crate::pres::*;
use credx::claim::*;
use credx::knox::short_group_sig_core::short_group_traits::ShortGroupSignatureScheme;
use credx::presentation::{Presentation, PresentationProofs, PresentationSchema};
use credx::statement::*;
use indexmap::IndexMap;
use serde_json::json;

fn retarget<S: ShortGroupSignatureScheme>(schema: &PresentationSchema<S>, stmt_id: &str, claim: Option<usize>, reference: Option<&str>) -> PresentationSchema<S> {
    let stmts: Vec<Statements<S>> = schema
        .statements
        .values()
        .map(|s| {
            if s.id() != stmt_id {
                return s.clone();
            }
            match s {
                Statements::Revocation(x) => {
                    let mut t = (**x).clone();
                    if let Some(c) = claim {
                        t.claim = c;
                    }
                    if let Some(r) = reference {
                        t.reference_id = r.into();
                    }
                    t.into()
                }
                Statements::Membership(x) => {
                    let mut t = (**x).clone();
                    if let Some(c) = claim {
                        t.claim = c;
                    }
                    if let Some(r) = reference {
                        t.reference_id = r.into();
                    }
                    t.into()
                }
                Statements::Commitment(x) => {
                    let mut t = (**x).clone();
                    if let Some(c) = claim {
                        t.claim = c;
                    }
                    if let Some(r) = reference {
                        t.reference_id = r.into();
                    }
                    t.into()
                }
                Statements::VerifiableEncryption(x) => {
                    let mut t = (**x).clone();
                    if let Some(c) = claim {
                        t.claim = c;
                    }
                    if let Some(r) = reference {
                        t.reference_id = r.into();
                    }
                    t.into()
                }
                Statements::VerifiableEncryptionDecryption(x) => {
                    let mut t = (**x).clone();
                    if let Some(c) = claim {
                        t.claim = c;
                    }
                    if let Some(r) = reference {
                        t.reference_id = r.into();
                    }
                    t.into()
                }
                Statements::Equality(x) => {
                    let mut t = (**x).clone();
                    if let Some(c) = claim {
                        for (_, v) in t.ref_id_claim_index.iter_mut() {
                            *v = c;
                        }
                    }
                    t.into()
                }
                o => o.clone(),
            }
        })
        .collect();
    PresentationSchema::new_with_id(&stmts, &schema.id)
}

/// `n|revealed indices in the proof's own order|response vector` of a signature proof
fn sig_ref_tok(v: &serde_json::Value, sid: &str, n: usize) -> String {
    let sp = &v["proofs"][sid]["Signature"];
    let rvl: Vec<String> = sp["disclosed_messages"].as_object().map(|m| m.keys().cloned().collect()).unwrap_or_default();
    let proof: Vec<String> = sp["pok"]["proof"].as_array().map(|a| a.iter().map(|x| x.as_str().unwrap_or("").to_string()).collect()).unwrap_or_default();
    format!("{}|{}|{}", n, if rvl.is_empty() { "-".to_string() } else { rvl.join(",") }, if proof.is_empty() { "-".to_string() } else { proof.join(",") })
}

fn permutations(n: usize) -> Vec<Vec<usize>> {
    if n == 0 {
        return vec![vec![]];
    }
    let mut out = vec![];
    for p in permutations(n - 1) {
        for i in 0..=p.len() {
            let mut q = p.clone();
            q.insert(i, n - 1);
            out.push(q);
        }
    }
    out
}

fn judge<S: ShortGroupSignatureScheme>(em: &mut Emitter, prop: &str, suite: &str, dev: &str, scn: &Scn<S>, p: &Presentation<S>, detail: &str) {
    em.oracle_case(&format!("{} {} {} {}", suite, dev, scn.mix.describe(), detail));
    let v = scn.verify(p);
    em.count(&format!("{}:{}", dev, v.class()));
    match v {
        Out::Ok(_) => em.violation(&format!("{}:{}", prop, dev), format!("{}: deviating holder accepted ({} {})", suite, dev, detail), scn.replay(json!({"suite": suite, "deviation": dev, "detail": detail, "presentation": serde_json::to_value(p).unwrap_or_default()}))),
        Out::Panic(m) => em.violation(&format!("{}-panic:{}", prop, dev), format!("{}: verify panicked ({} {}): {}", suite, dev, detail, m), scn.replay(json!({"suite": suite, "deviation": dev, "detail": detail}))),
        Out::Err => {}
    }
}

pub fn c05_suite<S: ShortGroupSignatureScheme + 'static>(em: &mut Emitter, base: &mut Rng, suite: &str, tag: &str, only: Option<&[&str]>) {
    let off = if suite == "bbs" { 0 } else { 1 };
    // (statement kind, statement id, claim index it speaks about)
    let kinds: Vec<(&str, &str, usize)> = vec![("commitment", "com0", 2), ("verenc", "ve0", 3), ("revocation", "rev0", 0), ("membership", "mem0", 1), ("ved", "ved0", 3), ("commitment+range", "com0", 2), ("equality", "eq0", 2)];
    for k in 0..em.n(12, 120) {
        if !em.mine(2 * k + off) {
            continue;
        }
        let rng = &mut base.sub((2 * k + off) as u64);
        let (kind, st_id, ci) = kinds[k % kinds.len()];
        if let Some(f) = only {
            if !f.contains(&kind) {
                continue;
            }
        }
        if kind == "ved" && !em.thorough() && k >= kinds.len() {
            continue;
        }
        // two disclosed claims around the predicate's claim so that index lists can be shaped
        let n_claims = 6;
        let mut mix = Mix { n_creds: 2, n_claims, age: rng.range(18, 60), ..Default::default() };
        let used = ci;
        let disclosed: Vec<String> = [1usize, 3, 5].iter().filter(|i| **i != used).take(2).map(|i| LABELS[*i].to_string()).collect();
        mix.disclosed = vec![disclosed.clone(), if kind == "equality" { disclosed.clone() } else { vec![] }];
        match kind {
            "equality" => mix.equality = true,
            "commitment" => mix.commitment = Some(ci),
            "commitment+range" => {
                mix.commitment = Some(ci);
                mix.range = Some((Some(0), Some(150)));
            }
            "verenc" => mix.verenc = Some((ci, k % 2 == 0 && em.thorough())),
            "revocation" => mix.revocation = true,
            "membership" => mix.membership = true,
            "ved" => mix.ved = Some(ci),
            _ => {}
        }
        let mut scn = Scn::<S>::build(rng, &mix);
        if kind == "equality" {
            // the verifier asks for equality of claim `ci` (ages made different); claims 4 and 5, above the
            // disclosed ones, are made equal so that a shifted lookup can land on an equal pair
            let mut c1 = scn.bundles[1].credential.claims.clone();
            c1[0] = RevocationClaim::from(format!("c05-eq-{}", k)).into();
            c1[4] = scn.bundles[0].credential.claims[4].clone();
            c1[5] = scn.bundles[0].credential.claims[5].clone();
            if c1[2].to_scalar() == scn.bundles[0].credential.claims[2].to_scalar() {
                c1[2] = NumberClaim::from(mix.age as isize + 7).into();
            }
            let b = scn.issuers[1].sign_credential(&c1).unwrap();
            scn.credentials.insert(scn.sig_ids[1].clone(), b.credential.clone().into());
            scn.bundles[1] = b;
            let stmts: Vec<Statements<S>> = scn
                .schema
                .statements
                .values()
                .map(|s| match s {
                    Statements::Signature(ss) if ss.id == scn.sig_ids[1] => {
                        let mut t = (**ss).clone();
                        t.issuer = scn.bundles[1].issuer.clone();
                        t.into()
                    }
                    o => o.clone(),
                })
                .collect();
            scn.schema = PresentationSchema::new_with_id(&stmts, &scn.schema.id);
            scn.schema = retarget(&scn.schema, st_id, Some(ci), None);
        }
        let scn = scn;
        let sid = scn.sig_ids[0].clone();
        let claims = &scn.bundles[0].credential.claims;
        let disclosed_idx: Vec<usize> = disclosed.iter().map(|l| LABELS.iter().position(|x| x == l).unwrap()).collect();
        // D1/D2: run the sub-protocol on another hidden claim j of the same credential
        for j in 0..n_claims {
            if j == ci || disclosed_idx.contains(&j) || claims[j].to_scalar() == claims[ci].to_scalar() {
                continue;
            }
            if kind == "commitment+range" {
                continue; // the range prover needs a number claim; covered by C08's deviations
            }
            if kind == "membership" {
                continue; // the membership credential is for claim 1 only
            }
            let prover_schema = retarget(&scn.schema, st_id, Some(j), None);
            let p = match steered_create(&scn.credentials, &prover_schema, &scn.schema, &scn.nonce, None) {
                Out::Ok(p) => p,
                _ => continue,
            };
            judge(em, tag, suite, &format!("{}-on-other-claim", kind), &scn, &p, &format!("signed index {} proved for index {}", ci, j));
            // model: what the verifier recomputes for the claim index it was asked about (not the one the holder used)
            recommit_lines(em, suite, &scn.schema, &p, &scn.nonce);
            // shape the proof's own disclosed-index list in every order
            if let Some(PresentationProofs::Signature(sp)) = p.proofs.get(&sid) {
                let entries: Vec<(usize, Scalar)> = sp.disclosed_messages.iter().map(|(i, s)| (*i, *s)).collect();
                for perm in permutations(entries.len()) {
                    if perm.iter().enumerate().all(|(a, b)| a == *b) {
                        continue;
                    }
                    let mut q = p.clone();
                    for (qi, qsid) in scn.sig_ids.iter().enumerate() {
                        if qi > 0 && kind != "equality" {
                            break;
                        }
                        if let Some(PresentationProofs::Signature(sq)) = q.proofs.get_mut(qsid) {
                            let own: Vec<(usize, Scalar)> = sq.disclosed_messages.iter().map(|(i, s)| (*i, *s)).collect();
                            if own.len() != perm.len() {
                                continue;
                            }
                            let mut m = IndexMap::new();
                            for i in &perm {
                                m.insert(own[*i].0, own[*i].1);
                            }
                            sq.disclosed_messages = m;
                        }
                    }
                    judge(em, tag, suite, &format!("{}-on-other-claim+index-list-shaped", kind), &scn, &q, &format!("signed index {} proved for index {} order {:?}", ci, j, perm));
                    if kind == "equality" {
                        // model: sorted lookup of claim `ci` in every referenced proof, all equal (everything else in q is valid)
                        let qv = serde_json::to_value(&q).unwrap();
                        let refs: Vec<String> = scn.sig_ids.iter().map(|id| sig_ref_tok(&qv, id, n_claims)).collect();
                        em.op(format!("eq.verdict {} {} {}", if suite == "bbs" { 0 } else { 2 }, ci, refs.join(" ")), format!("{}", scn.verify(&q).is_ok()));
                    }
                }
            }
        }
        // D4: material borrowed from the other credential (same claim position, different value)
        if kind != "membership" && kind != "commitment+range" {
            let prover_schema = retarget(&scn.schema, st_id, None, Some(&scn.sig_ids[1]));
            // the revocation handle / ved claim data come from the referenced credential in the prover
            if let Out::Ok(p) = steered_create(&scn.credentials, &prover_schema, &scn.schema, &scn.nonce, None) {
                if scn.bundles[1].credential.claims[ci].to_scalar() != claims[ci].to_scalar() {
                    judge(em, tag, suite, &format!("{}-borrowed-from-other-credential", kind), &scn, &p, "");
                }
            }
        }
        // D3: predicate proof transplanted from another honest run of the same statement
        if let (Out::Ok(p1), Out::Ok(p2)) = (scn.create(), scn.create()) {
            let mut q = p1.clone();
            if let Some(pr) = p2.proofs.get(st_id) {
                q.proofs.insert(st_id.to_string(), pr.clone());
            }
            fix_challenge(&mut q, &scn.schema, &scn.nonce, 2);
            judge(em, tag, suite, &format!("{}-proof-from-another-run", kind), &scn, &q, "");
            // honest list order must keep working when the holder lists the same indices in another order
            let mut q = p1.clone();
            if let Some(PresentationProofs::Signature(sq)) = q.proofs.get_mut(&sid) {
                sq.disclosed_messages.reverse();
            }
            em.oracle_case(&format!("{} honest-reversed {}", suite, k));
            if kind == "revocation" && scn.verify(&q).is_ok() {
                // model: the response the revocation verifier links to (sorted lookup of claim 0) is the proof's s_y
                let qv = serde_json::to_value(&q).unwrap();
                let t = sig_ref_tok(&qv, &sid, n_claims);
                let parts: Vec<&str> = t.split('|').collect();
                let sy = qv["proofs"]["rev0"]["Revocation"]["proof"]["s_y"].as_str().unwrap_or("").to_string();
                em.op(format!("pred.linked {} {} {} {} 0", parts[0], if suite == "bbs" { 0 } else { 2 }, parts[1], parts[2]), format!("ok {}", sy));
            }
            if !scn.verify(&q).is_ok() {
                em.violation(&format!("{}:honest-permuted-list-rejected", tag), format!("{}: honest presentation with the disclosed-index list reversed is rejected ({})", suite, kind), scn.replay(json!({"suite": suite, "kind": kind})));
            }
        }
        if k < 3 {
            em.sample(json!({"suite": suite, "kind": kind, "mix": mix.describe()}));
        }
    }
}

/// a predicate over a *disclosed* claim: the signature proof has no hidden response for it, so nothing can
/// link the predicate proof to the credential — the verifier must refuse. Deviating holder: real signature
/// proof of credential A with its id disclosed + a hand-made accumulator proof for another (active) id
fn revocation_on_disclosed_claim<S: ShortGroupSignatureScheme + 'static>(em: &mut Emitter, rng: &mut Rng, suite: &str) {
    use credx::knox::accumulator::vb20::{Element, MembershipProofCommitting, ProofParams};
    use credx::knox::short_group_sig_core::{HiddenMessage, ProofMessage};
    for k in 0..em.n(2, 8) {
        let n_claims = 4;
        let schema = cred_schema(n_claims, &[]);
        let (public, mut issuer) = credx::issuer::Issuer::<S>::new(&schema);
        let a = issuer.sign_credential(&claim_vector(rng, n_claims, &format!("dc-a-{}", k), "A", 30)).unwrap();
        let _b = issuer.sign_credential(&claim_vector(rng, n_claims, &format!("dc-b-{}", k), "B", 31)).unwrap();
        // A is revoked in half of the runs (the property is about the link, not about A's status)
        if k % 2 == 0 {
            issuer.revoke_credentials(&[RevocationClaim::from(format!("dc-a-{}", k).as_str())]).unwrap();
        }
        let value = issuer.revocation_registry.value;
        let wb = issuer.update_revocation_handle(RevocationClaim::from(format!("dc-b-{}", k).as_str())).unwrap();
        let yb = RevocationClaim::from(format!("dc-b-{}", k).as_str()).to_scalar();
        let mut ip = public.clone();
        ip.revocation_registry = value;
        let nonce = rng.bytes(16);
        let sig = SignatureStatement { disclosed: ["id".to_string()].into_iter().collect(), id: "sig".to_string(), issuer: ip.clone() };
        let rev = RevocationStatement { id: "rev".to_string(), reference_id: "sig".to_string(), accumulator: value, verification_key: ip.revocation_verifying_key, claim: 0 };
        let prover_schema = PresentationSchema::new_with_id(&[sig.clone().into()], "dc");
        let verifier_schema = PresentationSchema::new_with_id(&[sig.into(), rev.clone().into()], "dc");
        let mut creds: IndexMap<String, credx::presentation::PresentationCredential<S>> = IndexMap::new();
        creds.insert("sig".to_string(), a.credential.clone().into());
        // hand-made accumulator proof for B's id, own blinding; its transcript items
        let params = ProofParams::new(ip.revocation_verifying_key, Some(&nonce));
        let committing = MembershipProofCommitting::new(ProofMessage::Hidden(HiddenMessage::ProofSpecificBlinding(yb)), wb, params, ip.revocation_verifying_key);
        merlin::vlog::take();
        merlin::vlog::enable(true);
        let mut t = merlin::Transcript::new(b"scratch");
        params.add_to_transcript(&mut t);
        committing.get_bytes_for_challenge(&mut t);
        merlin::vlog::enable(false);
        let extra: Vec<(Vec<u8>, Vec<u8>)> = merlin::vlog::take().into_iter().filter(|e| e.kind == 0 && e.label != b"dom-sep").map(|e| (e.label, e.data)).collect();
        em.oracle_case(&format!("{} revocation-on-disclosed-claim {}", suite, k));
        let p = match steered_create_ext(&creds, &prover_schema, &verifier_schema, &nonce, None, extra) {
            Out::Ok(p) => p,
            _ => {
                em.count("disclosed-claim:steered-create-failed");
                continue;
            }
        };
        let proof = committing.gen_proof(Element(p.challenge));
        let mut v = serde_json::to_value(&p).unwrap();
        v["proofs"]["rev"] = json!({"Revocation": {"id": "rev", "proof": serde_json::to_value(&proof).unwrap()}});
        if let Out::Ok(q) = pres_from_value::<S>(&v) {
            // self-check of the construction: the verifier recomputes exactly the challenge the holder answered
            let (res, ch, _) = verify_logged(&q, &verifier_schema, &nonce);
            em.count(&format!("disclosed-claim:{}:{}", res.class(), if ch == Some(q.challenge) { "challenge-matches" } else if ch.is_some() { "challenge-differs" } else { "stopped-before-challenge" }));
            if res.is_ok() {
                em.violation(
                    "c05:predicate-on-disclosed-claim-accepted",
                    format!("{}: a revocation statement over a disclosed claim is accepted with an accumulator proof for another identifier (nothing links it to the credential)", suite),
                    json!({"suite": suite, "presentation": v, "schema": serde_json::to_value(&verifier_schema).unwrap_or_default(), "nonce": hexs(&nonce)}),
                );
            }
        }
    }
}

/// an accumulator proof (revocation or membership) made by hand for *another* value the holder has a witness
/// for, with its own blinding, next to the real signature proof of a credential whose claim stays hidden: the
/// only link is the verifier's comparison of `s_y` with the signature proof's response
fn unlinked_accumulator_proof<S: ShortGroupSignatureScheme + 'static>(em: &mut Emitter, rng: &mut Rng, suite: &str) {
    use credx::knox::accumulator::vb20::{Element, MembershipProofCommitting, ProofParams};
    use credx::knox::short_group_sig_core::{HiddenMessage, ProofMessage};
    use credx::prelude::{MembershipClaim, MembershipCredential, MembershipRegistry, MembershipSigningKey, MembershipVerificationKey};
    for k in 0..em.n(2, 8) {
        for kind in ["revocation", "membership"] {
            let n_claims = 4;
            let schema = cred_schema(n_claims, &[]);
            let (public, mut issuer) = credx::issuer::Issuer::<S>::new(&schema);
            let a = issuer.sign_credential(&claim_vector(rng, n_claims, &format!("ul-a-{}", k), "Mallory", 30)).unwrap();
            let _b = issuer.sign_credential(&claim_vector(rng, n_claims, &format!("ul-b-{}", k), "Bob", 31)).unwrap();
            issuer.revoke_credentials(&[RevocationClaim::from(format!("ul-a-{}", k).as_str())]).unwrap();
            let mut ip = public.clone();
            ip.revocation_registry = issuer.revocation_registry.value;
            let nonce = rng.bytes(16);
            let sig = SignatureStatement { disclosed: Default::default(), id: "sig".to_string(), issuer: ip.clone() };
            // the statement, the value the hand-made proof speaks about, and a witness for it
            let (pred, other_value, witness, vk): (Statements<S>, Scalar, _, _) = if kind == "revocation" {
                let wb = issuer.update_revocation_handle(RevocationClaim::from(format!("ul-b-{}", k).as_str())).unwrap();
                let st = RevocationStatement { id: "acc".to_string(), reference_id: "sig".to_string(), accumulator: ip.revocation_registry, verification_key: ip.revocation_verifying_key, claim: 0 };
                (st.into(), RevocationClaim::from(format!("ul-b-{}", k).as_str()).to_scalar(), wb, ip.revocation_verifying_key)
            } else {
                let sk = MembershipSigningKey::new(Some(&rng.bytes(16)));
                let vk = MembershipVerificationKey::from(&sk);
                let registry = MembershipRegistry::random(rng.chacha());
                // the set contains "Bob", not the signed "Mallory"
                let member = MembershipClaim::from(&ClaimData::from(HashedClaim::from("Bob"))).0;
                let mc = MembershipCredential::new(member, registry, &sk);
                let st = MembershipStatement { id: "acc".to_string(), reference_id: "sig".to_string(), accumulator: registry, verification_key: vk, claim: 1 };
                (st.into(), member.0, mc, vk)
            };
            let prover_schema = PresentationSchema::new_with_id(&[sig.clone().into()], "ul");
            let verifier_schema = PresentationSchema::new_with_id(&[sig.into(), pred], "ul");
            let mut creds: IndexMap<String, credx::presentation::PresentationCredential<S>> = IndexMap::new();
            creds.insert("sig".to_string(), a.credential.clone().into());
            let params = ProofParams::new(vk, Some(&nonce));
            let committing = MembershipProofCommitting::new(ProofMessage::Hidden(HiddenMessage::ProofSpecificBlinding(other_value)), witness, params, vk);
            merlin::vlog::take();
            merlin::vlog::enable(true);
            let mut t = merlin::Transcript::new(b"scratch");
            params.add_to_transcript(&mut t);
            committing.get_bytes_for_challenge(&mut t);
            merlin::vlog::enable(false);
            let extra: Vec<(Vec<u8>, Vec<u8>)> = merlin::vlog::take().into_iter().filter(|e| e.kind == 0 && e.label != b"dom-sep").map(|e| (e.label, e.data)).collect();
            em.oracle_case(&format!("{} unlinked-{}-proof {}", suite, kind, k));
            let p = match steered_create_ext(&creds, &prover_schema, &verifier_schema, &nonce, None, extra) {
                Out::Ok(p) => p,
                _ => {
                    em.count("unlinked:steered-create-failed");
                    continue;
                }
            };
            let proof = committing.gen_proof(Element(p.challenge));
            let mut v = serde_json::to_value(&p).unwrap();
            let variant = if kind == "revocation" { "Revocation" } else { "Membership" };
            v["proofs"]["acc"] = json!({variant: {"id": "acc", "proof": serde_json::to_value(&proof).unwrap()}});
            if let Out::Ok(q) = pres_from_value::<S>(&v) {
                let (res, ch, _) = verify_logged(&q, &verifier_schema, &nonce);
                em.count(&format!("unlinked:{}:{}:{}", kind, res.class(), if ch == Some(q.challenge) { "challenge-matches" } else if ch.is_some() { "challenge-differs" } else { "stopped-before-challenge" }));
                if res.is_ok() {
                    em.violation(
                        &format!("c05:unlinked-{}-proof-accepted", kind),
                        format!("{}: a {} statement is accepted with an accumulator proof about another value than the signed claim (own blinding: s_y differs from the signature proof's response)", suite, kind),
                        json!({"suite": suite, "presentation": v, "schema": serde_json::to_value(&verifier_schema).unwrap_or_default(), "nonce": hexs(&nonce)}),
                    );
                }
            }
        }
    }
}

/// A response vector one scalar too long: if the verifier pairs points and responses positionally and only bounds the
/// length from below, the scalar that multiplies the public part of the equation is the surplus response instead of
/// −challenge, and the proof of knowledge stops depending on the challenge. The holder then runs the *real* prover for a
/// rescaled challenge λ = c·v'/m (c = the verifier's challenge over the forged transcript), appends −λ, and presents the
/// commitment (v'/m)·C: the response of the claim reads nonce + c·v', i.e. the commitment statement "proves" a value v'
/// the issuer never signed. Any acceptance is a violation (C' is by construction a commitment to v' ≠ m).
fn surplus_response_forgery<S: ShortGroupSignatureScheme + 'static>(em: &mut Emitter, rng: &mut Rng, suite: &str) {
    use std::cell::Cell;
    use std::rc::Rc;
    for round in 0..em.n(1, 4) {
        let age = rng.range(18, 60);
        let mix = Mix { n_creds: 1, n_claims: 3 + (round % 3), age, disclosed: vec![if round % 2 == 0 { vec![] } else { vec!["name".to_string()] }], commitment: Some(2), ..Default::default() };
        let scn = Scn::<S>::build(rng, &mix);
        let sid = scn.sig_ids[0].clone();
        let m = scn.bundles[0].credential.claims[2].to_scalar();
        let v_forged = NumberClaim::from((age + 1 + rng.range(0, 60)) as isize).to_scalar();
        let rho = v_forged * Option::<Scalar>::from(m.invert()).unwrap();
        let wide = |x: &Scalar| -> Option<[u8; 64]> {
            let mut le = [0u8; 64];
            le[..32].copy_from_slice(&x.to_le_bytes());
            if Scalar::from_bytes_wide(&le) == *x {
                return Some(le);
            }
            let mut be = [0u8; 64];
            be[32..].copy_from_slice(&x.to_be_bytes());
            if Scalar::from_bytes_wide(&be) == *x {
                return Some(be);
            }
            None
        };
        let got: Rc<Cell<Option<(Scalar, Scalar)>>> = Rc::new(Cell::new(None));
        let g2 = got.clone();
        merlin::vlog::take();
        merlin::vlog::set_override(Some(Box::new(move |tid, label, log| {
            let main = log.iter().find(|e| e.kind == 2 && e.label == b"credx presentation").map(|e| e.tid);
            if label != b"challenge bytes" || main != Some(tid) {
                return None;
            }
            let mut items = main_items(log);
            // the commitment statement's item (the BBS proof hashes its own `t` under the same label)
            let at = items.iter().position(|it| it.0.is_empty() && it.1 == b"com0").map(|i| i + 1);
            for (i, it) in items.iter_mut().enumerate() {
                if Some(i) == at && it.0 == b"commitment" {
                    if let Some(c) = <[u8; 48]>::try_from(it.1.as_slice()).ok().and_then(|b| Option::<G1Affine>::from(G1Affine::from_compressed(&b))) {
                        it.1 = (G1Projective::from(c) * rho).to_compressed().to_vec();
                    }
                }
            }
            merlin::vlog::enable(false);
            let c = Scalar::from_bytes_wide(&challenge_of(&items));
            merlin::vlog::enable(true);
            let lambda = c * rho;
            g2.set(Some((c, lambda)));
            wide(&lambda).map(|b| b.to_vec())
        })));
        merlin::vlog::enable(true);
        let r = call(|| Presentation::create(&scn.credentials, &scn.schema, &scn.nonce));
        merlin::vlog::enable(false);
        merlin::vlog::set_override(None);
        merlin::vlog::take();
        let (p, c, lambda) = match (r, got.get()) {
            (Out::Ok(p), Some((c, l))) if p.challenge == l => (p, c, l),
            _ => {
                em.count("surplus-response:steering-failed");
                continue;
            }
        };
        let mut v = serde_json::to_value(&p).unwrap();
        let com = v["proofs"]["com0"]["Commitment"]["commitment"].as_str().and_then(g1_of_hex);
        let com = match com {
            Some(c) => c,
            None => continue,
        };
        v["proofs"]["com0"]["Commitment"]["commitment"] = json!(g1_hex_c(&(com * rho)));
        v["challenge"] = json!(sc_hex(&c));
        for (name, extra) in [("surplus-minus-lambda", Some(-lambda)), ("surplus-lambda", Some(lambda)), ("no-surplus", None)] {
            let mut w = v.clone();
            if let (Some(x), Some(a)) = (extra, w["proofs"][&sid]["Signature"]["pok"]["proof"].as_array_mut()) {
                a.push(json!(sc_hex(&x)));
            }
            if let Out::Ok(q) = pres_from_value::<S>(&w) {
                judge(em, "c05", suite, &format!("commitment-to-unsigned-value:{}", name), &scn, &q, &format!("rescaled challenge, forged value {}", sc_hex(&v_forged)));
            } else {
                em.count("surplus-response:undecodable");
            }
        }
    }
}

/// A commitment that is not bound by the challenge can be chosen *after* the challenge: the holder fixes the Schnorr
/// commitment T with a nonce unrelated to the signature proof's, learns c, answers the signature proof honestly and sets
/// C = (s_m·G + s_b·H − T)/c — a commitment it can open to a value other than the signed claim. The holder learns in a
/// dry run which items the verifier hashes for the commitment proof; if C is among them the construction cannot close
/// (it is rejected), otherwise it is accepted.
fn late_commitment<S: ShortGroupSignatureScheme + 'static>(em: &mut Emitter, rng: &mut Rng, suite: &str) {
    for ci in [2usize, 1] {
        let mix = Mix { n_creds: 1, n_claims: 4, age: rng.range(18, 60), disclosed: vec![vec![]], commitment: Some(ci), ..Default::default() };
        let scn = Scn::<S>::build(rng, &mix);
        let sid = scn.sig_ids[0].clone();
        let (g, h) = match scn.schema.statements.get("com0") {
            Some(Statements::Commitment(c)) => (c.message_generator, c.blinder_generator),
            _ => continue,
        };
        let without: Vec<Statements<S>> = scn.schema.statements.values().filter(|st| !matches!(st, Statements::Commitment(_))).cloned().collect();
        let prover_schema = PresentationSchema::new_with_id(&without, &scn.schema.id);
        em.oracle_case(&format!("{} late-commitment claim {}", suite, ci));
        // dry run: what does the verifier hash for a commitment proof?
        let p0 = match steered_create(&scn.credentials, &prover_schema, &scn.schema, &scn.nonce, None) {
            Out::Ok(p) => p,
            _ => continue,
        };
        let t = G1Projective::GENERATOR * rng.scalar();
        let c_guess = G1Projective::GENERATOR * rng.scalar();
        let mut v0 = serde_json::to_value(&p0).unwrap();
        v0["proofs"]["com0"] = json!({"Commitment": {"id": "com0", "commitment": g1_hex_c(&c_guess), "blinder_proof": sc_hex(&rng.scalar())}});
        let q0 = match pres_from_value::<S>(&v0) {
            Out::Ok(q) => q,
            _ => continue,
        };
        let (_, _, log) = verify_logged(&q0, &scn.schema, &scn.nonce);
        let items = main_items(&log);
        let (_, _, log0) = verify_logged(&p0, &prover_schema, &scn.nonce);
        let n_sig = main_items(&log0).len().saturating_sub(public_prefix(&prover_schema, &scn.nonce).len());
        let start = public_prefix(&scn.schema, &scn.nonce).len() + n_sig;
        if n_sig == 0 || start >= items.len() {
            em.count("late-commitment:no-items-learned");
            continue;
        }
        // the learned items with the recomputed Schnorr commitment replaced by the holder's T (C stays the guess: if it is
        // hashed, the final object cannot match)
        let mut extra: Vec<(Vec<u8>, Vec<u8>)> = items[start..].to_vec();
        let hashes_c = extra.iter().any(|(_, d)| d.as_slice() == c_guess.to_compressed().as_slice());
        for it in extra.iter_mut() {
            if it.0 == b"blind commitment" {
                it.1 = t.to_compressed().to_vec();
            }
        }
        em.count(&format!("late-commitment:verifier-hashes-the-commitment={}", hashes_c));
        if let Out::Ok(p1) = steered_create_ext(&scn.credentials, &prover_schema, &scn.schema, &scn.nonce, None, extra) {
            let v1 = serde_json::to_value(&p1).unwrap();
            let slot = ci + if suite == "bbs" { 0 } else { 2 };
            let s_m = v1["proofs"][&sid]["Signature"]["pok"]["proof"].get(slot).and_then(|x| x.as_str()).and_then(sc_from_hex);
            let (s_m, c) = match (s_m, Option::<Scalar>::from(p1.challenge.invert())) {
                (Some(s), Some(ci)) => (s, ci),
                _ => continue,
            };
            let s_b = rng.scalar();
            let com = (g * s_m + h * s_b - t) * c;
            let mut v2 = v1.clone();
            v2["proofs"]["com0"] = json!({"Commitment": {"id": "com0", "commitment": g1_hex_c(&com), "blinder_proof": sc_hex(&s_b)}});
            if let Out::Ok(q) = pres_from_value::<S>(&v2) {
                judge(em, "c05", suite, "commitment-chosen-after-the-challenge", &scn, &q, &format!("claim {}", ci));
            }
        }
    }
}

/// Statement identifiers and claim indices that collide when written next to each other without a separator:
/// ("cred", 11) and ("cred1", 1), ("k", 12) and ("k1", 2). Two credentials with 13 claims each; the honest holder must be
/// accepted for a commitment + range on the first pair member, and a holder that runs the sub-protocol on the *other*
/// member (another credential, another value; steered with the verifier's transcript) must be rejected.
fn aliasing_identifiers<S: ShortGroupSignatureScheme + 'static>(em: &mut Emitter, rng: &mut Rng, suite: &str) {
    use credx::claim::*;
    use credx::credential::{ClaimSchema, CredentialSchema};
    use credx::issuer::Issuer;
    let n = 13usize;
    let mut cs = vec![ClaimSchema { claim_type: ClaimType::Revocation, label: "c0".into(), print_friendly: false, validators: vec![] }];
    for i in 1..n {
        cs.push(ClaimSchema { claim_type: ClaimType::Number, label: format!("c{}", i), print_friendly: false, validators: vec![] });
    }
    let schema = match CredentialSchema::new(Some("alias"), None, &[], &cs) {
        Ok(s) => s,
        Err(_) => return,
    };
    let mut bundles = vec![];
    for c in 0..2usize {
        let (_p, mut issuer) = Issuer::<S>::new(&schema);
        let mut claims: Vec<ClaimData> = vec![RevocationClaim::from(format!("alias-{}-{}", c, rng.below(1 << 20))).into()];
        for i in 1..n {
            claims.push(NumberClaim::from((100 * (c + 1) + i) as isize).into());
        }
        match call(|| issuer.sign_credential(&claims)) {
            Out::Ok(b) => bundles.push(b),
            _ => return,
        }
    }
    // (first id, second id, claim of the first, claim of the second) with `first ++ claim₁ == second ++ claim₂`
    let pairs = [("cred", "cred1", 11usize, 1usize), ("k", "k1", 12, 2), ("a1", "a", 1, 11), ("x2", "x21", 10, 0)];
    for (ida, idb, ca, cb) in pairs {
        if cb == 0 {
            continue;
        }
        for order in 0..2 {
            let sig = |id: &str, b: usize| -> Statements<S> { SignatureStatement { disclosed: Default::default(), id: id.to_string(), issuer: bundles[b].issuer.clone() }.into() };
            let va = 100 + ca as isize; // value of claim `ca` in credential 0
            let vb = 200 + cb as isize; // value of claim `cb` in credential 1
            let mk = |refid: &str, claim: usize, lo: isize, hi: isize, rng: &mut Rng| -> PresentationSchema<S> {
                let com = CommitmentStatement { id: "com0".into(), reference_id: refid.to_string(), message_generator: g1_from_dl(rng.sub(1).scalar()), blinder_generator: g1_from_dl(rng.sub(2).scalar()), claim };
                let rg = RangeStatement { id: "rng0".into(), reference_id: "com0".into(), signature_id: refid.to_string(), claim, lower: Some(lo), upper: Some(hi) };
                let mut stmts: Vec<Statements<S>> = if order == 0 { vec![sig(ida, 0), sig(idb, 1)] } else { vec![sig(idb, 1), sig(ida, 0)] };
                stmts.push(com.into());
                stmts.push(rg.into());
                PresentationSchema::new_with_id(&stmts, "alias")
            };
            let mut creds: IndexMap<String, credx::presentation::PresentationCredential<S>> = IndexMap::new();
            creds.insert(ida.to_string(), bundles[0].credential.clone().into());
            creds.insert(idb.to_string(), bundles[1].credential.clone().into());
            let nonce = rng.bytes(16);
            // honest: the range holds for the referenced claim
            let honest = mk(ida, ca, va - 5, va + 5, rng);
            em.oracle_case(&format!("{} aliasing honest {} {} order {}", suite, ida, idb, order));
            em.count("aliasing:honest");
            let ok = match call(|| Presentation::create(&creds, &honest, &nonce)) {
                Out::Ok(p) => call(|| p.verify(&honest, &nonce)).is_ok(),
                _ => false,
            };
            if !ok {
                em.violation("c05:aliasing-honest-rejected", format!("{}: honest presentation with statement ids '{}' / '{}' and a commitment + range on claim {} of '{}' is not created / accepted", suite, ida, idb, ca, ida), json!({"suite": suite, "ids": [ida, idb], "claim": ca, "order": order}));
            }
            // deviating: the verifier asks for a range that only the *other* credential's claim satisfies; the holder runs
            // commitment and range on that other claim and is steered with the verifier's transcript
            let verifier = mk(ida, ca, vb - 5, vb + 5, rng);
            let prover = mk(idb, cb, vb - 5, vb + 5, rng);
            em.oracle_case(&format!("{} aliasing retarget {} {} order {}", suite, ida, idb, order));
            match crate::adv::steered_create(&creds, &prover, &verifier, &nonce, None) {
                Out::Ok(p) => {
                    em.count("aliasing:steered");
                    if call(|| p.verify(&verifier, &nonce)).is_ok() {
                        em.violation("c05:aliasing-retarget-accepted", format!("{}: commitment + range statement on claim {} of '{}' (value {}) accepted for a proof made on claim {} of '{}' (value {})", suite, ca, ida, va, cb, idb, vb), json!({"suite": suite, "ids": [ida, idb], "claims": [ca, cb], "order": order, "presentation": serde_json::to_value(&p).unwrap_or_default()}));
                    }
                }
                o => em.count(&format!("aliasing:steered-{}", o.class())),
            }
        }
    }
}

pub fn gen_c05(em: &mut Emitter, rng: &mut Rng) {
    em.rule = "deviating holders owning valid credentials, per statement kind (commitment, range via commitment, verifiable encryption, encrypt-and-decrypt, \
               revocation, membership): the real prover runs the predicate sub-protocol on another hidden claim of the same credential / on the other \
               credential and is steered with the verifier's transcript for the requested claim; the proof's disclosed-index list is then put in every \
               order; predicate proofs are transplanted between runs; \
               the real prover run for a rescaled challenge with a surplus response appended and the commitment rescaled to an unsigned value. oracle: accepted although the value at the referenced claim differs".into();
    c05_suite::<Bbs>(em, rng, "bbs", "c05", None);
    c05_suite::<Ps>(em, rng, "ps", "c05", None);
    let base = 2 * em.n(12, 120);
    if em.mine(base) {
        revocation_on_disclosed_claim::<Bbs>(em, &mut rng.sub(8001), "bbs");
    }
    if em.mine(base + 1) {
        revocation_on_disclosed_claim::<Ps>(em, &mut rng.sub(8002), "ps");
    }
    if em.mine(base + 2) {
        unlinked_accumulator_proof::<Bbs>(em, &mut rng.sub(8003), "bbs");
    }
    if em.mine(base + 3) {
        unlinked_accumulator_proof::<Ps>(em, &mut rng.sub(8004), "ps");
    }
    if em.mine(base + 4) {
        surplus_response_forgery::<Bbs>(em, &mut rng.sub(8005), "bbs");
    }
    if em.mine(base + 5) {
        surplus_response_forgery::<Ps>(em, &mut rng.sub(8006), "ps");
    }
    if em.mine(base + 14) {
        aliasing_identifiers::<Bbs>(em, &mut rng.sub(8015), "bbs");
    }
    if em.mine(base + 15) {
        aliasing_identifiers::<Ps>(em, &mut rng.sub(8016), "ps");
    }
    if em.mine(base + 12) {
        late_commitment::<Bbs>(em, &mut rng.sub(8013), "bbs");
    }
    if em.mine(base + 13) {
        late_commitment::<Ps>(em, &mut rng.sub(8014), "ps");
    }
    // hand-written encrypt-and-decrypt holder: accepted ⇒ what the key holder recovers is the signed claim
    if em.mine(base + 10) {
        crate::c10::ved_deviations::<Bbs>(em, &mut rng.sub(8011), "bbs", "c05");
    }
    if em.mine(base + 11) {
        crate::c10::ved_deviations::<Ps>(em, &mut rng.sub(8012), "ps", "c05");
    }
    // the byte-wise part of a decryptable encryption run on a substitute value (hand-written holder)
    if em.mine(base + 8) {
        crate::c10::verenc_byte_deviation::<Bbs>(em, &mut rng.sub(8009), "bbs", "c05");
    }
    if em.mine(base + 9) {
        crate::c10::verenc_byte_deviation::<Ps>(em, &mut rng.sub(8010), "ps", "c05");
    }
    // equality statements over 3..4 credentials whose values are only partially equal (every pairing pattern)
    if em.mine(base + 6) {
        c09_layouts::<Bbs>(em, &mut rng.sub(8007), "bbs", "c05");
    }
    if em.mine(base + 7) {
        c09_layouts::<Ps>(em, &mut rng.sub(8008), "ps", "c05");
    }
}

// ------------------------------------------------------------------------------------------------

fn c09_suite<S: ShortGroupSignatureScheme + 'static>(em: &mut Emitter, base: &mut Rng, suite: &str) {
    let off = if suite == "bbs" { 0 } else { 1 };
    for k in 0..em.n(10, 120) {
        if !em.mine(2 * k + off) {
            continue;
        }
        let rng = &mut base.sub((2 * k + off) as u64);
        let n_creds = 2 + rng.below(3) as usize;
        let n_claims = 4 + rng.below(3) as usize;
        // equality on claim position `pos` (name: hashed, age: number, ssn: scalar)
        let pos = [1usize, 2, 3][k % 3];
        // two scenarios in five disclose two other claims whose labels sort differently from their schema positions
        // (name/age, ssn/level, name/level): revealed lists built from labels and from indices then differ in order
        let disclose_pair: Option<(usize, usize)> = if k % 5 == 1 || k % 5 == 2 { Some(match pos { 1 => (3, 4), 2 => (1, 4), _ => (1, 2) }) } else { None };
        let n_claims = if disclose_pair.is_some() { n_claims.max(5) } else { n_claims };
        let mut mix = Mix { n_creds: n_creds.min(3), n_claims, age: 30, equality: true, ..Default::default() };
        mix.disclosed = (0..mix.n_creds).map(|c| match disclose_pair {
            Some((a, b)) if c == 0 || k % 5 == 2 => vec![LABELS[a].to_string(), LABELS[b].to_string()],
            _ => vec![],
        }).collect();
        if k % 4 == 3 {
            mix.commitment = Some(pos);
        }
        let mut scn = Scn::<S>::build(rng, &mix);
        // rebuild the credentials so that the claim at `pos` is equal (or not) across credentials
        let equal = k % 2 == 0;
        let high_bits_only = !equal && pos == 3 && k % 3 == 0;
        let base_scalar = ScalarClaim::encode_str("123456789").unwrap();
        for c in 0..mix.n_creds {
            let mut claims = scn.bundles[c].credential.claims.clone();
            claims[0] = RevocationClaim::from(format!("eq-{}-{}", k, c)).into();
            claims[1] = HashedClaim::from(if equal || pos != 1 || c == 0 { "Same Name".to_string() } else { format!("Other {}", c) }).into();
            claims[2] = NumberClaim::from(if equal || pos != 2 || c == 0 { 41isize } else { 41 + c as isize }).into();
            let mut s = base_scalar.value;
            if !(equal || pos != 3 || c == 0) {
                // differ only above bit 64 (and in the low bits for the other variant)
                s += if high_bits_only { Scalar::from(1u64 << 63) * Scalar::from(4u64) } else { Scalar::ONE };
            }
            claims[3] = ScalarClaim::from(s).into();
            let who = if k % 4 == 1 { 0 } else { c };
            let b = scn.issuers[who].sign_credential(&claims).unwrap();
            scn.credentials.insert(scn.sig_ids[c].clone(), b.credential.clone().into());
            scn.bundles[c] = b;
        }
        // statements: equality over `pos`
        let stmts: Vec<Statements<S>> = scn
            .schema
            .statements
            .values()
            .map(|s| match s {
                Statements::Equality(e) => {
                    let mut t = (**e).clone();
                    for (_, v) in t.ref_id_claim_index.iter_mut() {
                        *v = pos;
                    }
                    t.into()
                }
                Statements::Signature(ss) => {
                    let mut t = (**ss).clone();
                    let idx = scn.sig_ids.iter().position(|x| x == &t.id).unwrap();
                    t.issuer = scn.bundles[idx].issuer.clone();
                    t.into()
                }
                Statements::Commitment(c) => {
                    let mut t = (**c).clone();
                    t.claim = pos;
                    t.into()
                }
                o => o.clone(),
            })
            .collect();
        scn.schema = PresentationSchema::new_with_id(&stmts, &scn.schema.id);
        em.count(&format!("{}:pos={}:equal={}", suite, pos, equal));
        let replay = scn.replay(json!({"suite": suite, "pos": pos, "equal": equal, "high_bits_only": high_bits_only}));
        if equal {
            // completeness
            em.oracle_case(&format!("{} honest-equal {}", suite, k));
            match scn.create() {
                Out::Ok(p) => {
                    if !scn.verify(&p).is_ok() {
                        em.violation("c09:equal-values-rejected", format!("{}: honest presentation with identical values rejected (claim position {})", suite, pos), replay.clone());
                    }
                    let pv = serde_json::to_value(&p).unwrap();
                    let refs: Vec<String> = scn.sig_ids.iter().map(|id| sig_ref_tok(&pv, id, n_claims)).collect();
                    em.op(format!("eq.verdict {} {} {}", if suite == "bbs" { 0 } else { 2 }, pos, refs.join(" ")), format!("{}", scn.verify(&p).is_ok()));
                    // equality proof removed / moved to another id
                    let mut q = p.clone();
                    q.proofs.shift_remove("eq0");
                    judge(em, "c09", suite, "equality-proof-removed", &scn, &q, "");
                    let mut q = p.clone();
                    if let Some(pr) = q.proofs.shift_remove("eq0") {
                        q.proofs.insert("eq-elsewhere".into(), pr);
                    }
                    judge(em, "c09", suite, "equality-proof-under-other-id", &scn, &q, "");
                }
                _ => em.violation("c09:equal-values-creation-failed", format!("{}: honest creation failed with identical values (claim position {})", suite, pos), replay.clone()),
            }
        } else {
            // the honest prover must refuse
            em.oracle_case(&format!("{} honest-unequal {}", suite, k));
            if let Out::Ok(p) = scn.create() {
                if scn.verify(&p).is_ok() {
                    em.violation("c09:unequal-values-accepted", format!("{}: presentation accepted although the values differ (claim position {}, high bits only: {})", suite, pos, high_bits_only), replay.clone());
                }
            }
            // deviating holder: prove everything except the equality, answer the verifier's challenge, attach the proof object
            let without: Vec<Statements<S>> = scn.schema.statements.values().filter(|s| !matches!(s, Statements::Equality(_))).cloned().collect();
            let prover_schema = PresentationSchema::new_with_id(&without, &scn.schema.id);
            if let Out::Ok(p) = steered_create(&scn.credentials, &prover_schema, &scn.schema, &scn.nonce, None) {
                let mut v = serde_json::to_value(&p).unwrap();
                v["proofs"]["eq0"] = json!({"Equality": {"id": "eq0"}});
                if let Out::Ok(q) = pres_from_value::<S>(&v) {
                    judge(em, "c09", suite, "independent-nonces", &scn, &q, &format!("pos {} high-bits-only {}", pos, high_bits_only));
                    let refs: Vec<String> = scn.sig_ids.iter().map(|id| sig_ref_tok(&v, id, n_claims)).collect();
                    em.op(format!("eq.verdict {} {} {}", if suite == "bbs" { 0 } else { 2 }, pos, refs.join(" ")), format!("{}", scn.verify(&q).is_ok()));
                    // the first credential's proof repeated under the second statement's key, the genuine second proof parked
                    // under a spare key: what is verified and what the equality check reads must be the same objects
                    {
                        let mut v3 = v.clone();
                        let pa = v3["proofs"][&scn.sig_ids[0]].clone();
                        let pb = v3["proofs"][&scn.sig_ids[1]].clone();
                        v3["proofs"][&scn.sig_ids[1]] = pa;
                        v3["proofs"]["spare"] = pb;
                        if let Out::Ok(q3) = pres_from_value::<S>(&v3) {
                            judge(em, "c09", suite, "proof-repeated-under-other-key", &scn, &q3, &format!("pos {}", pos));
                        }
                    }
                    // copy the first credential's response into the others' vectors at that claim's slot
                    // slot of a hidden claim = index − #(disclosed indices below it) (BBS), + 2 (PS), per credential
                    let slot_of = |c: usize| -> usize {
                        let below = mix.disclosed[c].iter().filter(|l| LABELS.iter().position(|x| x == l).map(|i| i < pos).unwrap_or(false)).count();
                        pos - below + if suite == "bbs" { 0 } else { 2 }
                    };
                    let mut v2 = v.clone();
                    let first = v2["proofs"][&scn.sig_ids[0]]["Signature"]["pok"]["proof"].get(slot_of(0)).cloned().unwrap_or(serde_json::Value::Null);
                    for c in 1..mix.n_creds {
                        if let Some(x) = v2["proofs"][&scn.sig_ids[c]]["Signature"]["pok"]["proof"].get_mut(slot_of(c)) {
                            *x = first.clone();
                        }
                    }
                    if let Out::Ok(q2) = pres_from_value::<S>(&v2) {
                        judge(em, "c09", suite, "responses-copied", &scn, &q2, &format!("pos {}", pos));
                        let mut q3 = q2.clone();
                        fix_challenge(&mut q3, &scn.schema, &scn.nonce, 2);
                        judge(em, "c09", suite, "responses-copied+challenge-fixed", &scn, &q3, &format!("pos {}", pos));
                    }
                }
            }
        }
        if k < 3 {
            em.sample(json!({"suite": suite, "pos": pos, "equal": equal, "creds": mix.n_creds}));
        }
    }
}

/// partially equal layouts over 3..4 credentials (a,a,b / a,b,a / a,a,b,b / …): a deviating holder proves
/// equality honestly inside every group of equal values (shared blinding per group) and answers the
/// verifier's challenge for one equality statement over *all* credentials
fn c09_layouts<S: ShortGroupSignatureScheme + 'static>(em: &mut Emitter, rng: &mut Rng, suite: &str, tag: &str) {
    let layouts: Vec<Vec<u8>> = vec![
        vec![0, 0, 0], vec![0, 0, 0, 0], vec![0, 0, 1], vec![0, 1, 0], vec![1, 0, 0], vec![0, 1, 1],
        vec![0, 0, 1, 1], vec![0, 1, 0, 1], vec![0, 1, 1, 0], vec![0, 0, 0, 1], vec![0, 0, 1, 0], vec![0, 1, 0, 0], vec![1, 0, 0, 0], vec![0, 0, 1, 2], vec![0, 1, 2, 2], vec![0, 1, 1, 2],
    ];
    for (li, layout) in layouts.iter().enumerate() {
        if !em.thorough() && li % 2 == 1 && layout.len() == 4 && li > 8 {
            continue;
        }
        let n_creds = layout.len();
        let pos = [1usize, 2, 3][li % 3];
        let mut mix = Mix { n_creds, n_claims: 4, age: 30, equality: true, ..Default::default() };
        mix.disclosed = (0..n_creds).map(|_| vec![]).collect();
        let mut scn = Scn::<S>::build(rng, &mix);
        for c in 0..n_creds {
            let g = layout[c] as usize;
            let mut claims = scn.bundles[c].credential.claims.clone();
            claims[0] = RevocationClaim::from(format!("lay-{}-{}", li, c)).into();
            claims[1] = HashedClaim::from(format!("Name {}", if pos == 1 { g } else { 0 })).into();
            claims[2] = NumberClaim::from(41 + if pos == 2 { g as isize } else { 0 }).into();
            claims[3] = ScalarClaim::from(Scalar::from(7u64 + if pos == 3 { g as u64 } else { 0 })).into();
            // every other layout: all credentials from one issuer (several references to credentials of the same issuer)
            let who = if li % 2 == 1 { 0 } else { c };
            let b = scn.issuers[who].sign_credential(&claims).unwrap();
            scn.credentials.insert(scn.sig_ids[c].clone(), b.credential.clone().into());
            scn.bundles[c] = b;
        }
        let sigs: Vec<Statements<S>> = (0..n_creds).map(|c| SignatureStatement { disclosed: Default::default(), id: scn.sig_ids[c].clone(), issuer: scn.bundles[c].issuer.clone() }.into()).collect();
        // verifier: one equality statement over everything
        let mut all = IndexMap::new();
        for c in 0..n_creds {
            all.insert(scn.sig_ids[c].clone(), pos);
        }
        let mut vst = sigs.clone();
        vst.push(EqualityStatement { id: "eq0".into(), ref_id_claim_index: all }.into());
        let verifier_schema = PresentationSchema::new_with_id(&vst, "c09-layout");
        // prover: one equality statement per group of two or more
        let mut pst = sigs.clone();
        let mut gi = 0;
        for g in 0..3u8 {
            let members: Vec<usize> = (0..n_creds).filter(|c| layout[*c] == g).collect();
            if members.len() >= 2 {
                let mut m = IndexMap::new();
                for c in &members {
                    m.insert(scn.sig_ids[*c].clone(), pos);
                }
                pst.push(EqualityStatement { id: if gi == 0 { "eq0".to_string() } else { format!("eq0-{}", gi) }, ref_id_claim_index: m }.into());
                gi += 1;
            }
        }
        let prover_schema = PresentationSchema::new_with_id(&pst, "c09-layout");
        scn.schema = verifier_schema.clone();
        em.oracle_case(&format!("{} layout {:?} pos {}", suite, layout, pos));
        em.count(&format!("{}:layout-{}", suite, n_creds));
        if let Out::Ok(p) = steered_create(&scn.credentials, &prover_schema, &verifier_schema, &scn.nonce, None) {
            let mut v = serde_json::to_value(&p).unwrap();
            if let Some(m) = v["proofs"].as_object_mut() {
                let extra: Vec<String> = m.keys().filter(|k| k.starts_with("eq0-")).cloned().collect();
                for k in extra {
                    m.remove(&k);
                }
            }
            if v["proofs"]["eq0"].is_null() {
                v["proofs"]["eq0"] = json!({"Equality": {"id": "eq0"}});
            }
            if let Out::Ok(q) = pres_from_value::<S>(&v) {
                if layout.iter().all(|g| *g == 0) {
                    if !scn.verify(&q).is_ok() {
                        em.violation(&format!("{}:equal-values-rejected", tag), format!("{}: identical values over {} credentials rejected", suite, n_creds), scn.replay(json!({"suite": suite, "layout": layout})));
                    }
                } else {
                    judge(em, tag, suite, "partially-equal-layout", &scn, &q, &format!("layout {:?} pos {}", layout, pos));
                }
                // model: the verifier's test on the collected responses (everything else in q is valid)
                let slot = if suite == "bbs" { pos } else { pos + 2 };
                let rs: Vec<String> = (0..n_creds).map(|c| v["proofs"][&scn.sig_ids[c]]["Signature"]["pok"]["proof"][slot].as_str().unwrap_or("").to_string()).collect();
                em.op(format!("eq.check {}", rs.join(",")), format!("{}", scn.verify(&q).is_ok()));
                let refs: Vec<String> = scn.sig_ids.iter().map(|id| sig_ref_tok(&v, id, 4)).collect();
                em.op(format!("eq.verdict {} {} {}", if suite == "bbs" { 0 } else { 2 }, pos, refs.join(" ")), format!("{}", scn.verify(&q).is_ok()));
            }
            // the same holder with values that are all equal: one group, accepted
            
        } else {
            em.count("layout-steered-create-failed");
        }
    }
}

/// identical signed values in different representations (text vs bytes with another print flag, number vs the
/// scalar of that number, claims of different schemas): the honest holder must succeed — equality is about the
/// signed value
pub fn c09_representations<S: ShortGroupSignatureScheme + 'static>(em: &mut Emitter, rng: &mut Rng, suite: &str, tag: &str) {
    use credx::credential::{ClaimSchema, CredentialSchema};
    use credx::issuer::Issuer;
    let schema_b = |second: ClaimType, pf: bool| {
        CredentialSchema::new(
            Some("verif-b"),
            None,
            &[],
            &[
                ClaimSchema { claim_type: ClaimType::Revocation, label: "id".into(), print_friendly: false, validators: vec![] },
                ClaimSchema { claim_type: second, label: "value".into(), print_friendly: pf, validators: vec![] },
                ClaimSchema { claim_type: ClaimType::Hashed, label: "other".into(), print_friendly: true, validators: vec![] },
            ],
        )
        .unwrap()
    };
    let n = NumberClaim::from(rng.range(-1000, 1000) as isize);
    let mut bytes_claim = HashedClaim::from("Alice Example".as_bytes().to_vec());
    bytes_claim.print_friendly = false;
    let cases: Vec<(&str, ClaimType, bool, ClaimData, ClaimType, bool, ClaimData)> = vec![
        ("text-vs-bytes", ClaimType::Hashed, true, HashedClaim::from("Alice Example").into(), ClaimType::Hashed, false, bytes_claim.into()),
        ("number-vs-scalar", ClaimType::Number, true, n.clone().into(), ClaimType::Scalar, false, ScalarClaim::from(n.to_scalar()).into()),
        ("same-representation", ClaimType::Number, true, n.clone().into(), ClaimType::Number, true, n.clone().into()),
    ];
    for (name, ta, pfa, ca, tb, pfb, cb) in cases {
        let (pa, mut ia) = Issuer::<S>::new(&schema_b(ta, pfa));
        let (pb, mut ib) = Issuer::<S>::new(&schema_b(tb, pfb));
        let ba = ia.sign_credential(&[RevocationClaim::from("rep-a").into(), ca.clone(), HashedClaim::from("x").into()]);
        let bb = ib.sign_credential(&[RevocationClaim::from("rep-b").into(), cb.clone(), HashedClaim::from("y").into()]);
        let (ba, bb) = match (ba, bb) {
            (Ok(a), Ok(b)) => (a, b),
            _ => {
                em.count("representations:issuance-failed");
                continue;
            }
        };
        if ca.to_scalar() != cb.to_scalar() {
            em.count("representations:scalars-differ");
            continue;
        }
        let _ = (&pa, &pb);
        let sa = SignatureStatement { disclosed: Default::default(), id: "sa".to_string(), issuer: ba.issuer.clone() };
        let sb = SignatureStatement { disclosed: Default::default(), id: "sb".to_string(), issuer: bb.issuer.clone() };
        let mut m = IndexMap::new();
        m.insert("sa".to_string(), 1usize);
        m.insert("sb".to_string(), 1usize);
        let eq = EqualityStatement { id: "eq".to_string(), ref_id_claim_index: m.clone() };
        let mut m_rev = IndexMap::new();
        m_rev.insert("sb".to_string(), 1usize);
        m_rev.insert("sa".to_string(), 1usize);
        let eq_rev = EqualityStatement { id: "eq".to_string(), ref_id_claim_index: m_rev };
        let mut creds: IndexMap<String, credx::presentation::PresentationCredential<S>> = IndexMap::new();
        creds.insert("sa".to_string(), ba.credential.clone().into());
        creds.insert("sb".to_string(), bb.credential.clone().into());
        // the equality alone (references listed in both orders), then with a predicate on each member in turn: a
        // commitment, and a range where the member is a number
        let mut variants: Vec<(String, Vec<Statements<S>>)> = vec![
            ("plain".into(), vec![sa.clone().into(), sb.clone().into(), eq.clone().into()]),
            ("references-reversed".into(), vec![sa.clone().into(), sb.clone().into(), eq_rev.clone().into()]),
        ];
        for (member, claim) in [("sa", &ca), ("sb", &cb)] {
            for (order, e) in [("", &eq), ("-references-reversed", &eq_rev)] {
                let com = CommitmentStatement { id: "com".into(), reference_id: member.to_string(), message_generator: g1_from_dl(rng.scalar()), blinder_generator: g1_from_dl(rng.scalar()), claim: 1 };
                let mut st: Vec<Statements<S>> = vec![sa.clone().into(), sb.clone().into(), e.clone().into(), com.into()];
                if let ClaimData::Number(nc) = claim {
                    st.push(RangeStatement { id: "rng".into(), reference_id: "com".into(), signature_id: member.to_string(), claim: 1, lower: Some(nc.value - 5), upper: Some(nc.value + 5) }.into());
                    variants.push((format!("range-on-{}{}", member, order), st));
                } else {
                    variants.push((format!("commitment-on-{}{}", member, order), st));
                }
            }
        }
        for (vname, st) in variants {
            let schema = PresentationSchema::new_with_id(&st, "rep");
            let nonce = rng.bytes(16);
            em.oracle_case(&format!("{} representations {} {}", suite, name, vname));
            let ok = match call(|| Presentation::create(&creds, &schema, &nonce)) {
                Out::Ok(p) => call(|| p.verify(&schema, &nonce)).is_ok(),
                _ => false,
            };
            em.count(&format!("representations:{}:{}:{}", name, vname, ok));
            if !ok {
                em.violation(&format!("{}:equal-values-rejected:representation", tag), format!("{}: identical signed values in two representations ({}, {}) are not accepted by an honest create / verify", suite, name, vname), json!({"suite": suite, "case": name, "variant": vname, "a": serde_json::to_value(&ca).unwrap_or_default(), "b": serde_json::to_value(&cb).unwrap_or_default()}));
            }
        }
    }
}

/// The equated claim sits at another position in each credential and the references are listed in an order that is not
/// the lexicographic order of the statement ids; holder and verifier each obtain the schema from its wire form
/// (JSON / CBOR / BARE). The statement every party holds must be the authored one: honest holder with equal values
/// accepted, a holder whose values at the *stated* positions differ not accepted (even when other positions coincide).
pub fn equality_positions<S: ShortGroupSignatureScheme + 'static>(em: &mut Emitter, rng: &mut Rng, suite: &str, tag: &str) {
    use credx::credential::{ClaimSchema, CredentialSchema};
    use credx::issuer::Issuer;
    use std::collections::BTreeMap;
    let mk = |labels: [&str; 2]| {
        CredentialSchema::new(
            Some("verif-pos"),
            None,
            &[],
            &[
                ClaimSchema { claim_type: ClaimType::Revocation, label: "id".into(), print_friendly: false, validators: vec![] },
                ClaimSchema { claim_type: ClaimType::Hashed, label: labels[0].into(), print_friendly: true, validators: vec![] },
                ClaimSchema { claim_type: ClaimType::Hashed, label: labels[1].into(), print_friendly: true, validators: vec![] },
            ],
        )
        .unwrap()
    };
    let (_pa, mut ia) = Issuer::<S>::new(&mk(["value", "other"]));
    let (_pb, mut ib) = Issuer::<S>::new(&mk(["other", "value"]));
    let x = format!("X-{}", rng.below(1000));
    let z = format!("Z-{}", rng.below(1000));
    let w = format!("W-{}", rng.below(1000));
    // (name, A = [id, value, other], B = [id, other, value], stated positions A[1] / B[2] equal?)
    let cases: Vec<(&str, [String; 2], [String; 2], bool)> = vec![
        ("equal-at-stated-positions", [x.clone(), w.clone()], [z.clone(), x.clone()], true),
        ("equal-everywhere", [x.clone(), x.clone()], [x.clone(), x.clone()], true),
        ("equal-only-at-exchanged-positions", [x.clone(), w.clone()], [w.clone(), z.clone()], false),
    ];
    for (name, a, b, equal) in cases {
        let ba = ia.sign_credential(&[RevocationClaim::from(format!("pos-a-{}", name)).into(), HashedClaim::from(a[0].as_str()).into(), HashedClaim::from(a[1].as_str()).into()]);
        let bb = ib.sign_credential(&[RevocationClaim::from(format!("pos-b-{}", name)).into(), HashedClaim::from(b[0].as_str()).into(), HashedClaim::from(b[1].as_str()).into()]);
        let (ba, bb) = match (ba, bb) {
            (Ok(a), Ok(b)) => (a, b),
            _ => continue,
        };
        for (ida, idb) in [("zz-passport", "aa-licence"), ("aa-passport", "zz-licence"), ("s10", "s9")] {
            let sa = SignatureStatement { disclosed: Default::default(), id: ida.to_string(), issuer: ba.issuer.clone() };
            let sb = SignatureStatement { disclosed: Default::default(), id: idb.to_string(), issuer: bb.issuer.clone() };
            let mut m = IndexMap::new();
            m.insert(ida.to_string(), 1usize);
            m.insert(idb.to_string(), 2usize);
            let authored: BTreeMap<String, usize> = m.iter().map(|(k, v)| (k.clone(), *v)).collect();
            let eq = EqualityStatement { id: "eq".to_string(), ref_id_claim_index: m };
            let schema = PresentationSchema::new_with_id(&[sa.into(), sb.into(), eq.into()], "pos");
            let mut creds: IndexMap<String, credx::presentation::PresentationCredential<S>> = IndexMap::new();
            creds.insert(ida.to_string(), ba.credential.clone().into());
            creds.insert(idb.to_string(), bb.credential.clone().into());
            let nonce = rng.bytes(16);
            let wires: Vec<(&str, Option<PresentationSchema<S>>)> = vec![
                ("in-memory", Some(schema.clone())),
                ("json", serde_json::to_string(&schema).ok().and_then(|t| call(|| serde_json::from_str::<PresentationSchema<S>>(&t)).ok())),
                ("cbor", serde_cbor::to_vec(&schema).ok().and_then(|t| call(|| serde_cbor::from_slice::<PresentationSchema<S>>(&t)).ok())),
                ("bare", serde_bare::to_vec(&schema).ok().and_then(|t| call(|| serde_bare::from_slice::<PresentationSchema<S>>(&t)).ok())),
            ];
            for (wire, parsed) in wires {
                let parsed = match parsed {
                    Some(p) => p,
                    None => {
                        em.count(&format!("positions:{}:undecodable", wire));
                        continue;
                    }
                };
                em.oracle_case(&format!("{} positions {} {}/{} {}", suite, name, ida, idb, wire));
                // the statement the party holds is the authored one
                let held: Option<BTreeMap<String, usize>> = parsed.statements.get("eq").and_then(|s| match s {
                    Statements::Equality(e) => Some(e.ref_id_claim_index.iter().map(|(k, v)| (k.clone(), *v)).collect()),
                    _ => None,
                });
                if held.as_ref() != Some(&authored) {
                    em.violation(&format!("{}:equality-statement-changed-by-wire-form", tag), format!("{}: equality statement authored as {:?} is held as {:?} after a {} round trip", suite, authored, held, wire), json!({"suite": suite, "wire": wire, "authored": authored, "held": held}));
                }
                let ok = match call(|| Presentation::create(&creds, &parsed, &nonce)) {
                    Out::Ok(p) => call(|| p.verify(&parsed, &nonce)).is_ok(),
                    _ => false,
                };
                em.count(&format!("positions:{}:{}:{}", name, wire, ok));
                if equal && !ok {
                    em.violation(&format!("{}:equal-values-rejected:positions", tag), format!("{}: equal values at the stated positions ({}), schema via {}, ids {}/{}: honest create / verify fails", suite, name, wire, ida, idb), json!({"suite": suite, "case": name, "wire": wire, "ids": [ida, idb]}));
                }
                if !equal && ok {
                    em.violation(&format!("{}:unequal-values-accepted:positions", tag), format!("{}: values at the stated positions differ ({}), schema via {}, ids {}/{}: accepted", suite, name, wire, ida, idb), json!({"suite": suite, "case": name, "wire": wire, "ids": [ida, idb]}));
                }
            }
        }
    }
}

/// The verifier's schema discloses a claim *and* references it in an equality statement. A disclosed claim has no hidden
/// response, so nothing can link it to the other references: the verifier must refuse, whatever the holder sends. The
/// deviating holder (unequal values) runs the real prover without the equality statement under the verifier's
/// transcript and attaches an (empty) equality proof.
fn equality_with_disclosed_reference<S: ShortGroupSignatureScheme + 'static>(em: &mut Emitter, rng: &mut Rng, suite: &str) {
    for (case, n_creds) in [("one-disclosed-one-hidden", 2usize), ("one-disclosed-two-hidden-equal", 3)] {
        let mut mix = Mix { n_creds, n_claims: 4, age: 30, equality: true, ..Default::default() };
        mix.disclosed = (0..n_creds).map(|c| if c == 0 { vec!["name".to_string()] } else { vec![] }).collect();
        // Scn makes the names equal under `equality`; give credential 0 another one
        let mut scn = Scn::<S>::build(rng, &mix);
        let mut c0 = scn.bundles[0].credential.claims.clone();
        c0[0] = RevocationClaim::from(format!("eq-disc-{}", rng.below(1 << 20))).into();
        c0[1] = HashedClaim::from("Somebody Else").into();
        let b = match scn.issuers[0].sign_credential(&c0) {
            Ok(b) => b,
            Err(_) => continue,
        };
        scn.credentials.insert(scn.sig_ids[0].clone(), b.credential.clone().into());
        scn.bundles[0] = b;
        let verifier_schema = scn.schema.clone();
        // prover: same statements without the equality over everything; the hidden references keep an equality among themselves
        let mut pst: Vec<Statements<S>> = verifier_schema.statements.values().filter(|s| !matches!(s, Statements::Equality(_))).cloned().collect();
        if n_creds > 2 {
            let mut m = IndexMap::new();
            for c in 1..n_creds {
                m.insert(scn.sig_ids[c].clone(), 1usize);
            }
            pst.push(EqualityStatement { id: "eq0".into(), ref_id_claim_index: m }.into());
        }
        let prover_schema = PresentationSchema::new_with_id(&pst, &verifier_schema.id);
        em.oracle_case(&format!("{} equality-with-disclosed-reference {}", suite, case));
        match steered_create(&scn.credentials, &prover_schema, &verifier_schema, &scn.nonce, None) {
            Out::Ok(p) => {
                let mut v = serde_json::to_value(&p).unwrap();
                if v["proofs"]["eq0"].is_null() {
                    v["proofs"]["eq0"] = json!({"Equality": {"id": "eq0"}});
                }
                match pres_from_value::<S>(&v) {
                    Out::Ok(q) => {
                        judge(em, "c09", suite, &format!("equality-with-disclosed-reference:{}", case), &scn, &q, "disclosed value differs from the hidden ones");
                        // model: the verdict of the equality verifier on the collected references (everything else in q is valid)
                        let refs: Vec<String> = scn.sig_ids.iter().map(|id| sig_ref_tok(&v, id, 4)).collect();
                        em.op(format!("eq.verdict {} {} {}", if suite == "bbs" { 0 } else { 2 }, 1, refs.join(" ")), format!("{}", scn.verify(&q).is_ok()));
                    }
                    _ => em.count("equality-with-disclosed-reference:undecodable"),
                }
            }
            _ => em.count("equality-with-disclosed-reference:steering-failed"),
        }
    }
}

pub fn gen_c09(em: &mut Emitter, rng: &mut Rng) {
    em.rule = "2..3 credentials from different issuers, equality over a hashed / number / scalar claim position, equal and unequal values (incl. scalars \
               differing only above bit 64), with and without a commitment on the same claim: honest runs (accepted iff equal); deviating holder with \
               unequal values proves everything else with independent nonces under the verifier's challenge (steered prover) and attaches the equality \
               proof, copies responses between proofs, re-fixes the challenge; equality proof removed / stored under another id; partially equal layouts over 3..4 credentials (a,a,b … a,b,b,a, a,a,b,c) with per-group shared blinding; \
               an equality statement one of whose references is also disclosed (with another value): never accepted".into();
    c09_suite::<Bbs>(em, rng, "bbs");
    c09_suite::<Ps>(em, rng, "ps");
    // unit indices after those used by the suites
    let base = 2 * em.n(10, 120);
    if em.mine(base) {
        c09_layouts::<Bbs>(em, &mut rng.sub(9001), "bbs", "c09");
    }
    if em.mine(base + 1) {
        c09_layouts::<Ps>(em, &mut rng.sub(9002), "ps", "c09");
    }
    if em.mine(base + 2) {
        c09_representations::<Bbs>(em, &mut rng.sub(9005), "bbs", "c09");
        equality_positions::<Bbs>(em, &mut rng.sub(9007), "bbs", "c09");
        equality_with_disclosed_reference::<Bbs>(em, &mut rng.sub(9009), "bbs");
    }
    if em.mine(base + 3) {
        c09_representations::<Ps>(em, &mut rng.sub(9006), "ps", "c09");
        equality_positions::<Ps>(em, &mut rng.sub(9008), "ps", "c09");
        equality_with_disclosed_reference::<Ps>(em, &mut rng.sub(9010), "ps");
    }
    // completeness half: honest holders with identical values under overlapping / bridging equality statements
    crate::c03::equality_graphs::<Bbs>(em, &mut rng.sub(9003), "bbs");
    crate::c03::equality_graphs::<Ps>(em, &mut rng.sub(9004), "ps");
}
