//! C02: disclosed claims are exactly those requested and exactly what the issuer signed.
use crate::adv::*;
use crate::common::*;
use crate::pres::*;
use credx::claim::*;
use credx::knox::short_group_sig_core::short_group_traits::ShortGroupSignatureScheme;
use credx::presentation::{Presentation, PresentationProofs, PresentationSchema};
use credx::statement::*;
use indexmap::IndexMap;
use serde_json::json;
use std::collections::BTreeSet;

pub fn false_claim(c: &ClaimData, other_type: bool) -> ClaimData {
    if other_type {
        return match c {
            ClaimData::Number(_) => HashedClaim::from("forty-two").into(),
            _ => NumberClaim::from(4242).into(),
        };
    }
    match c {
        ClaimData::Hashed(h) => {
            let mut v = h.value.clone();
            v.push(b'!');
            ClaimData::Hashed(HashedClaim { value: v, print_friendly: h.print_friendly })
        }
        ClaimData::Number(n) => NumberClaim::from(n.value.wrapping_add(6)).into(),
        ClaimData::Scalar(s) => ScalarClaim::from(s.value + Scalar::ONE).into(),
        ClaimData::Revocation(r) => RevocationClaim::from(format!("{}x", r.value)).into(),
        ClaimData::Enumeration(e) => EnumerationClaim { dst: e.dst.clone(), value: e.value.wrapping_add(1), total_values: e.total_values }.into(),
    }
}

pub fn with_disclosed<S: ShortGroupSignatureScheme>(schema: &PresentationSchema<S>, sig_id: &str, d: &BTreeSet<String>) -> PresentationSchema<S> {
    let stmts: Vec<Statements<S>> = schema
        .statements
        .values()
        .map(|s| match s {
            Statements::Signature(ss) if ss.id == sig_id => {
                let mut t = (**ss).clone();
                t.disclosed = d.clone();
                t.into()
            }
            o => o.clone(),
        })
        .collect();
    PresentationSchema::new_with_id(&stmts, &schema.id)
}

/// what an accepted presentation must report for statement `sig_id`
fn conforms<S: ShortGroupSignatureScheme>(scn: &Scn<S>, p: &Presentation<S>, sig_idx: usize) -> Result<(), String> {
    let sid = &scn.sig_ids[sig_idx];
    let ss = match &scn.schema.statements[sid] {
        Statements::Signature(s) => s,
        _ => return Ok(()),
    };
    let claims = &scn.bundles[sig_idx].credential.claims;
    let schema = &ss.issuer.schema;
    let requested: BTreeSet<String> = ss.disclosed.iter().filter(|l| schema.claim_indices.contains(*l)).cloned().collect();
    let empty = IndexMap::new();
    let reported = p.disclosed_messages.get(sid).unwrap_or(&empty);
    let got: BTreeSet<String> = reported.keys().cloned().collect();
    if got != requested {
        return Err(format!("reported labels {:?} != requested {:?}", got, requested));
    }
    for (l, c) in reported {
        let i = schema.claim_indices.get_index_of(l).unwrap();
        if crate::claims::claim_str(&claims[i]) != crate::claims::claim_str(c) {
            return Err(format!("label {} reported as {:?} but {:?} was signed", l, c, claims[i]));
        }
    }
    Ok(())
}

fn type_name(t: ClaimType) -> &'static str {
    match t {
        ClaimType::Hashed => "hashed",
        ClaimType::Number => "number",
        ClaimType::Scalar => "scalar",
        ClaimType::Revocation => "revocation",
        ClaimType::Enumeration => "enumeration",
        ClaimType::Unknown => "unknown",
    }
}

/// the model's `checkDisclosed` on the same request / report / proof map
fn model_line<S: ShortGroupSignatureScheme>(scn: &Scn<S>, p: &Presentation<S>) -> Option<String> {
    let sid = &scn.sig_ids[0];
    let ss = match &scn.schema.statements[sid] {
        Statements::Signature(s) => s,
        _ => return None,
    };
    let sp = match p.proofs.get(sid) {
        Some(PresentationProofs::Signature(sp)) => sp,
        _ => return None,
    };
    let rep = p.disclosed_messages.get(sid)?;
    let j = |v: Vec<String>| if v.is_empty() { "-".to_string() } else { v.join(",") };
    let reps: Vec<String> = rep.iter().map(|(l, c)| format!("{}~{}~{}", l, crate::claims::claim_str(c), sc_hex(&c.to_scalar()))).collect();
    let inner: Vec<String> = sp.disclosed_messages.iter().map(|(i, s)| format!("{}:{}", i, sc_hex(s))).collect();
    Some(format!(
        "vf.disclosed {} {} {} {} {}",
        j(ss.disclosed.iter().cloned().collect()),
        j(ss.issuer.schema.claim_indices.iter().cloned().collect()),
        j(ss.issuer.schema.claims.iter().map(|c| type_name(c.claim_type).to_string()).collect()),
        if reps.is_empty() { "-".to_string() } else { reps.join(";") },
        if inner.is_empty() { "-".to_string() } else { inner.join(";") }
    ))
}

fn judge<S: ShortGroupSignatureScheme>(em: &mut Emitter, suite: &str, dev: &str, scn: &Scn<S>, p: &Presentation<S>, detail: &str) {
    em.oracle_case(&format!("{} {} {} {}", suite, dev, scn.mix.describe(), detail));
    let v = scn.verify(p);
    // every deviation of this catalogue is otherwise consistent (honest or steered prover), so the
    // verdict of the real verifier is the verdict of the disclosed-claims check
    // (not for the variant that makes report and proof map agree on a value that was never signed:
    // there the check passes and the proof of knowledge is what rejects)
    if !dev.ends_with("-inner-false") {
        if let Some(line) = model_line(scn, p) {
            em.op(line, if v.is_ok() { "true" } else { "false" });
        }
    }
    em.count(&format!("{}:{}", dev, v.class()));
    match v {
        Out::Ok(_) => {
            if let Err(why) = conforms(scn, p, 0) {
                em.violation(&format!("c02:{}", dev), format!("{}: deviation '{}' accepted: {}", suite, dev, why), scn.replay(json!({"suite": suite, "deviation": dev, "presentation": serde_json::to_value(p).unwrap_or_default()})));
            }
        }
        Out::Panic(m) => em.violation(&format!("c02-panic:{}", dev), format!("{}: verify panicked on deviation '{}': {}", suite, dev, m), scn.replay(json!({"suite": suite, "deviation": dev}))),
        Out::Err => {}
    }
}

fn run_suite<S: ShortGroupSignatureScheme + 'static>(em: &mut Emitter, base: &mut Rng, suite: &str) {
    let off = if suite == "bbs" { 0 } else { 1 };
    let n_scn = em.n(10, 150);
    for k in 0..n_scn {
        if !em.mine(2 * k + off) {
            continue;
        }
        let rng = &mut base.sub((2 * k + off) as u64);
        // one credential, signature statement only or with light predicates on undisclosed claims
        let n_claims = 3 + rng.below(4) as usize;
        let mut mix = Mix { n_creds: 1, n_claims, age: rng.range(0, 90), ..Default::default() };
        // numbers at the ends of the domain in some scenarios
        mix.age = match k % 7 { 3 => i64::MIN + 1, 4 => i64::MAX - 1, 5 => i64::MIN, 6 => -1, _ => mix.age };
        if k % 3 == 1 {
            mix.revocation = true;
        }
        // requested disclosure: all subsets for small n in thorough, random otherwise; never the revocation id when used
        let mut d = vec![];
        for i in 0..n_claims {
            if (i != 0 || !mix.revocation) && rng.chance(3, 5) {
                d.push(LABELS[i].to_string());
            }
        }
        if d.is_empty() {
            d.push(LABELS[1].to_string());
        }
        if k % 7 >= 3 && !d.iter().any(|l| l == "age") {
            d.push("age".to_string());
        }
        mix.disclosed = vec![d.clone()];
        let scn = Scn::<S>::build(rng, &mix);
        let sid = scn.sig_ids[0].clone();
        let claims = scn.bundles[0].credential.claims.clone();
        let requested: BTreeSet<String> = d.iter().cloned().collect();
        let honest_map = |labels: &BTreeSet<String>| -> IndexMap<String, ClaimData> {
            let mut m = IndexMap::new();
            for (i, l) in LABELS.iter().enumerate().take(n_claims) {
                if labels.contains(*l) {
                    m.insert(l.to_string(), claims[i].clone());
                }
            }
            m
        };
        // sanity of the steering itself: same schema, no substitution must verify
        match steered_create(&scn.credentials, &scn.schema, &scn.schema, &scn.nonce, None) {
            Out::Ok(p) => {
                em.oracle_case(&format!("{} steer-identity {}", suite, k));
                if !scn.verify(&p).is_ok() {
                    em.violation("harness-steering-broken", format!("{}: steered honest prover is rejected (harness self-check)", suite), scn.replay(json!({"suite": suite})));
                    continue;
                }
            }
            _ => continue,
        }
        for l in d.clone() {
            let li = LABELS.iter().position(|x| *x == l).unwrap();
            let mut less = requested.clone();
            less.remove(&l);
            let schema_less = with_disclosed(&scn.schema, &sid, &less);
            // substitute value / type: claim hidden inside the proof, false value reported
            // "substitute-zero": the one value of the claim's type whose encoding is the zero scalar (revealed zero
            // messages contribute the identity to the verifier's equations)
            let zero_claim: Option<ClaimData> = match &claims[li] {
                ClaimData::Number(_) => Some(NumberClaim::from(isize::MIN).into()),
                ClaimData::Scalar(_) => Some(ScalarClaim::from(Scalar::ZERO).into()),
                _ => None,
            };
            for (dev, other_type) in [("substitute-value", false), ("substitute-type", true), ("substitute-zero", false)] {
                let mut rep = honest_map(&less);
                if dev == "substitute-zero" {
                    match &zero_claim {
                        Some(z) if z.to_scalar() != claims[li].to_scalar() => {
                            rep.insert(l.clone(), z.clone());
                        }
                        _ => continue,
                    }
                } else {
                    rep.insert(l.clone(), false_claim(&claims[li], other_type));
                }
                let mut reported = Reported::new();
                reported.insert(sid.clone(), rep.clone());
                if let Out::Ok(p) = steered_create(&scn.credentials, &schema_less, &scn.schema, &scn.nonce, Some(reported)) {
                    judge(em, suite, dev, &scn, &p, &l);
                    // the same with the proof's inner map padded with the false / the true scalar
                    let inner_false = if dev == "substitute-zero" { "substitute-zero-inner-false" } else { "substitute-value-inner-false" };
                    for (dev2, sc) in [(inner_false, rep[&l].to_scalar()), ("substitute-value-inner-true", claims[li].to_scalar())] {
                        let mut q = p.clone();
                        if let Some(PresentationProofs::Signature(sp)) = q.proofs.get_mut(&sid) {
                            sp.disclosed_messages.insert(li, sc);
                        }
                        judge(em, suite, dev2, &scn, &q, &l);
                    }
                }
            }
            // withhold a requested claim
            let mut reported = Reported::new();
            reported.insert(sid.clone(), honest_map(&less));
            if let Out::Ok(p) = steered_create(&scn.credentials, &schema_less, &scn.schema, &scn.nonce, Some(reported)) {
                judge(em, suite, "withhold", &scn, &p, &l);
            }
            // a requested claim withheld and an unrequested one of the same credential reported in its place: the same
            // number of labels, every reported value genuinely signed and genuinely revealed by the proof
            for (oi, o) in LABELS.iter().enumerate().take(n_claims) {
                if requested.contains(*o) || (oi == 0 && mix.revocation) {
                    continue;
                }
                let mut other = less.clone();
                other.insert(o.to_string());
                let schema_other = with_disclosed(&scn.schema, &sid, &other);
                let mut reported = Reported::new();
                reported.insert(sid.clone(), honest_map(&other));
                if let Out::Ok(p) = steered_create(&scn.credentials, &schema_other, &scn.schema, &scn.nonce, Some(reported)) {
                    judge(em, suite, "label-substituted", &scn, &p, &format!("{} withheld, {} reported", l, o));
                }
                // the proof truthfully reveals the other position (same count), the report keeps the requested label with a
                // false value: nothing in the proof's index list sits at the reported claim's position
                let mut rep2 = honest_map(&less);
                rep2.insert(l.clone(), false_claim(&claims[li], false));
                let mut reported2 = Reported::new();
                reported2.insert(sid.clone(), rep2);
                if let Out::Ok(p) = steered_create(&scn.credentials, &schema_other, &scn.schema, &scn.nonce, Some(reported2)) {
                    judge(em, suite, "false-value-while-proof-reveals-another-position", &scn, &p, &format!("{} reported falsely, {} revealed", l, o));
                }
                break;
            }
        }
        // withhold several / all requested claims at once
        if d.len() >= 2 {
            for keep in [0usize, 1] {
                let less: BTreeSet<String> = d.iter().take(keep).cloned().collect();
                let schema_less = with_disclosed(&scn.schema, &sid, &less);
                let mut reported = Reported::new();
                reported.insert(sid.clone(), honest_map(&less));
                if let Out::Ok(p) = steered_create(&scn.credentials, &schema_less, &scn.schema, &scn.nonce, Some(reported)) {
                    judge(em, suite, if keep == 0 { "withhold-all" } else { "withhold-all-but-one" }, &scn, &p, "");
                }
            }
        }
        // report a claim that was not requested
        for (i, l) in LABELS.iter().enumerate().take(n_claims) {
            if requested.contains(*l) || (i == 0 && mix.revocation) {
                continue;
            }
            let mut more = requested.clone();
            more.insert(l.to_string());
            let schema_more = with_disclosed(&scn.schema, &sid, &more);
            let mut reported = Reported::new();
            reported.insert(sid.clone(), honest_map(&more));
            if let Out::Ok(p) = steered_create(&scn.credentials, &schema_more, &scn.schema, &scn.nonce, Some(reported)) {
                judge(em, suite, "extra", &scn, &p, l);
            }
            break;
        }
        // swap two reported values / relabel
        if d.len() >= 2 {
            let mut rep = honest_map(&requested);
            let (a, b) = (d[0].clone(), d[1].clone());
            let (va, vb) = (rep[&a].clone(), rep[&b].clone());
            rep.insert(a.clone(), vb);
            rep.insert(b.clone(), va);
            let mut reported = Reported::new();
            reported.insert(sid.clone(), rep);
            if let Out::Ok(p) = steered_create(&scn.credentials, &scn.schema, &scn.schema, &scn.nonce, Some(reported)) {
                judge(em, suite, "swap-values", &scn, &p, "");
            }
        }
        // shapes of the proof's own index list on an honest presentation
        if let Out::Ok(p) = scn.create() {
            let variants: Vec<(&str, Box<dyn Fn(&mut IndexMap<usize, Scalar>, &mut Rng)>)> = vec![
                ("inner-reversed", Box::new(|m: &mut IndexMap<usize, Scalar>, _: &mut Rng| m.reverse())),
                ("inner-padded-out-of-range", Box::new(|m: &mut IndexMap<usize, Scalar>, r: &mut Rng| {
                    m.insert(97, r.scalar());
                })),
                ("inner-entry-removed", Box::new(|m: &mut IndexMap<usize, Scalar>, _: &mut Rng| {
                    m.pop();
                })),
                ("inner-value-changed", Box::new(|m: &mut IndexMap<usize, Scalar>, _: &mut Rng| {
                    if let Some((_, v)) = m.iter_mut().next() {
                        *v += Scalar::ONE;
                    }
                })),
                ("inner-hidden-index-added", Box::new(move |m: &mut IndexMap<usize, Scalar>, r: &mut Rng| {
                    for i in 0..n_claims {
                        if !m.contains_key(&i) {
                            m.insert(i, r.scalar());
                            break;
                        }
                    }
                })),
            ];
            for (dev, f) in variants {
                let mut q = p.clone();
                if let Some(PresentationProofs::Signature(sp)) = q.proofs.get_mut(&sid) {
                    f(&mut sp.disclosed_messages, rng);
                }
                judge(em, suite, dev, &scn, &q, "");
                if dev == "inner-reversed" && !scn.verify(&q).is_ok() {
                    em.violation("c02:permuted-index-list-rejected", format!("{}: an honest presentation whose proof lists the same disclosed indices in another order is rejected", suite), scn.replay(json!({"suite": suite})));
                }
            }
            // reported map edits without steering (plain tampering)
            let mut q = p.clone();
            if let Some(dm) = q.disclosed_messages.get_mut(&sid) {
                if let Some((_, v)) = dm.iter_mut().next() {
                    *v = false_claim(v, false);
                }
            }
            judge(em, suite, "reported-value-edited", &scn, &q, "");
            // every reported claim in turn replaced by a claim of another type with the *same* scalar (number ↔ the scalar
            // of its encoding, text ↔ the scalar of its hash): the proof of knowledge cannot tell, only the type check can
            let labels_now: Vec<String> = p.disclosed_messages.get(&sid).map(|m| m.keys().cloned().collect()).unwrap_or_default();
            for l in labels_now {
                let orig = p.disclosed_messages[&sid][&l].clone();
                let sc = orig.to_scalar();
                let mut alts: Vec<ClaimData> = vec![];
                // neighbouring numbers (the holder edits its own copy by one)
                if let ClaimData::Number(nc) = &orig {
                    alts.push(NumberClaim::from(nc.value.wrapping_sub(1)).into());
                    alts.push(NumberClaim::from(nc.value.wrapping_add(1)).into());
                }
                if !matches!(orig, ClaimData::Scalar(_)) {
                    alts.push(ScalarClaim::from(sc).into());
                }
                if !matches!(orig, ClaimData::Number(_)) {
                    let n = NumberClaim::from(sc);
                    if n.to_scalar() == sc {
                        alts.push(n.into());
                    }
                }
                for alt in alts {
                    let mut q = p.clone();
                    q.disclosed_messages.get_mut(&sid).unwrap().insert(l.clone(), alt.clone());
                    judge(em, suite, "reported-claim-retyped-same-scalar", &scn, &q, &l);
                    // the same through the honest prover run on a credential copy whose claim is re-typed (the signature
                    // still fits: same scalar), so that the transcript is consistent with the report
                    let li = LABELS.iter().position(|x| *x == l).unwrap();
                    let mut cred2 = scn.bundles[0].credential.clone();
                    cred2.claims[li] = alt;
                    let mut creds2 = scn.credentials.clone();
                    creds2.insert(sid.clone(), cred2.into());
                    if let Out::Ok(q2) = call(|| Presentation::create(&creds2, &scn.schema, &scn.nonce)) {
                        // same scalar: only the type test of the disclosed-claims check stands in the way (model line);
                        // another scalar (neighbouring number): report and proof agree, the proof of knowledge rejects
                        let dev = if q2.disclosed_messages[&sid][&l].to_scalar() == sc { "credential-copy-retyped-same-scalar" } else { "credential-copy-neighbour-value-inner-false" };
                        judge(em, suite, dev, &scn, &q2, &l);
                    }
                }
            }
            // a credential copy whose signature's group elements are all the point at infinity (the degenerate signature that
            // satisfies a pairing equation for every message vector) and whose disclosed claim is replaced: the honest prover
            // run on it yields a consistent presentation of a value the issuer never signed
            let labels_now: Vec<String> = p.disclosed_messages.get(&sid).map(|m| m.keys().cloned().collect()).unwrap_or_default();
            for l in labels_now.iter().take(2) {
                let li = LABELS.iter().position(|x| *x == l).unwrap();
                let mut cv = serde_json::to_value(&scn.bundles[0].credential).unwrap_or_default();
                let mut replaced = 0;
                if let Some(so) = cv.get_mut("signature").and_then(|x| x.as_object_mut()) {
                    for (_k, v) in so.iter_mut() {
                        let n = v.as_str().map(|x| x.len()).unwrap_or(0);
                        if n == 96 || n == 192 {
                            *v = json!(format!("c0{}", "00".repeat(n / 2 - 1)));
                            replaced += 1;
                        }
                    }
                }
                if replaced == 0 {
                    em.count("degenerate-signature:no-point-field");
                    continue;
                }
                let text = serde_json::to_string(&cv).unwrap_or_default();
                match call(|| serde_json::from_str::<credx::credential::Credential<S>>(&text).map_err(|_| ())) {
                    Out::Ok(mut cred2) => {
                        cred2.claims[li] = false_claim(&cred2.claims[li], false);
                        let mut creds2 = scn.credentials.clone();
                        creds2.insert(sid.clone(), cred2.into());
                        match call(|| Presentation::create(&creds2, &scn.schema, &scn.nonce)) {
                            Out::Ok(q2) => {
                                // through the wire form as well: checks done only by a byte decoder never see this object
                                judge(em, suite, "credential-copy-degenerate-signature-inner-false", &scn, &q2, l);
                                if let Ok(t) = serde_json::to_string(&q2) {
                                    if let Out::Ok(q3) = call(|| serde_json::from_str::<Presentation<S>>(&t).map_err(|_| ())) {
                                        judge(em, suite, "credential-copy-degenerate-signature-json-inner-false", &scn, &q3, l);
                                    }
                                }
                            }
                            o => em.count(&format!("degenerate-signature:create-{}", o.class())),
                        }
                    }
                    o => em.count(&format!("degenerate-signature:decode-{}", o.class())),
                }
            }
            let mut q = p.clone();
            q.disclosed_messages.shift_remove(&sid);
            judge(em, suite, "reported-map-missing", &scn, &q, "");
        }
    }
}

/// Several signature statements: each reported claim map must be checked against the statement whose id it is filed under
/// (a relying party reads `disclosed_messages[statement id]`), whatever position it occupies in the object.
fn multi_credential<S: ShortGroupSignatureScheme + 'static>(em: &mut Emitter, base: &mut Rng, suite: &str) {
    let off = if suite == "bbs" { 0 } else { 1 };
    for k in 0..em.n(2, 16) {
        if !em.mine(2 * k + off) {
            continue;
        }
        let rng = &mut base.sub(9000 + (2 * k + off) as u64);
        let n_creds = 2 + (k % 2);
        let n_claims = 3 + rng.below(3) as usize;
        // same requested labels on every credential, different signed values (names "Alice Example" / "Holder c", ages)
        let mut d = vec!["name".to_string()];
        if rng.coin() {
            d.push("age".into());
        }
        let mix = Mix { n_creds, n_claims, age: rng.range(0, 90), disclosed: vec![d; n_creds], shuffle: k % 4 == 3, ..Default::default() };
        let scn = Scn::<S>::build(rng, &mix);
        let p = match scn.create() {
            Out::Ok(p) => p,
            _ => continue,
        };
        let ids: Vec<String> = scn.sig_ids.clone();
        let maps: Vec<IndexMap<String, ClaimData>> = ids.iter().map(|i| p.disclosed_messages[i].clone()).collect();
        let mut variants: Vec<(String, Vec<(String, IndexMap<String, ClaimData>)>)> = vec![];
        // same association, other order of the entries (the object is a map: must stay acceptable)
        variants.push(("entries-reordered".into(), ids.iter().cloned().zip(maps.iter().cloned()).rev().collect()));
        // ids exchanged, maps left where they are / ids left, maps exchanged
        let mut sw: Vec<String> = ids.clone();
        sw.swap(0, 1);
        variants.push(("ids-exchanged-maps-in-place".into(), sw.iter().cloned().zip(maps.iter().cloned()).collect()));
        variants.push(("maps-exchanged-ids-in-place".into(), ids.iter().cloned().zip(sw.iter().map(|i| p.disclosed_messages[i].clone())).collect()));
        // honest map parked under an id no statement has, another credential's map appended under the real id
        let mut v: Vec<(String, IndexMap<String, ClaimData>)> = vec![("no-such-statement".into(), maps[0].clone())];
        for c in 1..n_creds {
            v.push((ids[c].clone(), maps[c].clone()));
        }
        v.push((ids[0].clone(), maps[1].clone()));
        variants.push(("parked-under-foreign-id".into(), v));
        // every statement reports the map of credential 0
        variants.push(("one-map-for-all".into(), ids.iter().cloned().map(|i| (i, maps[0].clone())).collect()));
        for (dev, entries) in variants {
            let mut q = p.clone();
            q.disclosed_messages = entries.into_iter().collect();
            em.oracle_case(&format!("{} multi {} {}", suite, dev, scn.mix.describe()));
            let (class, v) = plan_class(&q, &scn.schema, &scn.nonce);
            em.op(plan_line(&scn.schema, &q, suite), class);
            em.count(&format!("multi:{}:{}", dev, v.class()));
            match v {
                Out::Ok(_) => {
                    for c in 0..n_creds {
                        if let Err(why) = conforms(&scn, &q, c) {
                            em.violation(&format!("c02:multi-{}", dev), format!("{}: accepted although the map filed under {} is not what that statement's issuer signed: {}", suite, ids[c], why), scn.replay(json!({"suite": suite, "deviation": dev, "presentation": serde_json::to_value(&q).unwrap_or_default()})));
                            break;
                        }
                    }
                }
                Out::Panic(m) => em.violation(&format!("c02-panic:multi-{}", dev), format!("{}: verify panicked: {}", suite, m), scn.replay(json!({"suite": suite, "deviation": dev}))),
                Out::Err => {
                    if dev == "entries-reordered" {
                        em.count("multi:reordered-entries-rejected");
                    }
                }
            }
        }
    }
}

pub fn gen_c02(em: &mut Emitter, rng: &mut Rng) {
    em.rule = "deviating holders that own a valid credential: the real prover is driven with the verifier's transcript (challenge override) for a \
               statement that hides / adds a claim while the reported map says otherwise — substituted value (same / other claim type, with the \
               proof's inner map untouched, padded with the false or the true scalar), withheld label, extra label, a requested label replaced by an unrequested one, swapped values, a reported claim re-typed with the same scalar; plus index-list \
               shapes (reversed, padded out of range, entry removed, value changed, hidden index added) and plain edits. oracle: accepted ⇒ reported \
               label set = requested ∩ schema labels and every reported claim = the signed claim. With 2-3 signature statements: \
               the reported maps re-filed (entries reordered, ids exchanged, maps exchanged, honest map parked under a foreign id, one map for all): \
               accepted ⇒ the map under each statement id is what that statement's issuer signed; plan stage vs model".into();
    run_suite::<Bbs>(em, rng, "bbs");
    run_suite::<Ps>(em, rng, "ps");
    multi_credential::<Bbs>(em, rng, "bbs");
    multi_credential::<Ps>(em, rng, "ps");
}
