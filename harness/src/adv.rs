//! Deviating-prover toolkit: the real `Presentation::create` driven with the *verifier's* transcript
//! (challenge override in the logging merlin), plus helpers to learn the verifier's challenge.
#![allow(dead_code)]
use crate::common::*;
use credx::claim::ClaimData;
use credx::knox::short_group_sig_core::short_group_traits::ShortGroupSignatureScheme;
use credx::presentation::{Presentation, PresentationCredential, PresentationSchema};
use indexmap::IndexMap;
use merlin::vlog::Entry;
use std::rc::Rc;
use uint_zigzag::Uint;

pub type Reported = IndexMap<String, IndexMap<String, ClaimData>>;

fn main_tid(log: &[Entry]) -> Option<u64> {
    log.iter().find(|e| e.kind == 2 && e.label == b"credx presentation").map(|e| e.tid)
}

/// appended items (label, data) of the main presentation transcript, without merlin's own dom-sep
pub fn main_items(log: &[Entry]) -> Vec<(Vec<u8>, Vec<u8>)> {
    match main_tid(log) {
        None => vec![],
        Some(t) => log.iter().filter(|e| e.tid == t && e.kind == 0 && e.label != b"dom-sep").map(|e| (e.label.clone(), e.data.clone())).collect(),
    }
}

/// what the verifier hashes before any proof material for (schema, nonce): learned from the real
/// code by verifying an empty presentation with logging on
pub fn public_prefix<S: ShortGroupSignatureScheme>(schema: &PresentationSchema<S>, nonce: &[u8]) -> Vec<(Vec<u8>, Vec<u8>)> {
    let dummy = Presentation::<S> { proofs: IndexMap::new(), challenge: Scalar::ZERO, disclosed_messages: IndexMap::new() };
    let was = merlin::vlog::take();
    merlin::vlog::enable(true);
    let _ = call(|| dummy.verify(schema, nonce));
    merlin::vlog::enable(false);
    let log = merlin::vlog::take();
    let _ = was;
    // everything up to (and including) the schema contribution: the dummy fails at the first statement
    // that needs a proof, before appending anything proof dependent
    main_items(&log)
}

pub fn disclosed_items(id: &str, dm: &IndexMap<String, ClaimData>) -> Vec<(Vec<u8>, Vec<u8>)> {
    let mut v = vec![(b"disclosed messages from statement ".to_vec(), id.as_bytes().to_vec()), (b"disclosed messages length".to_vec(), Uint::from(dm.len()).to_vec())];
    for (i, (label, claim)) in dm.iter().enumerate() {
        v.push((b"disclosed message label".to_vec(), label.as_bytes().to_vec()));
        v.push((b"disclosed message index".to_vec(), Uint::from(i).to_vec()));
        v.push((b"disclosed message value".to_vec(), claim.to_bytes()));
        if let ClaimData::Hashed(h) = claim {
            v.push((b"disclosed message print friendly".to_vec(), vec![h.print_friendly as u8]));
        }
        v.push((b"disclosed message scalar".to_vec(), claim.to_scalar().to_be_bytes().to_vec()));
    }
    v
}

/// replace every "disclosed messages" segment by the one of the map that will be reported
pub fn substitute_disclosed(items: &[(Vec<u8>, Vec<u8>)], reported: &Reported) -> Vec<(Vec<u8>, Vec<u8>)> {
    let mut out = vec![];
    let mut i = 0;
    while i < items.len() {
        if items[i].0 == b"disclosed messages from statement " {
            let id = String::from_utf8_lossy(&items[i].1).to_string();
            let mut j = i + 1;
            while j < items.len() && items[j].0.starts_with(b"disclosed message") && items[j].0 != b"disclosed messages from statement " {
                j += 1;
            }
            match reported.get(&id) {
                Some(dm) => out.extend(disclosed_items(&id, dm)),
                None => out.extend_from_slice(&items[i..j]),
            }
            i = j;
        } else {
            out.push(items[i].clone());
            i += 1;
        }
    }
    out
}

/// hash a list of items exactly as the presentation transcript does
pub fn challenge_of(items: &[(Vec<u8>, Vec<u8>)]) -> [u8; 64] {
    let mut t = merlin::Transcript::new(b"credx presentation");
    for (l, d) in items {
        let label: &'static [u8] = Box::leak(l.clone().into_boxed_slice());
        t.append_message(label, d);
    }
    let mut okm = [0u8; 64];
    t.challenge_bytes(b"challenge bytes", &mut okm);
    okm
}

/// Run the real prover on (`credentials`, `prover_schema`) but let it answer the challenge the verifier
/// will compute for (`verifier_schema`, `nonce`) once `reported` replaces the disclosed maps: a deviating
/// holder that follows commit – challenge – response honestly for a *different* statement.
pub fn steered_create<S: ShortGroupSignatureScheme + 'static>(
    credentials: &IndexMap<String, PresentationCredential<S>>,
    prover_schema: &PresentationSchema<S>,
    verifier_schema: &PresentationSchema<S>,
    nonce: &[u8],
    reported: Option<Reported>,
) -> Out<Presentation<S>> {
    steered_create_ext(credentials, prover_schema, verifier_schema, nonce, reported, vec![])
}

/// as `steered_create`, with transcript items of hand-made sub-proofs (`extra`) that the verifier will hash
/// after everything the real prover contributes
pub fn steered_create_ext<S: ShortGroupSignatureScheme + 'static>(
    credentials: &IndexMap<String, PresentationCredential<S>>,
    prover_schema: &PresentationSchema<S>,
    verifier_schema: &PresentationSchema<S>,
    nonce: &[u8],
    reported: Option<Reported>,
    extra: Vec<(Vec<u8>, Vec<u8>)>,
) -> Out<Presentation<S>> {
    let n_pub_prover = public_prefix(prover_schema, nonce).len();
    let pub_verifier = Rc::new(public_prefix(verifier_schema, nonce));
    let reported = Rc::new(reported);
    let pv = pub_verifier.clone();
    let rp = reported.clone();
    merlin::vlog::take();
    merlin::vlog::set_override(Some(Box::new(move |tid, label, log| {
        if label != b"challenge bytes" || main_tid(log) != Some(tid) {
            return None;
        }
        let items = main_items(log);
        if items.len() < n_pub_prover {
            return None;
        }
        let mut v: Vec<(Vec<u8>, Vec<u8>)> = (*pv).clone();
        let suffix = &items[n_pub_prover..];
        match &*rp {
            Some(r) => v.extend(substitute_disclosed(suffix, r)),
            None => v.extend_from_slice(suffix),
        }
        v.extend(extra.iter().cloned());
        merlin::vlog::enable(false);
        let c = challenge_of(&v);
        merlin::vlog::enable(true);
        Some(c.to_vec())
    })));
    merlin::vlog::enable(true);
    let r = call(|| Presentation::create(credentials, prover_schema, nonce));
    merlin::vlog::enable(false);
    merlin::vlog::set_override(None);
    merlin::vlog::take();
    match r {
        Out::Ok(mut p) => {
            if let Some(rep) = &*reported {
                for (id, dm) in rep {
                    p.disclosed_messages.insert(id.clone(), dm.clone());
                }
            }
            Out::Ok(p)
        }
        o => o,
    }
}

/// set the presented challenge to the one the verifier computes (helps only when the verifier's
/// transcript does not depend on it), up to `rounds` times
pub fn fix_challenge<S: ShortGroupSignatureScheme>(p: &mut Presentation<S>, schema: &PresentationSchema<S>, nonce: &[u8], rounds: usize) {
    for _ in 0..rounds {
        let (_, ch, _) = crate::pres::verify_logged(p, schema, nonce);
        match ch {
            Some(c) if c != p.challenge => p.challenge = c,
            _ => break,
        }
    }
}
