//! C11 (tamper evidence: every single-site mutation of an accepted presentation is rejected) and
//! C04 (context binding: every single change of a verifier-side parameter is rejected).
use crate::common::*;
use crate::pres::*;
use credx::knox::short_group_sig_core::short_group_traits::ShortGroupSignatureScheme;
use credx::presentation::Presentation;
use serde_json::{json, Value};

fn neg_scalar_hex(h: &str) -> Option<String> {
    sc_from_hex(h).map(|s| sc_hex(&(-s)))
}

fn mutate_leaf(rng: &mut Rng, leaf: &Value, siblings: &[Value]) -> Vec<(&'static str, Value)> {
    let mut out = vec![];
    match leaf_kind(leaf) {
        LeafKind::Scalar => {
            let h = leaf.as_str().unwrap();
            out.push(("random", json!(sc_hex(&rng.scalar()))));
            out.push(("zero", json!(sc_hex(&Scalar::ZERO))));
            if let Some(n) = neg_scalar_hex(h) {
                out.push(("negation", json!(n)));
            }
            if let Some(s) = sc_from_hex(h) {
                out.push(("plus-one", json!(sc_hex(&(s + Scalar::ONE)))));
            }
            if let Some(sib) = siblings.iter().find(|s| leaf_kind(s) == LeafKind::Scalar && *s != leaf) {
                out.push(("sibling", sib.clone()));
            }
        }
        LeafKind::G1 => {
            out.push(("random", json!(g1_hex_c(&(G1Projective::GENERATOR * rng.scalar())))));
            out.push(("identity", json!(g1_hex_c(&G1Projective::IDENTITY))));
            if let Some(p) = g1_of_hex(leaf.as_str().unwrap()) {
                out.push(("negation", json!(g1_hex_c(&(-p)))));
            }
            if let Some(sib) = siblings.iter().find(|s| leaf_kind(s) == LeafKind::G1 && *s != leaf) {
                out.push(("sibling", sib.clone()));
            }
        }
        LeafKind::G2 => {
            out.push(("random", json!(g2_hex_c(&(G2Projective::GENERATOR * rng.scalar())))));
            out.push(("identity", json!(g2_hex_c(&G2Projective::IDENTITY))));
            if let Some(p) = g2_of_hex(leaf.as_str().unwrap()) {
                out.push(("negation", json!(g2_hex_c(&(-p)))));
            }
        }
        LeafKind::Other => match leaf {
            Value::String(s) => {
                out.push(("string-append", json!(format!("{}x", s))));
                // other spellings that a lenient reading could identify with the original: letter case exchanged,
                // the hex spelling of the text's bytes, the text that a hex spelling decodes to
                let flipped: String = s.chars().map(|c| if c.is_ascii_lowercase() { c.to_ascii_uppercase() } else { c.to_ascii_lowercase() }).collect();
                if &flipped != s {
                    out.push(("string-case-exchanged", json!(flipped)));
                }
                if !s.is_empty() {
                    out.push(("string-hex-spelling", json!(hex::encode(s.as_bytes()))));
                }
                // white space / terminators a lenient reader might strip
                out.push(("string-leading-space", json!(format!(" {}", s))));
                out.push(("string-trailing-space", json!(format!("{} ", s))));
                out.push(("string-trailing-newline", json!(format!("{}\n", s))));
                out.push(("string-trailing-nul", json!(format!("{}\u{0}", s))));
                if let Some(t) = hex::decode(s).ok().and_then(|b| String::from_utf8(b).ok()) {
                    if !t.is_empty() {
                        out.push(("string-hex-decoded", json!(t)));
                    }
                }
                if !s.is_empty() {
                    out.push(("string-truncate", json!(s[..s.len() - s.chars().last().unwrap().len_utf8()].to_string())));
                }
            }
            Value::Number(n) => {
                if let Some(i) = n.as_i64() {
                    out.push(("number-plus-one", json!(i.wrapping_add(1))));
                    out.push(("number-minus-one", json!(i.wrapping_sub(1))));
                    // width probes: equal to the original after truncation to 8 / 16 / 32 bits
                    if i >= 0 {
                        out.push(("number-plus-2^8", json!(i as u64 + (1 << 8))));
                        out.push(("number-plus-2^16", json!(i as u64 + (1 << 16))));
                        out.push(("number-plus-2^32", json!(i as u64 + (1u64 << 32))));
                        out.push(("number-plus-2^63", json!((i as u64).wrapping_add(1u64 << 63))));
                    }
                } else if let Some(u) = n.as_u64() {
                    out.push(("number-minus-one", json!(u - 1)));
                }
            }
            Value::Bool(b) => out.push(("bool-flip", json!(!b))),
            _ => {}
        },
    }
    out
}

/// is this leaf one of the property's sites (scalar / group element of a proof, challenge, disclosed value or label)?
fn property_leaf(path: &[String], kind: LeafKind) -> bool {
    if path.first().map(|s| s.as_str()) == Some("challenge") {
        return true;
    }
    if path.first().map(|s| s.as_str()) == Some("disclosed_messages") {
        // [stmt index][1][entry][0 = label | 1 = claim ...]; the statement id itself is a key, not a claim
        return path.len() >= 4;
    }
    kind != LeafKind::Other
}

fn verdict_json<S: ShortGroupSignatureScheme>(scn: &Scn<S>, v: &Value) -> (&'static str, Option<Presentation<S>>) {
    match pres_from_value::<S>(v) {
        Out::Ok(p) => match scn.verify(&p) {
            Out::Ok(_) => ("accepted", Some(p)),
            Out::Err => ("rejected", Some(p)),
            Out::Panic(_) => ("panic", None),
        },
        Out::Err => ("undecodable", None),
        Out::Panic(_) => ("decode-panic", None),
    }
}

fn c11_suite<S: ShortGroupSignatureScheme>(em: &mut Emitter, base: &mut Rng, suite: &str) {
    let off = if suite == "bbs" { 0 } else { 1 };
    for k in 0..em.n(6, 60) {
        if !em.mine(2 * k + off) {
            continue;
        }
        let rng = &mut base.sub((2 * k + off) as u64);
        let mut mix = Mix::random(rng, k % 2 == 0);
        // range statements whose bounds sit on the edge of the number domain (they exclude nothing, the proof must still be checked)
        if k == 4 {
            mix = Mix { n_creds: 1, n_claims: 3, disclosed: vec![vec![]], commitment: Some(2), range: Some((Some(i64::MIN), Some(i64::MAX))), age: 7, ..Default::default() };
        }
        if k == 5 {
            mix = Mix { n_creds: 1, n_claims: 3, disclosed: vec![vec!["name".into()]], commitment: Some(2), range: Some(if suite == "bbs" { (Some(i64::MIN), None) } else { (None, Some(i64::MAX)) }), age: -3, ..Default::default() };
        }
        if k == 0 {
            mix = Mix { n_creds: 2, n_claims: 4, disclosed: vec![vec!["city".into()], vec!["age".into()]], revocation: true, membership: true, equality: true, commitment: Some(2), range: Some((Some(0), Some(150))), verenc: Some((3, true)), ved: None, age: 40, shuffle: false, zero_ssn: false, same_issuer: false };
            mix.disclosed = vec![vec![], vec!["age".into()]];
        }
        if k == 1 {
            mix = Mix { n_creds: 1, n_claims: 4, disclosed: vec![vec!["name".into()]], ved: Some(2), verenc: Some((3, false)), age: 21, ..Default::default() };
        }
        // k == 2: an issuer key whose generator for a hidden claim is the point at infinity, the claim there being zero (the
        // credential stays valid under the crafted key). Such a key must be refused; if a presentation under it is accepted,
        // the sweep below finds the response that nothing binds.
        let degenerate_key = k == 2;
        if degenerate_key {
            mix = Mix { n_creds: 1, n_claims: 4, disclosed: vec![vec!["name".into()]], zero_ssn: true, age: 50, ..Default::default() };
        }
        let mut scn = Scn::<S>::build(rng, &mix);
        if degenerate_key {
            let mut sv = serde_json::to_value(&scn.schema).unwrap();
            let mut ls = vec![];
            leaves(&sv, &mut vec![], &mut ls);
            for (path, leaf) in &ls {
                let n = path.len();
                if n >= 2 && path[n - 1] == "3" && (path[n - 2] == "y" || path[n - 2] == "y_blinds") && path.iter().any(|x| x == "verifying_key") {
                    let ident = match leaf.as_str().map(|x| x.len()) {
                        Some(96) => json!(g1_hex_c(&G1Projective::IDENTITY)),
                        Some(192) => json!(g2_hex_c(&G2Projective::IDENTITY)),
                        _ => continue,
                    };
                    *get_mut(&mut sv, path).unwrap() = ident;
                }
            }
            match schema_from_value::<S>(&sv) {
                Out::Ok(s2) => scn.schema = s2,
                _ => {
                    em.count("degenerate-key:schema-undecodable");
                    continue;
                }
            }
        }
        let p = match scn.create() {
            Out::Ok(p) => p,
            _ => {
                if degenerate_key {
                    em.count("degenerate-key:create-refused");
                }
                continue;
            }
        };
        if !scn.verify(&p).is_ok() {
            if degenerate_key {
                em.count("degenerate-key:refused");
            }
            continue;
        }
        if degenerate_key {
            em.count("degenerate-key:accepted");
        }
        let pv = serde_json::to_value(&p).unwrap();
        let canon = serde_json::to_string(&pv).unwrap();
        let mut ls = vec![];
        leaves(&pv, &mut vec![], &mut ls);
        let all_leaf_values: Vec<Value> = ls.iter().map(|(_, v)| v.clone()).collect();
        em.count_n("leaves", ls.len() as u64);
        // typed mutation the JSON form cannot express: a disclosed hashed claim with the same bytes and the other
        // print_friendly flag (one byte of the binary encoding)
        for (sid, dm) in &p.disclosed_messages {
            for (label, claim) in dm {
                if let credx::claim::ClaimData::Hashed(h) = claim {
                    let mut q = p.clone();
                    let mut h2 = h.clone();
                    h2.print_friendly = !h2.print_friendly;
                    q.disclosed_messages.get_mut(sid).unwrap().insert(label.clone(), h2.into());
                    em.oracle_case(&format!("{} {} print-friendly-flip {} {}", suite, k, sid, label));
                    if scn.verify(&q).is_ok() {
                        em.violation("c11:accepted-after-print-friendly-flip", format!("{}: presentation still accepted after flipping print_friendly of the disclosed claim {} of {}", suite, label, sid), scn.replay(json!({"suite": suite, "statement": sid, "label": label})));
                    }
                }
            }
        }
        // model: what the commitment / encryption verifiers recompute for the honest object
        recommit_lines(em, suite, &scn.schema, &p, &scn.nonce);
        let mut recommit_sample = 0usize;
        // thin out the 64 byte-proof leaves of the decryptable encryptions in the quick tier
        let stride = if em.thorough() { 1 } else { 5 };
        let mut byte_leaf_counter = 0usize;
        for (path, leaf) in &ls {
            let is_byte_leaf = path.iter().any(|s| s == "byte_proofs" || s == "byte_ciphertext");
            if is_byte_leaf {
                byte_leaf_counter += 1;
                if byte_leaf_counter % stride != 0 {
                    continue;
                }
            }
            if path.iter().any(|s| s == "ciphertext") && !em.thorough() && rng.chance(9, 10) {
                continue;
            }
            let kind = leaf_kind(leaf);
            let mut muts = mutate_leaf(rng, leaf, &all_leaf_values);
            // an id carried inside a proof replaced by the id of every other statement of the schema
            if let Value::String(s0) = leaf {
                if path.last().map(|x| x == "id").unwrap_or(false) && scn.schema.statements.contains_key(s0) {
                    for other in scn.schema.statements.keys().filter(|o| *o != s0) {
                        muts.push(("id-of-sibling-statement", json!(other)));
                    }
                }
            }
            for (how, nv) in muts {
                if &nv == leaf {
                    continue;
                }
                let mut v2 = pv.clone();
                *get_mut(&mut v2, path).unwrap() = nv;
                // accumulator proofs: the honest object is verified immediately before the mutated one on the same thread
                // (whatever a verifier remembers from an accepted presentation must not carry over)
                if path.iter().any(|s| s == "Revocation" || s == "Membership") {
                    let _ = scn.verify(&p);
                }
                let (verdict, decoded) = verdict_json::<S>(&scn, &v2);
                // … and for a sample of the mutated ones (the recomputed values must move exactly as the model says)
                if let Some(q) = &decoded {
                    let touches = path.iter().any(|s| s == "Commitment" || s == "VerifiableEncryption" || s == "pok" || s == "challenge" || s == "disclosed_messages");
                    if touches && !is_byte_leaf {
                        recommit_sample += 1;
                        if recommit_sample % (if em.thorough() { 2 } else { 6 }) == 0 {
                            recommit_lines(em, suite, &scn.schema, q, &scn.nonce);
                        }
                    }
                }
                em.oracle_case(&format!("{} {} {:?} {}", suite, k, path, how));
                em.count(&format!("leaf:{:?}:{}:{}", kind, how, verdict));
                if verdict == "accepted" {
                    // a mutation that decodes to the same object is no mutation
                    let same = decoded.map(|q| serde_json::to_string(&q).unwrap() == canon).unwrap_or(false);
                    if same {
                        em.count("noop-mutation");
                        continue;
                    }
                    let leafname = path.iter().filter(|s| s.parse::<usize>().is_err()).cloned().collect::<Vec<_>>().join(".");
                    let short = leafname.rsplit('.').next().unwrap_or("").to_string();
                    if short == "total_values" && (how == "number-plus-2^16" || how == "number-plus-2^32" || how == "number-plus-2^63") {
                        // the recorded finding: total_values enters the hashed bytes truncated to 16 bits
                        em.violation("c11:enum-total-truncated-u16", format!("{}: presentation still accepted after {} of leaf {}", suite, how, path.join("/")), scn.replay(json!({"suite": suite, "path": path, "how": how})));
                    } else if how == "id-of-sibling-statement" {
                        em.violation("c11:accepted-after-mutation:proof-id", format!("{}: presentation still accepted after the id inside the proof at {} was replaced by the id of another statement", suite, path.join("/")), scn.replay(json!({"suite": suite, "path": path, "how": how, "presentation": v2})));
                    } else if property_leaf(path, kind) {
                        em.violation(&format!("c11:accepted-after-mutation:{}", short), format!("{}: presentation still accepted after {} of leaf {}", suite, how, path.join("/")), scn.replay(json!({"suite": suite, "path": path, "how": how, "presentation": v2})));
                    } else {
                        em.count(&format!("accepted-nonproperty-leaf:{}", short));
                    }
                } else if verdict == "panic" || verdict == "decode-panic" {
                    em.violation("c11:panic-on-mutation", format!("{}: {} after {} of leaf {}", suite, verdict, how, path.join("/")), scn.replay(json!({"suite": suite, "path": path, "how": how, "presentation": v2})));
                }
            }
        }
        // response vectors shortened / extended
        for (path, _) in ls.iter().filter(|(p, _)| p.len() >= 2 && p[p.len() - 2] == "proof" && p[p.len() - 1] == "0") {
            let arr_path = &path[..path.len() - 1];
            for how in ["shorten", "extend", "extend-by-minus-challenge", "extend-by-challenge", "extend-by-zero", "extend-by-last", "prepend-zero"] {
                let mut v2 = pv.clone();
                if let Some(Value::Array(a)) = get_mut(&mut v2, arr_path) {
                    match how {
                        "shorten" => {
                            a.pop();
                        }
                        "extend" => a.push(json!(sc_hex(&rng.scalar()))),
                        "extend-by-minus-challenge" => a.push(json!(sc_hex(&(-p.challenge)))),
                        "extend-by-challenge" => a.push(json!(sc_hex(&p.challenge))),
                        "extend-by-zero" => a.push(json!(sc_hex(&Scalar::ZERO))),
                        "extend-by-last" => {
                            if let Some(l) = a.last().cloned() {
                                a.push(l);
                            }
                        }
                        _ => a.insert(0, json!(sc_hex(&Scalar::ZERO))),
                    }
                }
                let (verdict, _) = verdict_json::<S>(&scn, &v2);
                em.oracle_case(&format!("{} {} {:?} {}", suite, k, arr_path, how));
                em.count(&format!("vector:{}:{}", how, verdict));
                if verdict == "accepted" {
                    em.violation("c11:accepted-after-vector-resize", format!("{}: accepted after response vector {} ({})", suite, how, arr_path.join("/")), scn.replay(json!({"suite": suite, "path": arr_path, "how": how})));
                }
            }
        }
        // each required proof removed / swapped with another
        let ids: Vec<String> = p.proofs.keys().cloned().collect();
        for (i, id) in ids.iter().enumerate() {
            let mut q = p.clone();
            q.proofs.shift_remove(id);
            em.oracle_case(&format!("{} {} remove {}", suite, k, id));
            match scn.verify(&q) {
                Out::Ok(_) => em.violation("c11:accepted-after-proof-removed", format!("{}: accepted after removing proof {}", suite, id), scn.replay(json!({"suite": suite, "removed": id}))),
                Out::Panic(m) => em.violation("c11:panic-on-mutation", format!("{}: panic after removing proof {}: {}", suite, id, m), scn.replay(json!({"suite": suite, "removed": id}))),
                Out::Err => em.count("proof-removed:rejected"),
            }
            let other = &ids[(i + 1) % ids.len()];
            if other != id {
                let mut q = p.clone();
                let a = q.proofs[id].clone();
                let b = q.proofs[other].clone();
                q.proofs.insert(id.clone(), b);
                q.proofs.insert(other.clone(), a);
                em.oracle_case(&format!("{} {} swap {} {}", suite, k, id, other));
                match scn.verify(&q) {
                    Out::Ok(_) => em.violation("c11:accepted-after-proof-swap", format!("{}: accepted after swapping proofs {} and {}", suite, id, other), scn.replay(json!({"suite": suite, "swapped": [id, other]}))),
                    Out::Panic(m) => em.violation("c11:panic-on-mutation", format!("{}: panic after swapping proofs: {}", suite, m), scn.replay(json!({"suite": suite, "swapped": [id, other]}))),
                    Out::Err => em.count("proof-swapped:rejected"),
                }
            }
        }
        // binary encoding: single-byte and single-bit changes
        let bare = serde_bare::to_vec(&p).unwrap();
        let positions: Vec<usize> = if em.thorough() && bare.len() < 6000 { (0..bare.len()).collect() } else { (0..em.n(250, 2000)).map(|_| rng.below(bare.len() as u64) as usize).collect() };
        for pos in positions {
            for how in ["byte", "bit"] {
                let mut b2 = bare.clone();
                if how == "byte" {
                    b2[pos] = b2[pos].wrapping_add(1 + rng.below(255) as u8);
                } else {
                    b2[pos] ^= 1 << rng.below(8);
                }
                em.oracle_case(&format!("{} {} bare {} {}", suite, k, pos, how));
                match call(|| serde_bare::from_slice::<Presentation<S>>(&b2)) {
                    Out::Ok(q) => match scn.verify(&q) {
                        Out::Ok(_) => {
                            if serde_bare::to_vec(&q).unwrap() == bare {
                                em.count("bare:noop");
                            } else if serde_json::to_string(&q).unwrap() == canon {
                                // another encoding of the same object (non-canonical varint / padding)
                                em.count("bare:accepted-same-object");
                            } else {
                                // which leaves differ?
                                let qv = serde_json::to_value(&q).unwrap();
                                let mut lq = vec![];
                                leaves(&qv, &mut vec![], &mut lq);
                                let diffs: Vec<(&Vec<String>, &Value, &Value)> = ls.iter().zip(lq.iter()).filter(|(a, b)| a != b).map(|(a, b)| (&a.0, &a.1, &b.1)).collect();
                                let only_enum_total = !diffs.is_empty()
                                    && ls.len() == lq.len()
                                    && diffs.iter().all(|(p, a, b)| p.last().map(|s| s == "total_values").unwrap_or(false) && a.as_u64().map(|x| x as u16) == b.as_u64().map(|x| x as u16));
                                let sig = if only_enum_total { "c11:enum-total-truncated-u16" } else { "c11:accepted-after-byte-change" };
                                em.violation(sig, format!("{}: accepted after {} change at offset {} of the BARE encoding; differing leaves: {:?}", suite, how, pos, diffs.iter().map(|(p, _, _)| p.join("/")).collect::<Vec<_>>()), scn.replay(json!({"suite": suite, "offset": pos, "bare": hexs(&b2)})));
                            }
                        }
                        Out::Err => em.count("bare:rejected"),
                        Out::Panic(m) => em.violation("c11:panic-on-mutation", format!("{}: verify panicked after {} change at offset {}: {}", suite, how, pos, m), scn.replay(json!({"suite": suite, "offset": pos, "bare": hexs(&b2)}))),
                    },
                    Out::Err => em.count("bare:undecodable"),
                    Out::Panic(m) => em.violation("c11:decode-panic", format!("{}: BARE decoding panicked after {} change at offset {}: {}", suite, how, pos, m), scn.replay(json!({"suite": suite, "offset": pos, "bare": hexs(&b2)}))),
                }
            }
        }
        if k < 2 {
            em.sample(json!({"suite": suite, "mix": mix.describe(), "leaves": ls.len(), "bare_bytes": bare.len()}));
        }
    }
}

pub fn gen_c11(em: &mut Emitter, rng: &mut Rng) {
    em.rule = "honest presentations over generated statement graphs (incl. one with every statement kind), JSON form: every scalar / point leaf ← random, \
               zero / identity, negation, +1, sibling; every other leaf edited; response vectors shortened / extended; every proof removed / swapped; \
               BARE form: single-byte and single-bit changes at sampled (thorough: all) offsets. oracle: mutated object that decodes to something \
               different from the original must be rejected".into();
    c11_suite::<Bbs>(em, rng, "bbs");
    c11_suite::<Ps>(em, rng, "ps");
}

// ------------------------------------------------------------------------------------------------

/// leaves of the schema JSON that are not absorbed by design (only their count is hashed) and are
/// not in the property's parameter list: the per-claim schema entries
fn unabsorbed_by_design(path: &[String]) -> bool {
    // statements/<id>/Signature/issuer/schema/claims/<i>/{claim_type, print_friendly, validators, label}
    path.windows(2).any(|w| w[0] == "schema" && w[1] == "claims")
}

fn c04_suite<S: ShortGroupSignatureScheme>(em: &mut Emitter, base: &mut Rng, suite: &str) {
    let off = if suite == "bbs" { 0 } else { 1 };
    for k in 0..em.n(5, 80) {
        if !em.mine(2 * k + off) {
            continue;
        }
        let rng = &mut base.sub((2 * k + off) as u64);
        let mut mix = Mix::random(rng, k % 3 == 0);
        if k == 0 {
            mix = Mix { n_creds: 2, n_claims: 4, disclosed: vec![vec![], vec!["age".into()]], revocation: true, membership: true, equality: true, commitment: Some(2), range: Some((Some(0), Some(150))), verenc: Some((3, false)), ved: Some(3), age: 40, shuffle: false, zero_ssn: false, same_issuer: false };
        }
        if k == 1 {
            // predicates on a claim that an equality statement ties across two credentials: the shared
            // response makes "which credential is referenced" invisible to every verification equation
            mix = Mix { n_creds: 2, n_claims: 4, disclosed: vec![vec![], vec![]], equality: true, commitment: Some(1), verenc: Some((1, false)), membership: true, age: 40, ..Default::default() };
        }
        if k == 4 {
            // two credentials of one issuer: the second signature statement carries the same issuer data again
            mix = Mix { n_creds: 2, n_claims: 4, disclosed: vec![vec![], vec!["age".into()]], revocation: true, commitment: Some(2), age: 40, same_issuer: true, ..Default::default() };
        }
        let mut scn = Scn::<S>::build(rng, &mix);
        // k == 2, 3: the credential schema has its identifier claim at position 1 / last (not first)
        if k == 2 || k == 3 {
            match Scn::<S>::with_revocation_at(rng, if k == 2 { 1 } else { 3 }) {
                Some(s2) => scn = s2,
                None => continue,
            }
        }
        if k % 2 == 0 && scn.nonce.is_empty() {
            scn.nonce = rng.bytes(16);
        }
        // nonces with leading / trailing zero bytes, and all-zero nonces
        match k % 5 {
            1 => {
                scn.nonce = [vec![0u8, 0], rng.bytes(14)].concat();
            }
            2 => {
                scn.nonce = [rng.bytes(14), vec![0u8, 0]].concat();
            }
            3 => {
                scn.nonce = vec![0u8; 8];
            }
            _ => {}
        }
        // schema ids as `PresentationSchema::new` makes them (hex of 16 random bytes) and ids that spell printable text in hex
        if k % 3 == 1 {
            scn.schema.id = hex::encode(rng.bytes(16));
        } else if k % 3 == 2 {
            scn.schema.id = hex::encode(format!("req-{}", rng.below(1000)).as_bytes());
        }
        let p = match scn.create() {
            Out::Ok(p) => p,
            _ => continue,
        };
        if !scn.verify(&p).is_ok() {
            continue;
        }
        emit_public(em, &scn.schema, &scn.nonce);
        // nonce: every byte edited, truncated, extended, emptied
        let mut nonces: Vec<(String, Vec<u8>)> = vec![];
        for i in 0..scn.nonce.len() {
            let mut n = scn.nonce.clone();
            n[i] ^= 1 << rng.below(8);
            nonces.push((format!("bit flip in byte {}", i), n));
        }
        let mut n = scn.nonce.clone();
        n.push(0);
        nonces.push(("extended by 00".into(), n));
        // paddings a reader that treats the nonce as a number / C string might identify with the original
        for (how, pre, post) in [("prefixed by 00", vec![0u8], vec![]), ("prefixed by 00 00", vec![0u8, 0], vec![]), ("extended by 00 00", vec![], vec![0u8, 0]), ("extended by 20", vec![], vec![0x20u8]), ("prefixed by 20", vec![0x20u8], vec![])] {
            let mut n = pre.clone();
            n.extend_from_slice(&scn.nonce);
            n.extend_from_slice(&post);
            nonces.push((how.into(), n));
        }
        let lead = scn.nonce.iter().take_while(|b| **b == 0).count();
        if lead > 0 {
            nonces.push(("one leading zero byte removed".into(), scn.nonce[1..].to_vec()));
            nonces.push(("leading zero bytes removed".into(), scn.nonce[lead..].to_vec()));
        }
        let trail = scn.nonce.iter().rev().take_while(|b| **b == 0).count();
        if trail > 0 && trail < scn.nonce.len() {
            nonces.push(("trailing zero bytes removed".into(), scn.nonce[..scn.nonce.len() - trail].to_vec()));
        }
        if !scn.nonce.is_empty() && scn.nonce.iter().all(|b| *b == 0) {
            nonces.push(("all-zero nonce of another length".into(), vec![0u8; scn.nonce.len() + 3]));
        }
        {
            let mut r = scn.nonce.clone();
            r.reverse();
            if r != scn.nonce {
                nonces.push(("byte order reversed".into(), r));
            }
        }
        if !scn.nonce.is_empty() {
            nonces.push(("truncated".into(), scn.nonce[..scn.nonce.len() - 1].to_vec()));
            nonces.push(("emptied".into(), vec![]));
        } else {
            nonces.push(("one byte instead of empty".into(), vec![0]));
        }
        for (how, n) in nonces {
            em.oracle_case(&format!("{} {} nonce {}", suite, k, how));
            match call(|| p.verify(&scn.schema, &n)) {
                Out::Ok(_) => em.violation("c04:accepted-under-other-nonce", format!("{}: presentation verifies under another nonce ({})", suite, how), scn.replay(json!({"suite": suite, "nonce": hexs(&n)}))),
                Out::Panic(m) => em.violation("c04:panic", format!("{}: verify panicked under another nonce: {}", suite, m), scn.replay(json!({"suite": suite}))),
                Out::Err => em.count("nonce:rejected"),
            }
        }
        // every leaf of the schema
        let sv = serde_json::to_value(&scn.schema).unwrap();
        let canon = serde_json::to_string(&sv).unwrap();
        let mut ls = vec![];
        leaves(&sv, &mut vec![], &mut ls);
        let all_leaf_values: Vec<Value> = ls.iter().map(|(_, v)| v.clone()).collect();
        em.count_n("schema-leaves", ls.len() as u64);
        // harness self-check: the unmutated schema must survive the JSON path used for mutation
        match schema_from_value::<S>(&sv) {
            Out::Ok(s0) if call(|| p.verify(&s0, &scn.nonce)).is_ok() => {}
            _ => {
                em.violation("harness-schema-json-path-broken", format!("{}: the schema re-read from its JSON value no longer verifies the honest presentation (harness self-check)", suite), scn.replay(json!({"suite": suite})));
                continue;
            }
        }
        let stmt_ids: Vec<String> = scn.schema.statements.keys().cloned().collect();
        for (path, leaf) in &ls {
            let mut muts = mutate_leaf(rng, leaf, &all_leaf_values);
            // a reference to a statement retargeted to every other statement of the schema
            if let Value::String(sv0) = leaf {
                if stmt_ids.contains(sv0) {
                    for other in stmt_ids.iter().filter(|o| *o != sv0) {
                        muts.push(("retarget-to-other-statement", json!(other)));
                    }
                }
            }
            for (how, nv) in muts {
                if matches!(how, "zero" | "identity" | "negation" | "plus-one") && !em.thorough() && rng.coin() {
                    continue;
                }
                let mut v2 = sv.clone();
                *get_mut(&mut v2, path).unwrap() = nv;
                let schema2 = match schema_from_value::<S>(&v2) {
                    Out::Ok(s) => s,
                    _ => {
                        em.count("schema:undecodable");
                        continue;
                    }
                };
                if serde_json::to_string(&schema2).unwrap() == canon {
                    continue;
                }
                em.oracle_case(&format!("{} {} {:?} {}", suite, k, path, how));
                if rng.chance(1, if em.thorough() { 2 } else { 6 }) {
                    emit_public(em, &schema2, &scn.nonce);
                }
                let r = call(|| p.verify(&schema2, &scn.nonce));
                let short = path.iter().filter(|s| s.parse::<usize>().is_err()).last().cloned().unwrap_or_default();
                match r {
                    Out::Ok(_) => {
                        if unabsorbed_by_design(path) {
                            em.count(&format!("accepted-unabsorbed-by-design:{}", short));
                        } else {
                            em.violation(&format!("c04:accepted-under-changed-parameter:{}", short), format!("{}: presentation verifies after {} of schema parameter {}", suite, how, path.join("/")), scn.replay(json!({"suite": suite, "path": path, "how": how, "schema2": v2})));
                        }
                    }
                    Out::Panic(m) => em.violation("c04:panic", format!("{}: verify panicked after {} of schema parameter {}: {}", suite, how, path.join("/"), m), scn.replay(json!({"suite": suite, "path": path, "how": how, "schema2": v2}))),
                    Out::Err => em.count(&format!("param:{}:rejected", short)),
                }
            }
        }
        // requested disclosure sets: one label added / removed; statement order
        for (sid, st) in &scn.schema.statements {
            if let credx::statement::Statements::Signature(ss) = st {
                let mut variants = vec![];
                for l in ss.disclosed.iter() {
                    let mut d = ss.disclosed.clone();
                    d.remove(l);
                    variants.push(("label removed", d));
                }
                for l in LABELS.iter().take(mix.n_claims) {
                    if !ss.disclosed.contains(*l) {
                        let mut d = ss.disclosed.clone();
                        d.insert(l.to_string());
                        variants.push(("label added", d));
                        break;
                    }
                }
                let mut d = ss.disclosed.clone();
                d.insert("no-such-label".into());
                variants.push(("unknown label added", d));
                for (how, d) in variants {
                    let stmts: Vec<credx::statement::Statements<S>> = scn
                        .schema
                        .statements
                        .values()
                        .map(|s| match s {
                            credx::statement::Statements::Signature(x) if &x.id == sid => {
                                let mut t = (**x).clone();
                                t.disclosed = d.clone();
                                t.into()
                            }
                            o => o.clone(),
                        })
                        .collect();
                    let schema2 = credx::presentation::PresentationSchema::new_with_id(&stmts, &scn.schema.id);
                    em.oracle_case(&format!("{} {} disclosed {} {}", suite, k, sid, how));
                    if call(|| p.verify(&schema2, &scn.nonce)).is_ok() {
                        em.violation("c04:accepted-under-changed-parameter:disclosed", format!("{}: presentation verifies with requested disclosures changed ({})", suite, how), scn.replay(json!({"suite": suite, "statement": sid, "how": how})));
                    } else {
                        em.count("param:disclosed:rejected");
                    }
                }
            }
        }
        if scn.schema.statements.len() >= 2 {
            let mut stmts: Vec<credx::statement::Statements<S>> = scn.schema.statements.values().cloned().collect();
            stmts.swap(0, 1);
            let schema2 = credx::presentation::PresentationSchema::new_with_id(&stmts, &scn.schema.id);
            em.oracle_case(&format!("{} {} statement order", suite, k));
            if call(|| p.verify(&schema2, &scn.nonce)).is_ok() {
                em.violation("c04:accepted-under-reordered-statements", format!("{}: presentation verifies with two statements swapped", suite), scn.replay(json!({"suite": suite})));
            }
        }
        if k < 2 {
            em.sample(json!({"suite": suite, "mix": mix.describe(), "schema_leaves": ls.len(), "nonce_len": scn.nonce.len()}));
        }
    }
}

pub fn gen_c04(em: &mut Emitter, rng: &mut Rng) {
    em.rule = "honest presentations over generated statement graphs, then every single change of a verifier-side parameter: each nonce byte, nonce \
               truncated / extended / emptied; every leaf of the schema's JSON form (ids, labels, indices, bounds, flags, keys, registry values, \
               generators; strings edited, numbers ±1, points replaced by random / identity / negation / sibling); requested labels added / removed; \
               statements reordered. oracle: verification under the changed context must fail (per-claim schema entries are not hashed by design and \
               are not parameters of the property: counted, not judged)".into();
    c04_suite::<Bbs>(em, rng, "bbs");
    c04_suite::<Ps>(em, rng, "ps");
}

// ------------------------------------------------------------------------------------------------
// M2: the model's public transcript items vs the items the real verifier appends, byte for byte

fn hx(b: &[u8]) -> String {
    hexs(b)
}
fn hl(v: Vec<String>) -> String {
    if v.is_empty() {
        "-".into()
    } else {
        v.join(",")
    }
}

pub fn schema_line<S: ShortGroupSignatureScheme>(schema: &credx::presentation::PresentationSchema<S>, nonce: &[u8]) -> String {
    use credx::knox::short_group_sig_core::short_group_traits::PublicKey as _;
    use credx::statement::Statements as St;
    let mut toks = vec![
        "tr.public".to_string(),
        hx(&G1Projective::GENERATOR.to_compressed()),
        hx(&G2Projective::GENERATOR.to_compressed()),
        hx(nonce),
        hx(schema.id.as_bytes()),
    ];
    for (k, st) in &schema.statements {
        let k = hx(k.as_bytes());
        let t = match st {
            St::Signature(s) => {
                let i = &s.issuer;
                let cs = &i.schema;
                format!(
                    "{}|sig|{}|{}|{}|{}|{}|{}|{}|{}|{}|{}|{}|{}|{}",
                    k,
                    hx(s.id.as_bytes()),
                    hl(s.disclosed.iter().map(|d| hx(d.as_bytes())).collect()),
                    hx(i.id.as_bytes()),
                    hx(&i.verifying_key.to_bytes()),
                    hx(&i.revocation_verifying_key.to_bytes()),
                    hx(&i.revocation_registry.to_bytes()),
                    hx(i.verifiable_encryption_key.0.to_compressed().as_ref()),
                    hx(cs.id.as_bytes()),
                    hx(cs.label.as_deref().unwrap_or("").as_bytes()),
                    hx(cs.description.as_deref().unwrap_or("").as_bytes()),
                    hl(cs.blind_claims.iter().map(|d| hx(d.as_bytes())).collect()),
                    hl(cs.claim_indices.iter().map(|d| hx(d.as_bytes())).collect()),
                    cs.claims.len()
                )
            }
            St::Revocation(s) => format!("{}|rev|{}|{}|{}|{}|{}", k, hx(s.id.as_bytes()), hx(s.reference_id.as_bytes()), s.claim, hx(&s.verification_key.to_bytes()), hx(&s.accumulator.to_bytes())),
            St::Membership(s) => format!("{}|mem|{}|{}|{}|{}|{}", k, hx(s.id.as_bytes()), hx(s.reference_id.as_bytes()), s.claim, hx(&s.verification_key.to_bytes()), hx(&s.accumulator.to_bytes())),
            St::Equality(s) => format!("{}|eq|{}|{}", k, hx(s.id.as_bytes()), hl(s.ref_id_claim_index.iter().map(|(r, i)| format!("{}:{}", hx(r.as_bytes()), i)).collect())),
            St::Commitment(s) => format!("{}|com|{}|{}|{}|{}|{}", k, hx(s.id.as_bytes()), hx(s.reference_id.as_bytes()), s.claim, hx(&s.message_generator.to_compressed()), hx(&s.blinder_generator.to_compressed())),
            St::Range(s) => format!(
                "{}|rng|{}|{}|{}|{}|{}|{}",
                k,
                hx(s.id.as_bytes()),
                hx(s.reference_id.as_bytes()),
                hx(s.signature_id.as_bytes()),
                s.claim,
                s.lower.map(|x| x.to_string()).unwrap_or("-".into()),
                s.upper.map(|x| x.to_string()).unwrap_or("-".into())
            ),
            St::VerifiableEncryption(s) => format!(
                "{}|ve|{}|{}|{}|{}|{}|{}",
                k,
                hx(s.id.as_bytes()),
                if s.allow_message_decryption { 1 } else { 0 },
                hx(s.reference_id.as_bytes()),
                s.claim,
                hx(&s.message_generator.to_compressed()),
                hx(s.encryption_key.0.to_compressed().as_ref())
            ),
            St::VerifiableEncryptionDecryption(s) => format!("{}|ved|{}|{}|{}|{}|{}", k, hx(s.id.as_bytes()), hx(s.reference_id.as_bytes()), s.claim, hx(&s.message_generator.to_compressed()), hx(s.encryption_key.0.to_compressed().as_ref())),
        };
        toks.push(t);
    }
    toks.join(" ")
}

pub fn items_line(items: &[(Vec<u8>, Vec<u8>)]) -> String {
    items.iter().map(|(l, d)| format!("{}:{}", hx(l), hx(d))).collect::<Vec<_>>().join(" ")
}

/// emit one model comparison for the public prefix of (schema, nonce)
pub fn emit_public<S: ShortGroupSignatureScheme>(em: &mut Emitter, schema: &credx::presentation::PresentationSchema<S>, nonce: &[u8]) {
    let real = crate::adv::public_prefix(schema, nonce);
    em.op(schema_line(schema, nonce), items_line(&real));
}
