//! C07 (undisclosed claims stay confidential) and C12 (unlinkability): distinguisher catalogues over the
//! public view of honest presentations.
use crate::common::*;
use crate::pres::*;
use blsful::inner_types::{multi_miller_loop, G2Prepared, MillerLoopResult};
use credx::claim::*;
use credx::knox::short_group_sig_core::short_group_traits::ShortGroupSignatureScheme;
use credx::presentation::Presentation;
use credx::statement::*;
use serde_json::{json, Value};

struct View {
    /// opaque byte-string leaves (ciphertexts, proof blobs)
    blobs: Vec<(String, Vec<u8>)>,
    /// scalar-looking leaves that did not parse (must stay 0: a wrong reading would blind the catalogue)
    unparsed: usize,
    scalars: Vec<(String, Scalar)>,
    g1: Vec<(String, G1Projective)>,
    g2: Vec<(String, G2Projective)>,
    challenge: Scalar,
}

fn view_of<S: ShortGroupSignatureScheme>(p: &Presentation<S>) -> View {
    let v = serde_json::to_value(p).unwrap();
    let mut ls = vec![];
    leaves(&v, &mut vec![], &mut ls);
    let mut out = View { blobs: vec![], unparsed: 0, scalars: vec![], g1: vec![], g2: vec![], challenge: p.challenge };
    for (path, leaf) in ls {
        // disclosed claims (also the proof's own copy of their scalars) are not hidden material
        if path.iter().any(|s| s == "disclosed_messages") {
            continue;
        }
        let name = path.join("/");
        // byte vectors written as arrays of numbers (the symmetric ciphertext of the encrypt-and-decrypt proof)
        if path.len() >= 2 && path[path.len() - 2] == "ciphertext" {
            if let Some(b) = leaf.as_u64() {
                let parent = path[..path.len() - 1].join("/");
                match out.blobs.last_mut() {
                    Some((n, v)) if *n == parent => v.push(b as u8),
                    _ => out.blobs.push((parent, vec![b as u8])),
                }
                continue;
            }
        }
        match leaf_kind(&leaf) {
            LeafKind::Scalar => {
                // ByteProof scalars are written with `prime_field` (little-endian repr); everything else big-endian
                let txt = leaf.as_str().unwrap();
                let parsed = if path.iter().any(|s| s == "byte_proofs") {
                    let mut b = unhex(txt);
                    b.reverse();
                    sc_from_hex(&hexs(&b))
                } else {
                    sc_from_hex(txt)
                };
                match parsed {
                    Some(s) => out.scalars.push((name, s)),
                    None => out.unparsed += 1,
                }
            }
            LeafKind::G1 => {
                if let Some(q) = g1_of_hex(leaf.as_str().unwrap()) {
                    out.g1.push((name, q));
                }
            }
            LeafKind::G2 => {
                if let Some(q) = g2_of_hex(leaf.as_str().unwrap()) {
                    out.g2.push((name, q));
                }
            }
            LeafKind::Other if path.last().map(|s| s == "ciphertext").unwrap_or(false) => {
                if let Some(b) = leaf.as_str().and_then(|t| hex::decode(t).ok()) {
                    out.blobs.push((name, b));
                }
            }
            // opaque proof blobs (bulletproofs): every aligned 48-byte chunk that is a compressed G1 point
            LeafKind::Other if path.last().map(|s| s == "proof" || s == "range_proof").unwrap_or(false) => {
                if let Some(b) = leaf.as_str().and_then(|t| hex::decode(t).ok()) {
                    out.blobs.push((name.clone(), b.clone()));
                    for (k, ch) in b.chunks_exact(48).enumerate() {
                        if let Some(q) = <[u8; 48]>::try_from(ch).ok().and_then(|a| Option::<G1Affine>::from(G1Affine::from_compressed(&a))) {
                            out.g1.push((format!("{}#{}", name, k), G1Projective::from(q)));
                        }
                    }
                }
            }
            _ => {}
        }
    }
    out
}

/// public generators of a schema (G1): curve generator, statement generators, encryption keys, BBS message generators
fn public_gens<S: ShortGroupSignatureScheme>(schema: &credx::presentation::PresentationSchema<S>) -> Vec<(String, G1Projective)> {
    let mut g = vec![("g1".to_string(), G1Projective::GENERATOR)];
    // statement-level generators and encryption keys first (the cap below must not cut them off)
    for st in schema.statements.values() {
        match st {
            Statements::Commitment(x) => {
                g.push((format!("{}.message_generator", x.id), x.message_generator));
                g.push((format!("{}.blinder_generator", x.id), x.blinder_generator));
            }
            Statements::VerifiableEncryption(x) => {
                g.push((format!("{}.message_generator", x.id), x.message_generator));
                g.push((format!("{}.encryption_key", x.id), x.encryption_key.0));
            }
            Statements::VerifiableEncryptionDecryption(x) => {
                g.push((format!("{}.message_generator", x.id), x.message_generator));
                g.push((format!("{}.encryption_key", x.id), x.encryption_key.0));
            }
            _ => {}
        }
    }
    g.dedup_by(|a, b| a.1 == b.1);
    let sv = serde_json::to_value(schema).unwrap();
    let mut ls = vec![];
    leaves(&sv, &mut vec![], &mut ls);
    for (path, leaf) in ls {
        if leaf_kind(&leaf) == LeafKind::G1 {
            if let Some(q) = g1_of_hex(leaf.as_str().unwrap()) {
                let name = path.iter().filter(|s| s.parse::<usize>().is_err()).cloned().collect::<Vec<_>>().join(".");
                if !g.iter().any(|(_, x)| *x == q) && g.len() < 16 {
                    g.push((name, q));
                }
            }
        }
    }
    g
}

/// every public test of the catalogue that evaluates differently on the two candidates
fn distinguishers(view: &View, gens: &[(String, G1Projective)], m0: &Scalar, m1: &Scalar, others: &[Scalar]) -> Vec<String> {
    let c = view.challenge;
    let mut found = vec![];
    // T1: a transmitted scalar / point is a deterministic image of the candidate
    for (n, s) in &view.scalars {
        if (s == m0) != (s == m1) {
            found.push(format!("scalar-equals-candidate:{}", n));
        }
    }
    for (n, p) in &view.g1 {
        for (gn, q) in gens {
            if (*p == *q * *m0) != (*p == *q * *m1) {
                found.push(format!("point-is-candidate-times-generator:{}:{}", n, gn));
            }
        }
    }
    // T2: nonce reuse — a published response p = n + c·m whose nonce n also blinds a transmitted point:
    //     P - (p - c·m)·Q ∈ {0, m·Q'} for public generators Q, Q'
    let mq0: Vec<G1Projective> = gens.iter().map(|(_, q)| *q * *m0).collect();
    let mq1: Vec<G1Projective> = gens.iter().map(|(_, q)| *q * *m1).collect();
    // the 64 byte ciphertext points of a decryptable encryption have their own test below
    let targets: Vec<&(String, G1Projective)> = view.g1.iter().filter(|(n, _)| !n.contains("byte_ciphertext")).collect();
    for (pn, p) in view.scalars.iter().filter(|(n, _)| !n.contains("byte_proofs")) {
        let n0 = *p - c * *m0;
        let n1 = *p - c * *m1;
        for (qn, q) in gens {
            let (a0, a1) = (*q * n0, *q * n1);
            for (tn, t) in &targets {
                let (d0, d1) = (*t - a0, *t - a1);
                let z = (bool::from(d0.is_identity()), bool::from(d1.is_identity()));
                if z.0 != z.1 {
                    found.push(format!("nonce-reuse:{}:{}:{}", tn, pn, qn));
                    continue;
                }
                for (j, (q2n, _)) in gens.iter().enumerate() {
                    if (d0 == mq0[j]) != (d1 == mq1[j]) {
                        found.push(format!("nonce-reuse-with-message-term:{}:{}:{}:{}", tn, pn, qn, q2n));
                    }
                }
            }
        }
    }
    // T4: a response without a (fresh) nonce: s = ±c·m, or two responses sharing their nonce: s_i - s_j = ±c·m
    let (cm0, cm1) = (c * *m0, c * *m1);
    let plain: Vec<&(String, Scalar)> = view.scalars.iter().filter(|(n, _)| !n.contains("byte_proofs")).collect();
    for (n, s) in &plain {
        if (*s == cm0) != (*s == cm1) || (*s == -cm0) != (*s == -cm1) {
            found.push(format!("response-without-nonce:{}", n));
        }
    }
    for (i, (an, a)) in plain.iter().enumerate() {
        for (bn, b) in plain.iter().skip(i + 1) {
            let d = *a - *b;
            if (d == cm0) != (d == cm1) || (d == -cm0) != (d == -cm1) {
                found.push(format!("responses-share-nonce:{}:{}", an, bn));
            }
        }
    }
    // T5: two responses for *different* claims sharing a nonce: s_i - s_j = ±c·(m - o) for another claim value o
    // the observer knows or can enumerate (the other hidden claims of the scenario)
    for (i, (an, a)) in plain.iter().enumerate() {
        for (bn, b) in plain.iter().skip(i + 1) {
            let d = *a - *b;
            for o in others {
                let (x0, x1) = (c * (*m0 - *o), c * (*m1 - *o));
                if (d == x0) != (d == x1) || (d == -x0) != (d == -x1) {
                    found.push(format!("responses-of-two-claims-share-nonce:{}:{}", an, bn));
                }
            }
        }
    }
    // T6: the difference of two transmitted points carries no randomness: P_a − P_b = m·(Q_i − Q_j), = m·Q_i, or
    //     = (m − o)·Q_i for another claim value o (two blinded points sharing their blinding term)
    {
        let pts: Vec<&(String, G1Projective)> = view.g1.iter().filter(|(n, _)| !n.contains("byte_ciphertext")).take(24).collect();
        let mut cand: Vec<(String, G1Projective, G1Projective)> = vec![];
        for (i, (qn, _)) in gens.iter().enumerate() {
            cand.push((qn.clone(), mq0[i], mq1[i]));
            for (j, (q2n, _)) in gens.iter().enumerate() {
                if i != j {
                    cand.push((format!("{}-{}", qn, q2n), mq0[i] - mq0[j], mq1[i] - mq1[j]));
                }
            }
            for o in others.iter().take(12) {
                cand.push((format!("{}*(m-other)", qn), mq0[i] - gens[i].1 * *o, mq1[i] - gens[i].1 * *o));
            }
        }
        for (i, (an, a)) in pts.iter().enumerate() {
            for (bn, b) in pts.iter().skip(i + 1) {
                let d = *a - *b;
                if bool::from(d.is_identity()) {
                    continue;
                }
                for (cn, x0, x1) in &cand {
                    if (d == *x0) != (d == *x1) || (d == -*x0) != (d == -*x1) {
                        found.push(format!("point-difference-is-candidate-image:{}:{}:{}", an, bn, cn));
                    }
                }
            }
        }
    }
    // T3: ratio between two transmitted points
    for (an, a) in &view.g1 {
        for (bn, b) in &view.g1 {
            if an != bn && (*a == *b * *m0) != (*a == *b * *m1) {
                found.push(format!("point-ratio:{}:{}", an, bn));
            }
        }
    }
    found
}

/// byte-level variant for the decryptable encryptions: candidate bytes against (byte response, byte c1)
/// byte ciphertexts whose randomness leaks through a blinder response without nonce (s = c·b, checked against
/// c1 = b·G): returns (byte index, c2 − b·K for every public generator K)
fn stripped_byte_ciphertexts(view: &View, gens: &[(String, G1Projective)]) -> Vec<(usize, Vec<G1Projective>)> {
    let mut out = vec![];
    let cinv = match Option::<Scalar>::from(view.challenge.invert()) {
        Some(c) => c,
        None => return out,
    };
    for (n, s) in view.scalars.iter().filter(|(n, _)| n.contains("byte_proofs") && n.ends_with("blinder")) {
        let i = match n.split('/').filter_map(|s| s.parse::<usize>().ok()).last() {
            Some(i) if i < 32 => i,
            _ => continue,
        };
        let b = *s * cinv;
        let c1 = view.g1.iter().find(|(n, _)| n.contains("byte_ciphertext") && n.contains("c1") && n.ends_with(&format!("/{}", i)));
        let c2 = view.g1.iter().find(|(n, _)| n.contains("byte_ciphertext") && n.contains("c2") && n.ends_with(&format!("/{}", i)));
        if let (Some((_, c1)), Some((_, c2))) = (c1, c2) {
            if *c1 == G1Projective::GENERATOR * b {
                out.push((i, gens.iter().map(|(_, k)| *c2 - *k * b).collect()));
            }
        }
    }
    out
}

fn byte_distinguishers(view: &View, gens: &[(String, G1Projective)], m0: &Scalar, m1: &Scalar) -> Vec<String> {
    let c = view.challenge;
    let mut found = vec![];
    let (b0, b1) = (m0.to_be_bytes(), m1.to_be_bytes());
    // a byte ciphertext stripped of its randomness is (generator · byte)
    for (i, pts) in stripped_byte_ciphertexts(view, gens) {
        for t in &pts {
            for (_, m) in gens {
                if (*t == *m * Scalar::from(b0[i] as u64)) != (*t == *m * Scalar::from(b1[i] as u64)) {
                    found.push(format!("byte-blinder-response-without-nonce:byte_proofs/{}/blinder", i));
                }
            }
        }
    }
    // a transmitted per-byte group element that is a deterministic image of the byte (e.g. a ciphertext left at the
    // identity / without its randomness for some byte values): P = byte·Q for a public generator Q
    for (n, p) in view.g1.iter().filter(|(n, _)| n.contains("byte")) {
        let i = match n.split('/').filter_map(|s| s.parse::<usize>().ok()).last() {
            Some(i) if i < 32 => i,
            _ => continue,
        };
        if b0[i] == b1[i] {
            continue;
        }
        let mut qs: Vec<G1Projective> = gens.iter().map(|(_, q)| *q).collect();
        qs.push(G1Projective::GENERATOR);
        for q in qs {
            if (*p == q * Scalar::from(b0[i] as u64)) != (*p == q * Scalar::from(b1[i] as u64)) {
                found.push(format!("byte-element-without-randomness:{}", n));
                break;
            }
        }
    }
    // byte responses without a nonce, or sharing one: p_i = c·byte_i, p_i - p_j = c·(byte_i - byte_j)
    let byte_resp: Vec<(usize, &String, Scalar)> = view
        .scalars
        .iter()
        .filter(|(n, _)| n.contains("byte_proofs") && n.ends_with("message"))
        .filter_map(|(n, p)| n.split('/').filter_map(|s| s.parse::<usize>().ok()).last().filter(|i| *i < 32).map(|i| (i, n, *p)))
        .collect();
    let sb = |b: u8| Scalar::from(b as u64);
    for (i, n, p) in &byte_resp {
        if (*p == c * sb(b0[*i])) != (*p == c * sb(b1[*i])) {
            found.push(format!("byte-response-without-nonce:{}", n));
        }
    }
    for (x, (i, ni, pi)) in byte_resp.iter().enumerate() {
        for (j, nj, pj) in byte_resp.iter().skip(x + 1) {
            let d = *pi - *pj;
            if (d == c * (sb(b0[*i]) - sb(b0[*j]))) != (d == c * (sb(b1[*i]) - sb(b1[*j]))) {
                found.push(format!("byte-responses-share-nonce:{}:{}", ni, nj));
            }
        }
    }
    for (pn, p) in view.scalars.iter().filter(|(n, _)| n.contains("byte_proofs") && n.ends_with("message")) {
        // index of the byte
        let idx: Option<usize> = pn.split('/').filter_map(|s| s.parse::<usize>().ok()).last();
        let i = match idx {
            Some(i) if i < 32 => i,
            _ => continue,
        };
        for (tn, t) in view.g1.iter().filter(|(n, _)| n.contains("byte_ciphertext") && n.contains("c1") && n.ends_with(&format!("/{}", i))) {
            let t0 = *t == G1Projective::GENERATOR * (*p - c * Scalar::from(b0[i] as u64));
            let t1 = *t == G1Projective::GENERATOR * (*p - c * Scalar::from(b1[i] as u64));
            if t0 != t1 {
                found.push(format!("byte-nonce-reuse:{}:{}", tn, pn));
            }
        }
    }
    found
}

fn other_value(c: &ClaimData, rng: &mut Rng) -> ClaimData {
    match c {
        ClaimData::Number(n) => NumberClaim::from(n.value + 1 + rng.below(3) as isize).into(),
        ClaimData::Hashed(_) => HashedClaim::from(*rng.pick(&["Bob Example", "Carol Example"])).into(),
        ClaimData::Scalar(s) => ScalarClaim::from(s.value + Scalar::ONE).into(),
        ClaimData::Revocation(r) => RevocationClaim::from(format!("{}-b", r.value)).into(),
        ClaimData::Enumeration(e) => EnumerationClaim { dst: e.dst.clone(), value: (e.value + 1) % 3, total_values: e.total_values }.into(),
    }
}

fn contains(h: &[u8], n: &[u8]) -> bool {
    !n.is_empty() && h.len() >= n.len() && h.windows(n.len()).any(|w| w == n)
}

/// A value sent in the clear that is a hash of public data and the hidden claim lets anybody test a guess of the claim.
/// The logging merlin records every transcript the prover runs: a transcript is reported when (1) ≥ 8 leading bytes of one
/// of its outputs appear verbatim in the presentation, (2) one of its inputs contains a representation of the hidden claim
/// (text form, raw bytes, scalar in either byte order), and (3) every other input is public (appears in the presentation,
/// the schema or the nonce, or is at most 4 bytes long).
fn clear_hash_of_claim(log: &[merlin::vlog::Entry], pres: &[u8], public: &[u8], claim: &ClaimData) -> Vec<String> {
    let mut reps: Vec<Vec<u8>> = vec![claim.to_text().into_bytes(), claim.to_scalar().to_be_bytes().to_vec(), claim.to_scalar().to_le_bytes().to_vec(), claim.to_bytes()];
    if let Some(t) = claim.to_text().splitn(2, ':').nth(1) {
        reps.push(t.as_bytes().to_vec());
    }
    reps.retain(|r| r.len() >= 1);
    let mut found = vec![];
    let mut tids: Vec<u64> = log.iter().map(|e| e.tid).collect();
    tids.sort();
    tids.dedup();
    for tid in tids {
        let es: Vec<&merlin::vlog::Entry> = log.iter().filter(|e| e.tid == tid).collect();
        for (oi, out) in es.iter().enumerate().filter(|(_, e)| e.kind == 1 && e.data.len() >= 8) {
            let take = out.data.len().min(12);
            if !contains(pres, &out.data[..take.max(8)]) {
                continue;
            }
            let inputs: Vec<&&merlin::vlog::Entry> = es[..oi].iter().filter(|e| e.kind == 0 && e.label != b"dom-sep").collect();
            let has_claim = inputs.iter().any(|e| reps.iter().any(|r| r.len() >= 2 && contains(&e.data, r) || e.data == *r));
            let all_public = inputs.iter().all(|e| e.data.len() <= 4 || contains(pres, &e.data) || contains(public, &e.data) || reps.iter().any(|r| e.data == *r || (r.len() >= 2 && contains(&e.data, r) && e.data.len() <= r.len() + 8)));
            if has_claim && all_public {
                found.push(format!("clear-text-value-is-hash-of-public-data-and-claim:{}", String::from_utf8_lossy(&out.label)));
            }
        }
    }
    found
}

fn c07_suite<S: ShortGroupSignatureScheme>(em: &mut Emitter, base: &mut Rng, suite: &str) {
    let off = if suite == "bbs" { 0 } else { 1 };
    let kinds = ["commitment", "commitment+range", "verenc", "verenc+scalar", "ved", "revocation", "membership", "signature-only", "equality", "equality2", "commitment-twice", "commitment-two-claims", "commitment+range-twice", "equal-hidden-claims", "ved-byte-boundary"];
    for k in 0..em.n(20, 200) {
        if !em.mine(2 * k + off) {
            continue;
        }
        let rng = &mut base.sub((2 * k + off) as u64);
        let kind = kinds[k % kinds.len()];
        if (kind == "ved" || kind == "verenc+scalar" || kind == "ved-byte-boundary") && !em.thorough() && k >= 2 * kinds.len() {
            continue;
        }
        let n_claims = 4 + rng.below(3) as usize;
        let n_claims = if kind == "equality2" || kind == "equal-hidden-claims" { 6 } else { n_claims };
        let mut mix = Mix { n_creds: if kind.starts_with("equality") { 2 } else { 1 }, n_claims, age: rng.range(18, 80), ..Default::default() };
        // the hidden claim under attack
        let ci = match kind {
            "commitment+range" | "commitment+range-twice" | "ved-byte-boundary" => 2,
            "revocation" => 0,
            "membership" | "equality" | "equality2" | "equal-hidden-claims" => 1,
            _ => 1 + rng.below(n_claims as u64 - 1) as usize,
        };
        mix.disclosed = (0..mix.n_creds).map(|_| LABELS.iter().enumerate().take(n_claims).filter(|(i, _)| *i != ci && *i != 0 && rng.chance(1, 3)).map(|(_, l)| l.to_string()).collect()).collect();
        match kind {
            "commitment" | "commitment-twice" | "commitment-two-claims" => mix.commitment = Some(ci),
            "commitment+range" => {
                mix.commitment = Some(2);
                mix.range = Some((Some(mix.age - 10), Some(mix.age + 10)));
            }
            "commitment+range-twice" => {
                mix.commitment = Some(2);
                mix.range = Some((Some(mix.age - 10), None));
            }
            "verenc" => mix.verenc = Some((ci, false)),
            "verenc+scalar" => mix.verenc = Some((ci, true)),
            "ved" => mix.ved = Some(ci),
            "ved-byte-boundary" => {
                // number claims whose encodings differ in *which* bytes are zero (255 → …00 ff, 256 → …01 00)
                mix.ved = Some(2);
                mix.age = *rng.pick(&[255i64, 65535]);
            }
            "revocation" => mix.revocation = true,
            "membership" => mix.membership = true,
            "equality" | "equality2" => mix.equality = true,
            _ => {}
        }
        let mut scn = Scn::<S>::build(rng, &mix);
        if kind == "equality2" {
            // a second, disjoint equality group: claim 5 (city) equal in both credentials, nothing disclosed
            mix.disclosed = vec![vec![], vec![]];
            let mut c1 = scn.bundles[1].credential.claims.clone();
            c1[0] = RevocationClaim::from(format!("c07-eq2-{}", k)).into();
            c1[5] = scn.bundles[0].credential.claims[5].clone();
            let b = scn.issuers[1].sign_credential(&c1).unwrap();
            scn.credentials.insert(scn.sig_ids[1].clone(), b.credential.clone().into());
            scn.bundles[1] = b;
            let mut stmts: Vec<Statements<S>> = scn
                .schema
                .statements
                .values()
                .map(|s| match s {
                    Statements::Signature(ss) => {
                        let mut t = (**ss).clone();
                        t.disclosed = Default::default();
                        if ss.id == scn.sig_ids[1] {
                            t.issuer = scn.bundles[1].issuer.clone();
                        }
                        t.into()
                    }
                    o => o.clone(),
                })
                .collect();
            let mut m = indexmap::IndexMap::new();
            m.insert(scn.sig_ids[0].clone(), 5usize);
            m.insert(scn.sig_ids[1].clone(), 5usize);
            stmts.push(EqualityStatement { id: "eq1".into(), ref_id_claim_index: m }.into());
            scn.schema = credx::presentation::PresentationSchema::new_with_id(&stmts, &scn.schema.id);
        }
        // two commitment statements sharing the blinder generator: on the same claim under another message generator,
        // or on another hidden claim under the same generators — their blinding factors must be independent
        if kind == "commitment-twice" {
            scn.add_second_commitment(rng, ci, false);
        }
        // two undisclosed claims of one credential with the same value (name = city), no statement about either
        if kind == "equal-hidden-claims" {
            let mut c0 = scn.bundles[0].credential.claims.clone();
            c0[0] = RevocationClaim::from(format!("c07-eqh-{}", k)).into();
            c0[5] = c0[1].clone();
            if let Ok(b) = scn.issuers[0].sign_credential(&c0) {
                scn.credentials.insert(scn.sig_ids[0].clone(), b.credential.clone().into());
                scn.bundles[0] = b;
            }
            let stmts: Vec<Statements<S>> = scn.schema.statements.values().map(|st| match st {
                Statements::Signature(ss) => {
                    let mut t = (**ss).clone();
                    t.disclosed = Default::default();
                    t.issuer = scn.bundles[0].issuer.clone();
                    t.into()
                }
                o => o.clone(),
            }).collect();
            scn.schema = credx::presentation::PresentationSchema::new_with_id(&stmts, &scn.schema.id);
        }
        // two range statements over one commitment ("age >= a" and "age <= b" written as two requirements)
        if kind == "commitment+range-twice" {
            let mut stmts: Vec<Statements<S>> = scn.schema.statements.values().cloned().collect();
            stmts.push(RangeStatement { id: "rng1".into(), reference_id: "com0".into(), signature_id: scn.sig_ids[0].clone(), claim: 2, lower: None, upper: Some(mix.age as isize + 10) }.into());
            scn.stmt_ids.push(("rng1".into(), "range".into()));
            scn.schema = credx::presentation::PresentationSchema::new_with_id(&stmts, &scn.schema.id);
        }
        if kind == "commitment-two-claims" {
            let cj = (1..n_claims).find(|j| *j != ci && !mix.disclosed[0].contains(&LABELS[*j].to_string()));
            match cj {
                Some(cj) => scn.add_second_commitment(rng, cj, k % 4 < 2),
                None => continue,
            }
        }
        let scn = scn;
        merlin::vlog::take();
        merlin::vlog::enable(true);
        let created = scn.create();
        merlin::vlog::enable(false);
        let prover_log = merlin::vlog::take();
        let p = match created {
            Out::Ok(p) if scn.verify(&p).is_ok() => p,
            _ => continue,
        };
        // model: the verifier-side relations the simulator of the hiding theorems has to satisfy
        recommit_lines(em, suite, &scn.schema, &p, &scn.nonce);
        em.op(plan_line(&scn.schema, &p, suite), plan_class(&p, &scn.schema, &scn.nonce).0);
        let claim = &scn.bundles[0].credential.claims[ci];
        let m0 = claim.to_scalar();
        let m1 = if kind == "ved-byte-boundary" { NumberClaim::from(mix.age as isize + 1).to_scalar() } else { other_value(claim, rng).to_scalar() };
        let view = view_of(&p);
        let gens = public_gens(&scn.schema);
        em.oracle_case(&format!("{} {} {}", suite, kind, k));
        em.count(&format!("{}:{}", suite, kind));
        em.count_n("scalars", view.scalars.len() as u64);
        em.count_n("g1-points", view.g1.len() as u64);
        if view.unparsed > 0 {
            em.violation("c07:harness-view-unparsed", format!("{}: {} scalar leaves of the presentation did not parse — the distinguisher catalogue would be blind to them", suite, view.unparsed), json!({"suite": suite, "kind": kind}));
        }
        // the other claims of the scenario's credentials (side knowledge / enumerable values)
        let others: Vec<Scalar> = scn.bundles.iter().flat_map(|b| b.credential.claims.iter().enumerate().filter(|(i, _)| *i != ci).map(|(_, c)| c.to_scalar()).collect::<Vec<_>>()).collect();
        let mut found = distinguishers(&view, &gens, &m0, &m1, &others);
        {
            let pres_bytes = serde_bare::to_vec(&p).unwrap_or_default();
            let mut public_bytes = serde_bare::to_vec(&scn.schema).unwrap_or_default();
            public_bytes.extend(serde_json::to_vec(&scn.schema).unwrap_or_default());
            public_bytes.extend_from_slice(&scn.nonce);
            found.extend(clear_hash_of_claim(&prover_log, &pres_bytes, &public_bytes, claim));
        }
        // two transmitted responses coincide: their nonces and their secrets coincide — with fresh nonces per response
        // this never happens, whatever the secrets are
        {
            // (inside one signature proof's response vector: responses shared *between* proofs are how predicates link)
            let plain: Vec<&(String, Scalar)> = view.scalars.iter().filter(|(n, _)| n.contains("/pok/proof/")).collect();
            for (i, (an, a)) in plain.iter().enumerate() {
                if bool::from(a.is_zero()) {
                    continue;
                }
                for (bn, b) in plain.iter().skip(i + 1) {
                    let same_vector = an.rsplitn(2, '/').nth(1) == bn.rsplitn(2, '/').nth(1);
                    if same_vector && a == b {
                        found.push(format!("responses-coincide:{}:{}", an, bn));
                    }
                }
            }
        }
        // a group element transmitted at two places: two sub-proofs drew the same randomness
        for (i, (an, a)) in view.g1.iter().enumerate() {
            if bool::from(a.is_identity()) || gens.iter().any(|(_, q)| q == a) {
                continue;
            }
            for (bn, b) in view.g1.iter().skip(i + 1) {
                if a == b {
                    found.push(format!("randomness-repeated-inside-presentation:{}:{}", an, bn));
                }
            }
        }
        found.extend(byte_distinguishers(&view, &gens, &m0, &m1));
        if let Some(g) = scn.schema.statements.values().find_map(|s| match s {
            Statements::VerifiableEncryptionDecryption(x) => Some(x.message_generator),
            _ => None,
        }) {
            found.extend(ved_aes_distinguisher(&serde_json::to_value(&p).unwrap_or(Value::Null), &g, &m0, &m1));
        }
        // two presentations of the same credential: response difference quotient at equal positions
        if let Out::Ok(p2) = scn.create() {
            let v2 = view_of(&p2);
            // a transmitted group element that is the same in two presentations of one credential is a deterministic
            // function of the credential: whatever it is, a guess of the hidden claims can be tested against it
            for ((n, a), (_, b)) in view.g1.iter().zip(v2.g1.iter()) {
                if a == b && !bool::from(a.is_identity()) && !gens.iter().any(|(_, q)| q == a) {
                    found.push(format!("transmitted-element-is-deterministic:{}", n));
                }
            }
            for ((n, a), (_, b)) in view.g2.iter().zip(v2.g2.iter()) {
                if a == b && !bool::from(a.is_identity()) {
                    found.push(format!("transmitted-element-is-deterministic:{}", n));
                }
            }
            if v2.challenge != view.challenge {
                let inv = (view.challenge - v2.challenge).invert().unwrap();
                for ((n, a), (_, b)) in view.scalars.iter().zip(v2.scalars.iter()) {
                    let q = (*a - *b) * inv;
                    if (q == m0) != (q == m1) {
                        found.push(format!("cross-presentation-nonce-reuse:{}", n));
                    }
                }
            }
        }
        for f in &found {
            let test = f.split(':').next().unwrap_or("test");
            let leaf = f.split(':').nth(1).unwrap_or("").rsplit('/').next().unwrap_or("").to_string();
            em.violation(
                &format!("c07:{}:{}:{}", test, kind, leaf),
                format!("{}: the public view of a presentation with a {} statement separates the signed value from another candidate: {}", suite, kind, f),
                scn.replay(json!({"suite": suite, "kind": kind, "claim_index": ci, "test": f, "presentation": serde_json::to_value(&p).unwrap_or(Value::Null)})),
            );
        }
        if k < 3 {
            em.sample(json!({"suite": suite, "kind": kind, "claim": ci, "scalars": view.scalars.len(), "g1": view.g1.len(), "generators": gens.len()}));
        }
    }
}

/// the VB20 membership prover's coins (recovered from two answers to one commitment) must be free of exact
/// algebraic relations of low degree — equal coins, a coin that is the sum / difference / product of two
/// others or of the hidden element — and must not repeat across commitments: each such relation turns the
/// published responses into equations a dictionary test can solve for the hidden element
/// encrypt-and-decrypt proofs: the AES key that protects the claim text is derived from K·b = c2 − m·M, which a
/// candidate m lets anyone compute — the authenticated ciphertext then says whether the guess is right
fn ved_aes_distinguisher(v: &Value, gens_m: &G1Projective, m0: &Scalar, m1: &Scalar) -> Vec<String> {
    use aes_gcm::aead::{Aead, KeyInit, Payload};
    use aes_gcm::{Aes128Gcm, Nonce};
    let mut found = vec![];
    let proofs = match v["proofs"].as_object() {
        Some(p) => p,
        None => return found,
    };
    for (id, pr) in proofs {
        let ved = &pr["VerifiableEncryptionDecryption"];
        if ved.is_null() {
            continue;
        }
        let (c1, c2) = match (ved["c1"].as_str().and_then(g1_of_hex), ved["c2"].as_str().and_then(g1_of_hex)) {
            (Some(a), Some(b)) => (a, b),
            _ => continue,
        };
        let ct: Vec<u8> = match &ved["ciphertext"] {
            Value::String(h) => unhex(h),
            Value::Array(a) => a.iter().filter_map(|x| x.as_u64().map(|b| b as u8)).collect(),
            _ => continue,
        };
        if ct.len() < 28 {
            continue;
        }
        let test = |m: &Scalar| -> bool {
            let ikm = c2 - *gens_m * *m;
            let mut t = merlin::Transcript::new(b"PresentationEncryptionDecryption arbitrary data derive aes key");
            t.append_message(b"key ikm", ikm.to_compressed().as_slice());
            let mut okm = [0u8; 32];
            t.challenge_bytes(b"aes key", &mut okm);
            let key = aes_gcm::Key::<Aes128Gcm>::from_slice(&okm[..16]);
            let aad: Vec<u8> = okm[16..].iter().copied().chain(c1.to_compressed()).chain(c2.to_compressed()).collect();
            Aes128Gcm::new(key).decrypt(Nonce::from_slice(&ct[..12]), Payload { msg: &ct[12..], aad: &aad }).is_ok()
        };
        if test(m0) != test(m1) {
            found.push(format!("ved-aes-key-from-candidate:{}", id));
        }
    }
    found
}

fn vb20_coin_relations(em: &mut Emitter, rng: &mut Rng) {
    use credx::knox::accumulator::vb20::{self, Accumulator, Element, MembershipProofCommitting, MembershipWitness, ProofParams};
    use credx::knox::short_group_sig_core::{HiddenMessage, ProofMessage};
    let names = ["sigma", "rho", "r_y", "r_sigma", "r_rho", "r_delta_sigma", "r_delta_rho"];
    let mut previous: Vec<Scalar> = vec![];
    for k in 0..em.n(6, 40) {
        let sk = vb20::SecretKey::new(Some(&rng.bytes(32)));
        let pk = vb20::PublicKey::from(&sk);
        let v0 = Accumulator::random(rng.chacha());
        let nonce = rng.bytes(16);
        let params = ProofParams::new(pk, Some(&nonce));
        let y = rng.scalar();
        let witness = MembershipWitness::new(Element(y), v0, &sk);
        let committing = MembershipProofCommitting::new(ProofMessage::Hidden(HiddenMessage::ProofSpecificBlinding(y)), witness, params, pk);
        let (c1, c2) = (rng.scalar(), rng.scalar());
        let j1 = serde_json::to_value(&committing.gen_proof(Element(c1))).unwrap();
        let j2 = serde_json::to_value(&committing.gen_proof(Element(c2))).unwrap();
        let f = |j: &Value, k: &str| sc_from_hex(j[k].as_str().unwrap_or("")).unwrap_or(Scalar::ZERO);
        let dinv = (c1 - c2).invert().unwrap();
        let ex = |key: &str| {
            let w = (f(&j1, key) - f(&j2, key)) * dinv;
            (w, f(&j1, key) - c1 * w)
        };
        let (sigma, r_sigma) = ex("s_sigma");
        let (rho, r_rho) = ex("s_rho");
        let (_, r_y) = ex("s_y");
        let (_, r_ds) = ex("s_delta_sigma");
        let (_, r_dr) = ex("s_delta_rho");
        let coins = [sigma, rho, r_y, r_sigma, r_rho, r_ds, r_dr];
        em.oracle_case(&format!("vb20 coins {}", k));
        let named: Vec<(String, Scalar)> = names.iter().zip(coins.iter()).map(|(n, c)| (n.to_string(), *c)).collect();
        let found = coin_relations(&named, &[("y".to_string(), y)], &previous);
        previous.extend_from_slice(&coins);
        for r in found {
            em.violation("c07:vb20-coins-related", format!("the membership prover's coins satisfy an exact relation: {} — the responses then determine the hidden element for a dictionary attacker", r), json!({"relation": r, "proof_1": j1, "proof_2": j2, "c1": sc_hex(&c1), "c2": sc_hex(&c2)}));
        }
    }
}

/// the same for the signature proofs of knowledge: `commit_signature_pok` takes the random source, so the same
/// seed gives the same commitment twice and two challenges give the coins
fn pok_coin_relations<S: ShortGroupSignatureScheme>(em: &mut Emitter, rng: &mut Rng, suite: &str, vsig: &str) {
    use credx::knox::short_group_sig_core::short_group_traits::ProofOfSignatureKnowledgeContribution;
    use credx::knox::short_group_sig_core::{HiddenMessage, ProofMessage};
    use std::num::NonZeroUsize;
    let mut previous: Vec<Scalar> = vec![];
    for k in 0..em.n(6, 40) {
        let n = 2 + rng.below(5) as usize;
        let (pk, sk) = match S::new_keys(NonZeroUsize::new(n).unwrap(), rng.chacha()) {
            Ok(x) => x,
            Err(_) => continue,
        };
        let msgs: Vec<Scalar> = (0..n).map(|_| rng.scalar()).collect();
        let sig = match S::sign(&sk, &msgs) {
            Ok(s) => s,
            Err(_) => continue,
        };
        let mask = rng.below(1 << n) as u32;
        let pm: Vec<ProofMessage<Scalar>> = (0..n).map(|i| if mask >> i & 1 == 1 { ProofMessage::Revealed(msgs[i]) } else { ProofMessage::Hidden(HiddenMessage::ProofSpecificBlinding(msgs[i])) }).collect();
        let seed = rng.seed32();
        let mk = || {
            use rand_chacha::rand_core::SeedableRng;
            S::commit_signature_pok(sig.clone(), &pk, &pm, rand_chacha::ChaCha20Rng::from_seed(seed))
        };
        let (c1, c2) = (rng.scalar(), rng.scalar());
        let (p1, p2) = match (mk().and_then(|p| p.generate_proof(c1)), mk().and_then(|p| p.generate_proof(c2))) {
            (Ok(a), Ok(b)) => (a, b),
            _ => continue,
        };
        let (j1, j2) = (serde_json::to_value(&p1).unwrap(), serde_json::to_value(&p2).unwrap());
        let r1: Vec<Scalar> = j1["proof"].as_array().map(|a| a.iter().filter_map(|x| x.as_str().and_then(sc_from_hex)).collect()).unwrap_or_default();
        let r2: Vec<Scalar> = j2["proof"].as_array().map(|a| a.iter().filter_map(|x| x.as_str().and_then(sc_from_hex)).collect()).unwrap_or_default();
        if r1.len() != r2.len() || r1.is_empty() {
            continue;
        }
        // the commitments must coincide for the extraction to mean anything
        let same_commitment = ["a_bar", "b_bar", "t", "sigma_1", "sigma_2", "commitment"].iter().all(|f| j1[*f] == j2[*f]);
        if !same_commitment {
            em.count(&format!("{}:pok-commitment-not-reproducible", suite));
            continue;
        }
        let dinv = (c1 - c2).invert().unwrap();
        let mut coins = vec![];
        let mut secrets = vec![];
        for i in 0..r1.len() {
            // both response conventions (s = r + c·w and s = r − c·w) give the same coin
            let w = (r1[i] - r2[i]) * dinv;
            coins.push((format!("coin[{}]", i), r1[i] - c1 * w));
            secrets.push((format!("secret[{}]", i), w));
        }
        em.oracle_case(&format!("{} pok coins {}", suite, k));
        for r in coin_relations(&coins, &secrets, &previous) {
            em.violation(vsig, format!("{}: the signature proof's coins satisfy an exact relation: {}", suite, r), json!({"suite": suite, "relation": r, "proof_1": j1, "proof_2": j2, "c1": sc_hex(&c1), "c2": sc_hex(&c2)}));
        }
        previous.extend(coins.iter().map(|(_, c)| *c));
    }
}

pub fn gen_c07(em: &mut Emitter, rng: &mut Rng) {
    em.rule = "honest presentations per statement kind touching a hidden claim (commitment, range, ElGamal with / without byte decomposition, \
               encrypt-and-decrypt, revocation, membership, equality, signature only), every claim type; two candidates (the signed value and another \
               plausible one); catalogue on public data only: transmitted scalar / point is a deterministic image of the candidate, nonce-reuse \
               solver P − (p − c·m)·Q ∈ {0, m·Q'} over all responses p, points P, public generators Q, Q', per-byte variant, point ratios, \
               cross-presentation difference quotients; the VB20 prover's coins (recovered from two answers to one commitment) are tested for exact low-degree relations and repeats. oracle: a test that evaluates differently on the two candidates".into();
    c07_suite::<Bbs>(em, rng, "bbs");
    c07_suite::<Ps>(em, rng, "ps");
    if em.mine(2 * em.n(20, 200)) {
        vb20_coin_relations(em, &mut rng.sub(6001));
        pok_coin_relations::<Bbs>(em, &mut rng.sub(6002), "bbs", "c07:pok-coins-related");
        pok_coin_relations::<Ps>(em, &mut rng.sub(6003), "ps", "c07:pok-coins-related");
    }
}

// ------------------------------------------------------------------------------------------------

fn pairing_eq(a: &G1Projective, b: &G2Projective, c: &G1Projective, d: &G2Projective) -> bool {
    // e(a, b) == e(c, d)
    if bool::from(a.is_identity()) || bool::from(c.is_identity()) || bool::from(b.is_identity()) || bool::from(d.is_identity()) {
        return false;
    }
    multi_miller_loop(&[(&a.to_affine(), &G2Prepared::from(b.to_affine())), (&(-*c).to_affine(), &G2Prepared::from(d.to_affine()))]).final_exponentiation().is_identity().into()
}

/// linking tests between two presentation views; returns the names of the tests that hold
fn links(a: &View, b: &View, gens: &[(String, G1Projective)]) -> Vec<String> {
    let mut out = vec![];
    // byte ciphertexts whose randomness leaks: the stripped point is a constant of the credential
    let (sa, sb) = (stripped_byte_ciphertexts(a, gens), stripped_byte_ciphertexts(b, gens));
    for (i, pa) in &sa {
        if let Some((_, pb)) = sb.iter().find(|(j, _)| j == i) {
            if pa.iter().zip(pb.iter()).any(|(x, y)| x == y) {
                out.push(format!("equal-stripped-byte-ciphertext:byte_proofs/{}/blinder", i));
            }
        }
    }
    for ((n, x), (_, y)) in a.scalars.iter().zip(b.scalars.iter()) {
        if x == y {
            out.push(format!("equal-scalar:{}", n));
        }
    }
    for ((n, x), (_, y)) in a.g1.iter().zip(b.g1.iter()) {
        if x == y {
            out.push(format!("equal-g1:{}", n));
        }
    }
    for ((n, x), (_, y)) in a.g2.iter().zip(b.g2.iter()) {
        if x == y {
            out.push(format!("equal-g2:{}", n));
        }
    }
    // byte strings sent in the clear (symmetric ciphertexts with their nonce, proof blobs): an aligned 8-byte window that is
    // the same in both presentations
    for ((n, x), (_, y)) in a.blobs.iter().zip(b.blobs.iter()) {
        let m = x.len().min(y.len());
        let mut o = 0;
        while o + 8 <= m {
            if x[o..o + 8] == y[o..o + 8] && x[o..o + 8].iter().any(|z| *z != 0) {
                out.push(format!("equal-bytes:{}:offset-{}", n, o));
                break;
            }
            o += 4;
        }
    }
    // the difference of two G1 leaves is a constant of the credential (two blinded points sharing their blinding term)
    {
        let n = a.g1.len().min(b.g1.len()).min(24);
        for i in 0..n {
            if a.g1[i].0.contains("byte_ciphertext") {
                continue;
            }
            for j in i + 1..n {
                if a.g1[j].0.contains("byte_ciphertext") {
                    continue;
                }
                let da = a.g1[i].1 - a.g1[j].1;
                if !bool::from(da.is_identity()) && da == b.g1[i].1 - b.g1[j].1 {
                    out.push(format!("equal-g1-difference:{}:{}", a.g1[i].0, a.g1[j].0));
                }
            }
        }
    }
    // nonce reuse across presentations: equal difference quotients at two positions would be a common secret
    if a.challenge != b.challenge {
        let inv = (a.challenge - b.challenge).invert().unwrap();
        let qs: Vec<(String, Scalar)> = a.scalars.iter().zip(b.scalars.iter()).map(|((n, x), (_, y))| (n.clone(), (*x - *y) * inv)).collect();
        for (i, (n, q)) in qs.iter().enumerate() {
            // a quotient that is "small" (a 64-bit number) is a recovered secret; so is a repeated one
            let be = q.to_be_bytes();
            if be[..24].iter().all(|z| *z == 0) {
                out.push(format!("small-difference-quotient:{}", n));
            }
            for (m, q2) in qs.iter().skip(i + 1) {
                if q == q2 && !bool::from(q.is_zero()) {
                    out.push(format!("repeated-difference-quotient:{}:{}", n, m));
                }
            }
        }
    }
    // responses sharing a nonce inside one presentation: (s_i - s_j)/c = w_i - w_j is a constant of the
    // credential — equal in two presentations of the same credential
    {
        let pick = |v: &View| -> Vec<(String, Scalar)> { v.scalars.iter().filter(|(n, _)| !n.contains("byte_proofs") && !n.ends_with("challenge")).take(48).cloned().collect() };
        let (sa, sb) = (pick(a), pick(b));
        if let (Some(ia), Some(ib)) = (Option::<Scalar>::from(a.challenge.invert()), Option::<Scalar>::from(b.challenge.invert())) {
            for i in 0..sa.len().min(sb.len()) {
                for j in i + 1..sa.len().min(sb.len()) {
                    let da = (sa[i].1 - sa[j].1) * ia;
                    let db = (sb[i].1 - sb[j].1) * ib;
                    if da == db && !bool::from(da.is_zero()) {
                        out.push(format!("equal-normalised-response-difference:{}:{}", sa[i].0, sa[j].0));
                    }
                }
            }
        }
    }
    // pairing cross-ratio e(P_a, Q_b) = e(P_b, Q_a) for every G1 leaf P and G2 leaf Q
    for ((pn, pa), (_, pb)) in a.g1.iter().zip(b.g1.iter()).take(12) {
        for ((qn, qa), (_, qb)) in a.g2.iter().zip(b.g2.iter()) {
            if pairing_eq(pa, qb, pb, qa) {
                out.push(format!("pairing-cross-ratio:{}:{}", pn, qn));
            }
        }
    }
    // G1 cross-ratios between leaves of one presentation repeated in the other: P_a[i]·? — testable only through
    // pairings with public G2 points; e(P_a[i], g2) = e(P_b[i], g2) is leaf equality (covered)
    out
}

fn c12_suite<S: ShortGroupSignatureScheme>(em: &mut Emitter, base: &mut Rng, suite: &str) {
    let off = if suite == "bbs" { 0 } else { 1 };
    for k in 0..em.n(10, 120) {
        if !em.mine(2 * k + off) {
            continue;
        }
        let rng = &mut base.sub((2 * k + off) as u64);
        let mut mix = Mix::random(rng, k % 5 == 0);
        mix.n_creds = 1;
        mix.equality = false;
        mix.membership = false;
        mix.disclosed.truncate(1);
        // encryption statements: their pseudonym is for the key holder only — the linking tests use public data,
        // so the ciphertexts must be as unlinkable as everything else
        let hidden_claim = 1 + (k % 3);
        match k % 4 {
            1 => {
                mix.verenc = Some((hidden_claim.min(mix.n_claims - 1), true));
                mix.ved = None;
            }
            2 => {
                mix.verenc = Some((hidden_claim.min(mix.n_claims - 1), false));
                mix.ved = None;
            }
            3 if em.thorough() || k < 8 => {
                mix.ved = Some(hidden_claim.min(mix.n_claims - 1));
                mix.verenc = None;
            }
            _ => {
                mix.verenc = None;
                mix.ved = None;
            }
        }
        if let Some((ci, _)) = mix.verenc {
            for d in mix.disclosed.iter_mut() {
                d.retain(|l| *l != LABELS[ci]);
            }
        }
        if let Some(ci) = mix.ved {
            for d in mix.disclosed.iter_mut() {
                d.retain(|l| *l != LABELS[ci]);
            }
        }
        // the holders differ in their (hidden) identifier
        for d in mix.disclosed.iter_mut() {
            d.retain(|l| l != "id");
        }
        // every third pair: two commitment statements with the same generators on two hidden claims (the holders differ in one of them)
        let two_commitments = k % 3 == 1 && mix.n_claims >= 4 && k % 5 != 4;
        if two_commitments {
            mix.commitment = Some(2);
            mix.range = None;
            for d in mix.disclosed.iter_mut() {
                d.retain(|l| l != "age" && l != "ssn");
            }
            if matches!(mix.verenc, Some((2, _)) | Some((3, _))) {
                mix.verenc = None;
            }
            if matches!(mix.ved, Some(2) | Some(3)) {
                mix.ved = None;
            }
        }
        // every fifth pair: nothing is simply hidden — every claim is disclosed except the identifier, which a revocation
        // statement speaks about (no proof-specific blinding anywhere in the signature proof)
        if k % 5 == 4 {
            let n = mix.n_claims;
            mix = Mix { n_creds: 1, n_claims: n, age: mix.age, revocation: true, disclosed: vec![LABELS[1..n].iter().map(|l| l.to_string()).collect()], ..Default::default() };
        }
        // the disclosed claims are equal for both holders by construction below
        let mut scn_a = Scn::<S>::build(rng, &mix);
        if two_commitments {
            scn_a.add_second_commitment(rng, 3, true);
        }
        let scn_a = scn_a;
        // a second credential of the same issuer with the same claims except the hidden identifier
        let mut claims_b = scn_a.bundles[0].credential.claims.clone();
        claims_b[0] = RevocationClaim::from(format!("other-holder-{}", k)).into();
        // … and in the (hidden) claim an encryption statement speaks about
        for ci in [mix.verenc.map(|x| x.0), mix.ved].into_iter().flatten() {
            if ci > 0 && ci < claims_b.len() {
                claims_b[ci] = other_value(&claims_b[ci], rng);
            }
        }
        if two_commitments {
            claims_b[3] = other_value(&claims_b[3], rng);
        }
        let mut issuer = scn_a.issuers[0].clone();
        let bundle_b = match issuer.sign_credential(&claims_b) {
            Ok(b) => b,
            Err(_) => continue,
        };
        let mut creds_b = scn_a.credentials.clone();
        creds_b.insert(scn_a.sig_ids[0].clone(), bundle_b.credential.clone().into());
        // same nonce or different nonces
        let nonce2 = if k % 2 == 0 { scn_a.nonce.clone() } else { rng.bytes(16) };
        let pa1 = scn_a.create();
        let pa2 = call(|| Presentation::create(&scn_a.credentials, &scn_a.schema, &nonce2));
        let pb = call(|| Presentation::create(&creds_b, &scn_a.schema, &nonce2));
        let (pa1, pa2, pb) = match (pa1, pa2, pb) {
            (Out::Ok(a), Out::Ok(b), Out::Ok(c)) => (a, b, c),
            _ => continue,
        };
        // model: the verifier-side relations of both presentations of the same credential
        recommit_lines(em, suite, &scn_a.schema, &pa1, &scn_a.nonce);
        recommit_lines(em, suite, &scn_a.schema, &pa2, &nonce2);
        em.op(plan_line(&scn_a.schema, &pa2, suite), plan_class(&pa2, &scn_a.schema, &nonce2).0);
        let (va1, va2, vb) = (view_of(&pa1), view_of(&pa2), view_of(&pb));
        let lgens = public_gens(&scn_a.schema);
        let same = links(&va1, &va2, &lgens);
        let diff = links(&va1, &vb, &lgens);
        em.oracle_case(&format!("{} {} {}", suite, mix.describe(), k));
        em.count(&format!("{}:pairs", suite));
        em.count_n("tests-holding-for-both", same.iter().filter(|t| diff.contains(t)).count() as u64);
        for t in same.iter().filter(|t| !diff.contains(t)) {
            let test = t.split(':').next().unwrap_or("test");
            let leaf = t.split(':').nth(1).unwrap_or("").rsplit('/').next().unwrap_or("").to_string();
            em.violation(
                &format!("c12:{}:{}", test, leaf),
                format!("{}: linking test holds for two presentations of the same credential but not for presentations of different credentials: {}", suite, t),
                scn_a.replay(json!({"suite": suite, "test": t, "a1": serde_json::to_value(&pa1).unwrap_or(Value::Null), "a2": serde_json::to_value(&pa2).unwrap_or(Value::Null)})),
            );
        }
        if k < 3 {
            em.sample(json!({"suite": suite, "mix": mix.describe(), "scalars": va1.scalars.len(), "g1": va1.g1.len(), "g2": va1.g2.len(), "holds_same": same.len(), "holds_diff": diff.len()}));
        }
    }
}

pub fn gen_c12(em: &mut Emitter, rng: &mut Rng) {
    em.rule = "pairs of honest presentations over generated statement graphs (no statement that deliberately derives a pseudonym): two from one \
               credential (same or different nonce) vs one each from two credentials of the same issuer with identical disclosed claims; linking tests: \
               leaf equality at equal positions (scalars, G1, G2), equal differences of G1 leaves (two commitment statements with common generators), small or repeated cross-presentation difference quotients (nonce reuse), pairing \
               cross-ratio e(P_a,Q_b)=e(P_b,Q_a) for G1 leaves P and G2 leaves Q. oracle: a test holding for the same-credential pair only".into();
    c12_suite::<Bbs>(em, rng, "bbs");
    c12_suite::<Ps>(em, rng, "ps");
    // the randomisation behind unlinkability: the proof's coins (recovered from two answers to one commitment) must not be
    // algebraically tied to its secrets (signature randomiser, hidden messages) or to each other — such a tie lets anyone
    // solve for the randomiser from one transmitted proof and unblind the signature point
    if em.mine(0) {
        pok_coin_relations::<Bbs>(em, &mut rng.sub(6102), "bbs", "c12:pok-coins-related");
        pok_coin_relations::<Ps>(em, &mut rng.sub(6103), "ps", "c12:pok-coins-related");
    }
}
