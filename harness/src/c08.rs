//! C08: range statements hold exactly when lower <= v <= upper over all of i64.
use crate::adv::*;
use crate::common::*;
use crate::pres::*;
use credx::knox::short_group_sig_core::short_group_traits::ShortGroupSignatureScheme;
use credx::presentation::PresentationSchema;
use credx::statement::*;
use serde_json::json;

fn lattice(rng: &mut Rng, thorough: bool) -> Vec<(i64, Option<i64>, Option<i64>)> {
    let pts = [i64::MIN, i64::MIN + 1, -2, -1, 0, 1, 2, i64::MAX - 1, i64::MAX];
    let mut out = vec![];
    // value x bound around each lattice point, three bound patterns
    for &b in &pts {
        for d in [-1i64, 0, 1] {
            if let Some(v) = b.checked_add(d) {
                out.push((v, Some(b), None));
                out.push((v, None, Some(b)));
                for &b2 in &pts {
                    if thorough || rng.chance(1, 4) {
                        out.push((v, Some(b.min(b2)), Some(b.max(b2))));
                    }
                }
            }
        }
    }
    for &v in &pts {
        for &lo in &pts {
            if thorough || rng.chance(1, 3) {
                out.push((v, Some(lo), None));
                out.push((v, None, Some(lo)));
            }
        }
    }
    for _ in 0..(if thorough { 600 } else { 40 }) {
        let v = rng.next() as i64 >> rng.below(64);
        let a = rng.next() as i64 >> rng.below(64);
        let b = rng.next() as i64 >> rng.below(64);
        match rng.below(3) {
            0 => out.push((v, Some(a), None)),
            1 => out.push((v, None, Some(a))),
            _ => out.push((v, Some(a.min(b)), Some(a.max(b)))),
        }
        // hugging the bound
        let d = rng.range(-1, 1);
        if let Some(v2) = a.checked_add(d) {
            out.push((v2, Some(a), None));
            out.push((v2, None, Some(a)));
        }
    }
    out
}

fn with_bounds<S: ShortGroupSignatureScheme>(schema: &PresentationSchema<S>, lo: Option<i64>, up: Option<i64>) -> PresentationSchema<S> {
    let stmts: Vec<Statements<S>> = schema
        .statements
        .values()
        .map(|s| match s {
            Statements::Range(r) => {
                let mut t = (**r).clone();
                t.lower = lo.map(|x| x as isize);
                t.upper = up.map(|x| x as isize);
                t.into()
            }
            o => o.clone(),
        })
        .collect();
    PresentationSchema::new_with_id(&stmts, &schema.id)
}

fn run_suite<S: ShortGroupSignatureScheme + 'static>(em: &mut Emitter, base: &mut Rng, suite: &str) {
    let off = if suite == "bbs" { 0 } else { 1 };
    let cases = lattice(&mut base.sub(77), em.thorough());
    for (k, (v, lo, up)) in cases.iter().enumerate() {
        if !em.mine(2 * k + off) {
            continue;
        }
        // alternate suites over the lattice in the quick tier (the arithmetic is suite independent)
        if !em.thorough() && (k % 2 == 0) != (suite == "bbs") {
            continue;
        }
        let rng = &mut base.sub((2 * k + off) as u64);
        let mix = Mix { n_creds: 1, n_claims: 3, disclosed: vec![vec![]], commitment: Some(2), range: Some((*lo, *up)), age: *v, ..Default::default() };
        let scn = Scn::<S>::build(rng, &mix);
        let in_range = lo.map_or(true, |l| l <= *v) && up.map_or(true, |u| *v <= u);
        let created = scn.create();
        let verdict = match &created {
            Out::Ok(p) => scn.verify(p).class(),
            _ => "-",
        };
        let f = |o: &Option<i64>| o.map(|x| x.to_string()).unwrap_or("-".into());
        em.op(format!("rg.check {} {} {}", v, f(lo), f(up)), format!("create={} verify={} satisfiable={}", created.class(), verdict, in_range));
        em.oracle_case(&format!("{} {} {:?} {:?}", suite, v, lo, up));
        em.count(&format!("{}:{}", if in_range { "in-range" } else { "out-of-range" }, created.class()));
        let replay = scn.replay(json!({"suite": suite, "v": v, "lower": lo, "upper": up}));
        match (&created, in_range) {
            (Out::Panic(m), _) => em.violation("c08:create-panic", format!("{}: create panicked for v={} [{:?},{:?}]: {}", suite, v, lo, up, m), replay.clone()),
            (Out::Ok(_), false) => em.violation("c08:created-out-of-range", format!("{}: honest creation succeeded for out-of-range v={} [{:?},{:?}]", suite, v, lo, up), replay.clone()),
            (Out::Err, true) => em.violation("c08:in-range-creation-failed", format!("{}: honest creation failed for in-range v={} [{:?},{:?}]", suite, v, lo, up), replay.clone()),
            _ => {}
        }
        if created.is_ok() && verdict != "ok" && in_range {
            em.violation("c08:in-range-rejected", format!("{}: honest presentation rejected for in-range v={} [{:?},{:?}]", suite, v, lo, up), replay.clone());
        }
        if created.is_ok() && verdict == "ok" && !in_range {
            em.violation("c08:out-of-range-accepted", format!("{}: presentation accepted for out-of-range v={} [{:?},{:?}]", suite, v, lo, up), replay.clone());
        }
        // deviating holder for an out-of-range value: proves a range it does satisfy, presents it under the
        // verifier's bounds with the verifier's challenge
        if !in_range {
            for (how, plo, pup) in [("point-range", Some(*v), Some(*v)), ("lower-only-at-v", Some(*v), None::<i64>), ("upper-only-at-v", None::<i64>, Some(*v)), ("same-pattern-shifted", lo.map(|_| *v), up.map(|_| *v))] {
                if plo.is_none() && pup.is_none() {
                    continue;
                }
                let prover_schema = with_bounds(&scn.schema, plo, pup);
                if let Out::Ok(p) = steered_create(&scn.credentials, &prover_schema, &scn.schema, &scn.nonce, None) {
                    em.oracle_case(&format!("{} dev {} {} {:?} {:?}", suite, how, v, lo, up));
                    match scn.verify(&p) {
                        Out::Ok(_) => em.violation(&format!("c08:out-of-range-accepted:{}", how), format!("{}: out-of-range v={} accepted for [{:?},{:?}] with a proof made for [{:?},{:?}]", suite, v, lo, up, plo, pup), replay.clone()),
                        Out::Panic(m) => em.violation("c08:verify-panic", format!("{}: verify panicked: {}", suite, m), replay.clone()),
                        Out::Err => em.count("deviation:rejected"),
                    }
                }
            }
        }
        if em.samples.len() < 6 {
            em.sample(json!({"suite": suite, "v": v, "lower": lo, "upper": up, "in_range": in_range, "create": created.class(), "verify": verdict}));
        }
    }
}

pub fn gen_c08(em: &mut Emitter, rng: &mut Rng) {
    em.rule = "(v, lower, upper) over the boundary lattice {MIN, MIN+1, -2..2, MAX-1, MAX} × {bound-1, bound, bound+1} × three bound patterns plus \
               random triples hugging their bounds: real create / verify verdicts vs the Lean arithmetic (prover pre-check, verifier satisfiability in \
               the field); for out-of-range values a deviating holder proves a range it satisfies and presents it under the verifier's bounds with the \
               verifier's challenge (steered prover). oracle: created ⇔ in range, accepted ⇔ in range; \
               one-sided and two-sided statements in both call orders on fresh threads".into();
    run_suite::<Bbs>(em, rng, "bbs");
    run_suite::<Ps>(em, rng, "ps");
    if em.shard_i == 0 {
        crate::c03::call_order_flows::<Bbs>(em, &mut rng.sub(808), "bbs", "c08");
        crate::c03::call_order_flows::<Ps>(em, &mut rng.sub(809), "ps", "c08");
    }
}
