//! C10: verifiable encryption — whatever verifies decrypts to the signed claim.
use crate::adv::*;
use crate::common::*;
use crate::pres::*;
use credx::claim::*;
use credx::knox::short_group_sig_core::short_group_traits::*;
use credx::knox::short_group_sig_core::{HiddenMessage, ProofMessage};
use credx::presentation::*;
use credx::statement::*;
use indexmap::IndexMap;
use serde_json::json;

/// big-endian 32-byte encoding of `m + r` as an integer (always below 2^256)
fn plus_r_bytes(m: &Scalar) -> [u8; 32] {
    let r: [u8; 32] = [
        0x73, 0xed, 0xa7, 0x53, 0x29, 0x9d, 0x7d, 0x48, 0x33, 0x39, 0xd8, 0x08, 0x09, 0xa1, 0xd8, 0x05, 0x53, 0xbd, 0xa4, 0x02, 0xff, 0xfe, 0x5b, 0xfe, 0xff, 0xff, 0xff, 0xff, 0x00, 0x00, 0x00, 0x01,
    ];
    let a = m.to_be_bytes();
    let mut out = [0u8; 32];
    let mut carry = 0u16;
    for i in (0..32).rev() {
        let s = a[i] as u16 + r[i] as u16 + carry;
        out[i] = s as u8;
        carry = s >> 8;
    }
    out
}

/// A hand-written holder for (one signature statement + one ElGamal statement with scalar decryption):
/// follows commit – challenge – response with its own randomness, so that it can deviate inside the
/// sub-protocol (here: which 32 bytes it decomposes the scalar into).
fn hand_verenc<S: ShortGroupSignatureScheme>(scn: &Scn<S>, rng: &mut Rng, bytes_of: impl Fn(&Scalar) -> [u8; 32]) -> Option<Presentation<S>> {
    let sid = &scn.sig_ids[0];
    let ss = match &scn.schema.statements[sid] {
        Statements::Signature(s) => s,
        _ => return None,
    };
    let ve = scn.schema.statements.values().find_map(|s| if let Statements::VerifiableEncryption(v) = s { Some(v) } else { None })?;
    let cred = &scn.bundles[0].credential;
    let msgs: Vec<Scalar> = cred.claims.iter().map(|c| c.to_scalar()).collect();
    let labels: Vec<String> = ss.issuer.schema.claim_indices.iter().cloned().collect();
    let n_m = rng.scalar();
    let mut dm: IndexMap<String, ClaimData> = IndexMap::new();
    let mut inner: IndexMap<usize, Scalar> = IndexMap::new();
    let pm: Vec<ProofMessage<Scalar>> = (0..msgs.len())
        .map(|i| {
            if ss.disclosed.contains(&labels[i]) {
                dm.insert(labels[i].clone(), cred.claims[i].clone());
                inner.insert(i, msgs[i]);
                ProofMessage::Revealed(msgs[i])
            } else if i == ve.claim {
                ProofMessage::Hidden(HiddenMessage::ExternalBlinding(msgs[i], n_m))
            } else {
                ProofMessage::Hidden(HiddenMessage::ProofSpecificBlinding(msgs[i]))
            }
        })
        .collect();
    let pok = S::commit_signature_pok(cred.signature.clone(), &ss.issuer.verifying_key, &pm, rng.chacha()).ok()?;
    let mut t = merlin::Transcript::new(b"credx presentation");
    for (l, d) in public_prefix(&scn.schema, &scn.nonce) {
        let label: &'static [u8] = Box::leak(l.into_boxed_slice());
        t.append_message(label, &d);
    }
    for (l, d) in disclosed_items(sid, &dm) {
        let label: &'static [u8] = Box::leak(l.into_boxed_slice());
        t.append_message(label, &d);
    }
    pok.add_proof_contribution(&mut t);
    // the ElGamal statement
    let m = msgs[ve.claim];
    let (g, mg, k) = (G1Projective::GENERATOR, ve.message_generator, ve.encryption_key.0);
    let (b, r) = (rng.scalar(), rng.scalar());
    let (c1, c2) = (g * b, mg * m + k * b);
    let (r1, r2) = (g * r, mg * n_m + k * r);
    t.append_message(b"", ve.id.as_bytes());
    t.append_message(b"c1", c1.to_compressed().as_slice());
    t.append_message(b"c2", c2.to_compressed().as_slice());
    t.append_message(b"r1", r1.to_compressed().as_slice());
    t.append_message(b"r2", r2.to_compressed().as_slice());
    let bytes = bytes_of(&m);
    let shift = Scalar::from(256u64);
    let mut bi = [Scalar::ZERO; 32];
    let mut bbi = [Scalar::ZERO; 32];
    let mut nbi = [Scalar::ZERO; 32];
    let mut sum = Scalar::ZERO;
    for i in 0..31 {
        bi[i] = rng.scalar();
        sum += bi[i] * shift.pow([31 - i as u64]);
    }
    bi[31] = b - sum;
    let mut ct = Ciphertext::default();
    for i in 0..32 {
        bbi[i] = rng.scalar();
        nbi[i] = rng.scalar();
        ct.c1[i] = g * bi[i];
        ct.c2[i] = mg * Scalar::from(bytes[i] as u64) + k * bi[i];
        t.append_u64(b"verifiable_encryption_decryptable_message_byte_index", i as u64);
        t.append_message(b"byte_proof_c1", ct.c1[i].to_compressed().as_slice());
        t.append_message(b"byte_proof_c2", ct.c2[i].to_compressed().as_slice());
        t.append_message(b"byte_proof_r1", (g * bbi[i]).to_compressed().as_slice());
        t.append_message(b"byte_proof_r2", (mg * nbi[i] + k * bbi[i]).to_compressed().as_slice());
    }
    let mut okm = [0u8; 64];
    t.challenge_bytes(b"challenge bytes", &mut okm);
    let c = Scalar::from_bytes_wide(&okm);
    let sig_proof = pok.generate_proof(c).ok()?;
    let mut byte_proofs = [ByteProof::default(); 32];
    for i in 0..32 {
        byte_proofs[i] = ByteProof { message: nbi[i] + c * Scalar::from(bytes[i] as u64), blinder: bbi[i] + c * bi[i] };
    }
    let mut rt = merlin::Transcript::new(b"PresentationEncryptionDecryption byte range proof");
    rt.append_message(b"challenge", &c.to_be_bytes());
    let values: Vec<u64> = bytes.iter().map(|x| *x as u64).collect();
    let (range_proof, _) = bulletproofs::RangeProof::prove_multiple(&bulletproofs::BulletproofGens::new(8, 32), &bulletproofs::PedersenGens { B: mg, B_blinding: k }, &mut rt, &values, &bi, 8).ok()?;
    let mut proofs: IndexMap<String, PresentationProofs<S>> = IndexMap::new();
    proofs.insert(sid.clone(), SignatureProof::<S> { id: sid.clone(), disclosed_messages: inner, pok: sig_proof }.into());
    proofs.insert(
        ve.id.clone(),
        VerifiableEncryptionProof { id: ve.id.clone(), c1, c2, blinder_proof: r + c * b, decryptable_scalar_proof: Some(DecryptableScalarProof { byte_proofs, range_proof, byte_ciphertext: ct }) }.into(),
    );
    let mut disclosed_messages = IndexMap::new();
    disclosed_messages.insert(sid.clone(), dm);
    Some(Presentation { proofs, challenge: c, disclosed_messages })
}

fn with_allow<S: ShortGroupSignatureScheme>(schema: &PresentationSchema<S>, allow: bool) -> PresentationSchema<S> {
    let stmts: Vec<Statements<S>> = schema
        .statements
        .values()
        .map(|s| match s {
            Statements::VerifiableEncryption(v) => {
                let mut t = (**v).clone();
                t.allow_message_decryption = allow;
                t.into()
            }
            o => o.clone(),
        })
        .collect();
    PresentationSchema::new_with_id(&stmts, &schema.id)
}

fn with_generator<S: ShortGroupSignatureScheme>(schema: &PresentationSchema<S>, g: G1Projective) -> PresentationSchema<S> {
    let stmts: Vec<Statements<S>> = schema
        .statements
        .values()
        .map(|s| match s {
            Statements::VerifiableEncryption(v) => {
                let mut t = (**v).clone();
                t.message_generator = g;
                t.into()
            }
            Statements::VerifiableEncryptionDecryption(v) => {
                let mut t = (**v).clone();
                t.message_generator = g;
                t.into()
            }
            o => o.clone(),
        })
        .collect();
    PresentationSchema::new_with_id(&stmts, &schema.id)
}

fn suite_run<S: ShortGroupSignatureScheme + 'static>(em: &mut Emitter, base: &mut Rng, suite: &str) {
    let off = if suite == "bbs" { 0 } else { 1 };
    for k in 0..em.n(10, 100) {
        if !em.mine(2 * k + off) {
            continue;
        }
        let rng = &mut base.sub((2 * k + off) as u64);
        let n_claims = 6;
        let ci = k % n_claims; // every claim type in turn
        let variant = ["verenc", "verenc+scalar", "ved"][k % 3];
        let mut mix = Mix { n_creds: 1, n_claims, age: rng.range(-5, 99), ..Default::default() };
        mix.disclosed = vec![LABELS.iter().enumerate().take(n_claims).filter(|(i, _)| *i != ci && rng.chance(1, 3)).map(|(_, l)| l.to_string()).collect()];
        match variant {
            "verenc" => mix.verenc = Some((ci, false)),
            "verenc+scalar" => mix.verenc = Some((ci, true)),
            _ => mix.ved = Some(ci),
        }
        let mut scn = Scn::<S>::build(rng, &mix);
        let random_gen = k % 4 == 1;
        if random_gen {
            scn.schema = with_generator(&scn.schema, G1Projective::GENERATOR * rng.scalar());
        }
        let sk = scn.issuers[0].verifiable_decryption_key.clone();
        let m = scn.bundles[0].credential.claims[ci].to_scalar();
        let claim = scn.bundles[0].credential.claims[ci].clone();
        let gen = scn.schema.statements.values().find_map(|s| match s {
            Statements::VerifiableEncryption(v) => Some(v.message_generator),
            Statements::VerifiableEncryptionDecryption(v) => Some(v.message_generator),
            _ => None,
        }).unwrap();
        let replay = scn.replay(json!({"suite": suite, "variant": variant, "claim_index": ci, "random_generator": random_gen}));
        em.count(&format!("{}:{}", variant, if random_gen { "random-generator" } else { "g1-generator" }));
        em.oracle_case(&format!("{} honest {} {} {}", suite, variant, ci, k));
        let p = match scn.create() {
            Out::Ok(p) if scn.verify(&p).is_ok() => p,
            _ => {
                em.violation("c10:honest-rejected", format!("{}: honest {} presentation on claim {} not created / not accepted", suite, variant, ci), replay.clone());
                continue;
            }
        };
        // decryption of the accepted proof
        let mut pseudonym = None;
        for pr in p.proofs.values() {
            match pr {
                PresentationProofs::VerifiableEncryption(v) => {
                    let d = v.decrypt(&sk);
                    pseudonym = Some(d);
                    if d != gen * m {
                        em.violation("c10:decrypt-mismatch", format!("{}: decrypt of an accepted proof is not m·M (claim {})", suite, ci), replay.clone());
                    }
                    if variant == "verenc+scalar" {
                        let ds = call_opt(|| v.decrypt_scalar(&sk));
                        if !random_gen {
                            em.op(format!("ve.scalar {}", hexs(&m.to_be_bytes())), match &ds {
                                Out::Ok(s) => sc_hex(s),
                                o => o.class().to_string(),
                            });
                        }
                        match ds {
                            Out::Ok(s) if s == m => em.count("decrypt_scalar:ok"),
                            Out::Ok(_) => em.violation("c10:decrypt-scalar-wrong", format!("{}: decrypt_scalar returned another scalar (claim {})", suite, ci), replay.clone()),
                            Out::Err => {
                                let sig = if random_gen { "c10:decrypt-scalar-generator" } else { "c10:decrypt-scalar-failed" };
                                em.violation(sig, format!("{}: decrypt_scalar failed on an accepted honest proof (claim {}, statement generator {} the G1 generator)", suite, ci, if random_gen { "is not" } else { "is" }), replay.clone());
                            }
                            Out::Panic(msg) => em.violation("c10:decrypt-scalar-panic", format!("{}: decrypt_scalar panicked: {}", suite, msg), replay.clone()),
                        }
                    } else if v.decryptable_scalar_proof.is_some() {
                        em.violation("c10:unrequested-part-present", format!("{}: honest proof carries a decryptable part that was not requested", suite), replay.clone());
                    }
                }
                PresentationProofs::VerifiableEncryptionDecryption(v) => {
                    match call(|| v.decrypt_and_verify(&sk)) {
                        Out::Ok(c) if c == claim => em.count("decrypt_and_verify:ok"),
                        Out::Ok(_) => em.violation("c10:ved-other-claim", format!("{}: decrypt_and_verify returned another claim (claim {})", suite, ci), replay.clone()),
                        Out::Err => em.violation("c10:ved-honest-decryption-failed", format!("{}: decrypt_and_verify failed on an accepted honest proof (claim {})", suite, ci), replay.clone()),
                        Out::Panic(msg) => em.violation("c10:ved-panic", format!("{}: decrypt_and_verify panicked: {}", suite, msg), replay.clone()),
                    }
                    // the proof's generator field swapped together with a re-fixed challenge
                    let mut q = p.clone();
                    if let Some(PresentationProofs::VerifiableEncryptionDecryption(vq)) = q.proofs.get_mut(&v.id) {
                        vq.message_generator = gen * rng.scalar();
                    }
                    fix_challenge(&mut q, &scn.schema, &scn.nonce, 2);
                    em.oracle_case(&format!("{} ved-generator-swap {}", suite, k));
                    if scn.verify(&q).is_ok() {
                        em.violation("c10:ved-generator-swap-accepted", format!("{}: presentation accepted with another message generator inside the encrypt-and-decrypt proof", suite), replay.clone());
                    }
                }
                _ => {}
            }
        }
        // pseudonym: same credential and generator → same value; other generator → unrelated
        if let Some(ps1) = pseudonym {
            if let Out::Ok(p2) = scn.create() {
                for pr in p2.proofs.values() {
                    if let PresentationProofs::VerifiableEncryption(v) = pr {
                        em.oracle_case(&format!("{} pseudonym {}", suite, k));
                        if v.decrypt(&sk) != ps1 {
                            em.violation("c10:pseudonym-unstable", format!("{}: two presentations of the same credential decrypt to different pseudonyms", suite), replay.clone());
                        }
                    }
                }
            }
            let other = with_generator(&scn.schema, gen * Scalar::from(7u64) + G1Projective::GENERATOR);
            if let Out::Ok(p3) = call(|| Presentation::create(&scn.credentials, &other, &scn.nonce)) {
                for pr in p3.proofs.values() {
                    if let PresentationProofs::VerifiableEncryption(v) = pr {
                        if v.decrypt(&sk) == ps1 && !bool::from(m.is_zero()) {
                            em.violation("c10:pseudonym-collides-across-generators", format!("{}: different generators give the same pseudonym", suite), replay.clone());
                        }
                    }
                }
            }
        }
        // deviations
        if variant == "verenc+scalar" {
            // omit the decryptable part: prove the plain relation, answer the verifier's challenge
            let prover_schema = with_allow(&scn.schema, false);
            if let Out::Ok(q) = steered_create(&scn.credentials, &prover_schema, &scn.schema, &scn.nonce, None) {
                em.oracle_case(&format!("{} part-omitted {}", suite, k));
                if scn.verify(&q).is_ok() {
                    em.violation("c10:decryptable-part-omitted", format!("{}: accepted although the requested decryptable part is missing", suite), replay.clone());
                }
            }
            // hand-written holder: honest decomposition (self check), then the bytes of m + r
            if !random_gen {
                em.oracle_case(&format!("{} hand-honest {}", suite, k));
                match hand_verenc(&scn, rng, |m| m.to_be_bytes()) {
                    Some(q) if scn.verify(&q).is_ok() => {
                        em.count("hand-prover:honest-accepted");
                        if let Some(q2) = hand_verenc(&scn, rng, plus_r_bytes) {
                            em.oracle_case(&format!("{} noncanonical-bytes {}", suite, k));
                            let acc = scn.verify(&q2).is_ok();
                            em.count(&format!("noncanonical-bytes:{}", if acc { "accepted" } else { "rejected" }));
                            if acc {
                                for pr in q2.proofs.values() {
                                    if let PresentationProofs::VerifiableEncryption(v) = pr {
                                        let got = call_opt(|| v.decrypt_scalar(&sk));
                                        em.op(format!("ve.scalar {}", hexs(&plus_r_bytes(&m))), match &got {
                                            Out::Ok(s) => sc_hex(s),
                                            o => o.class().to_string(),
                                        });
                                        match got {
                                            Out::Ok(s) if s == m => {}
                                            _ => em.violation("c10:noncanonical-bytes-not-decryptable", format!("{}: a proof decomposing the scalar into the bytes of m + r is accepted but decrypt_scalar does not return m", suite), replay.clone()),
                                        }
                                    }
                                }
                            }
                        }
                        // corrupt one byte ciphertext consistently (byte value + 1 at position 31, c2 unchanged): sum check must reject
                        if let Some(q3) = hand_verenc(&scn, rng, |m| {
                            let mut b = m.to_be_bytes();
                            b[31] = b[31].wrapping_add(1);
                            b
                        }) {
                            em.oracle_case(&format!("{} wrong-bytes {}", suite, k));
                            if scn.verify(&q3).is_ok() {
                                em.violation("c10:wrong-byte-decomposition-accepted", format!("{}: accepted with a byte decomposition of another value", suite), replay.clone());
                            }
                        }
                    }
                    _ => em.violation("harness-hand-prover-broken", format!("{}: the hand-written honest holder is rejected (harness self-check)", suite), replay.clone()),
                }
            }
        }
        if variant == "verenc" {
            // add an unrequested part
            let prover_schema = with_allow(&scn.schema, true);
            if let Out::Ok(q) = steered_create(&scn.credentials, &prover_schema, &scn.schema, &scn.nonce, None) {
                em.oracle_case(&format!("{} part-unrequested {}", suite, k));
                if scn.verify(&q).is_ok() {
                    em.count("unrequested-part:accepted");
                }
            }
        }
        if k < 3 {
            em.sample(json!({"suite": suite, "variant": variant, "claim_index": ci, "mix": mix.describe()}));
        }
    }
}

/// scalar decryption searches every byte value: claims whose 32-byte encodings cover all 256 values
/// (incl. 0xff: negative numbers, scalars just below the group order)
fn byte_coverage<S: ShortGroupSignatureScheme + 'static>(em: &mut Emitter, rng: &mut Rng, suite: &str) {
    let mut values: Vec<(String, usize, ClaimData)> = vec![];
    // position 0 stays 0 (below the modulus); positions 1..31 enumerate 0..=255 over nine scalars
    let mut next = 0u16;
    for j in 0..9 {
        let mut b = [0u8; 32];
        for i in 1..32 {
            b[i] = (next % 256) as u8;
            next += 1;
        }
        let sc = Option::<Scalar>::from(Scalar::from_be_bytes(&b)).unwrap();
        values.push((format!("bytes-{}", j), 3, ScalarClaim::from(sc).into()));
    }
    values.push(("minus-one".into(), 2, NumberClaim::from(-1).into()));
    values.push(("i64-min".into(), 2, NumberClaim::from(isize::MIN).into()));
    values.push(("r-minus-1".into(), 3, ScalarClaim::from(-Scalar::ONE).into()));
    values.push(("255".into(), 3, ScalarClaim::from(Scalar::from(255u64)).into()));
    // shortest possible claim texts (encrypt-and-decrypt carries the text form): empty text, empty bytes, one byte
    let mut empty_bytes = HashedClaim::from(Vec::<u8>::new());
    empty_bytes.print_friendly = false;
    values.push(("ved-empty-text".into(), 5, HashedClaim::from("").into()));
    values.push(("ved-empty-bytes".into(), 5, empty_bytes.into()));
    values.push(("ved-one-char".into(), 5, HashedClaim::from("x").into()));
    values.push(("ved-zero-number".into(), 2, NumberClaim::from(0).into()));
    for (vi, (name, ci, claim)) in values.into_iter().enumerate() {
        if !em.thorough() && vi % 2 == 1 && vi < 9 {
            continue;
        }
        let is_ved = name.starts_with("ved-");
        let mut mix = Mix { n_creds: 1, n_claims: 6, age: 30, ..Default::default() };
        mix.disclosed = vec![vec![]];
        if is_ved {
            mix.ved = Some(ci);
        } else {
            mix.verenc = Some((ci, true));
        }
        let mut scn = Scn::<S>::build(rng, &mix);
        let mut claims = scn.bundles[0].credential.claims.clone();
        claims[0] = RevocationClaim::from(format!("cov-{}", vi)).into();
        claims[ci] = claim.clone();
        let b = match scn.issuers[0].sign_credential(&claims) {
            Ok(b) => b,
            Err(_) => continue,
        };
        scn.credentials.insert(scn.sig_ids[0].clone(), b.credential.clone().into());
        let stmts: Vec<Statements<S>> = scn
            .schema
            .statements
            .values()
            .map(|s| match s {
                Statements::Signature(ss) => {
                    let mut t = (**ss).clone();
                    t.issuer = b.issuer.clone();
                    t.into()
                }
                o => o.clone(),
            })
            .collect();
        scn.schema = PresentationSchema::new_with_id(&stmts, &scn.schema.id);
        scn.bundles[0] = b;
        let sk = scn.issuers[0].verifiable_decryption_key.clone();
        let m = claim.to_scalar();
        em.oracle_case(&format!("{} byte-coverage {}", suite, name));
        let replay = scn.replay(json!({"suite": suite, "value": name, "scalar": sc_hex(&m)}));
        match scn.create() {
            Out::Ok(p) if scn.verify(&p).is_ok() => {
                for pr in p.proofs.values() {
                    if let PresentationProofs::VerifiableEncryptionDecryption(v) = pr {
                        match call(|| v.decrypt_and_verify(&sk)) {
                            Out::Ok(c) if c == claim => em.count("decrypt_and_verify:ok"),
                            Out::Ok(_) => em.violation("c10:ved-returns-other-claim", format!("{}: decrypt_and_verify returned another claim ({})", suite, name), replay.clone()),
                            Out::Err => em.violation("c10:ved-decrypt-failed", format!("{}: decrypt_and_verify failed on an accepted honest proof of a very short claim ({})", suite, name), replay.clone()),
                            Out::Panic(msg) => em.violation("c10:ved-decrypt-panic", format!("{}: decrypt_and_verify panicked: {}", suite, msg), replay.clone()),
                        }
                    }
                    if let PresentationProofs::VerifiableEncryption(v) = pr {
                        let got = call_opt(|| v.decrypt_scalar(&sk));
                        em.op(format!("ve.scalar {}", hexs(&m.to_be_bytes())), match &got {
                            Out::Ok(s) => sc_hex(s),
                            o => o.class().to_string(),
                        });
                        match got {
                            Out::Ok(s) if s == m => em.count("decrypt_scalar:ok"),
                            Out::Ok(_) => em.violation("c10:decrypt-scalar-wrong", format!("{}: decrypt_scalar returned another scalar ({})", suite, name), replay.clone()),
                            Out::Err => em.violation("c10:decrypt-scalar-failed", format!("{}: decrypt_scalar failed on an accepted honest proof of a value with unusual bytes ({})", suite, name), replay.clone()),
                            Out::Panic(msg) => em.violation("c10:decrypt-scalar-panic", format!("{}: decrypt_scalar panicked: {}", suite, msg), replay.clone()),
                        }
                    }
                }
            }
            _ => em.violation("c10:honest-rejected", format!("{}: honest decryptable presentation of value {} not created / not accepted", suite, name), replay.clone()),
        }
    }
}

/// the decryptable (byte-wise) part run on a substitute value while (c1, c2) encrypts the signed one, with byte blinders
/// that still sum to the ElGamal randomness: only the recombination of the byte ciphertexts' c2 ties the two
pub fn verenc_byte_deviation<S: ShortGroupSignatureScheme + 'static>(em: &mut Emitter, rng: &mut Rng, suite: &str, tag: &str) {
    for ci in [1usize, 3] {
        let mix = Mix { n_creds: 1, n_claims: 5, age: rng.range(1, 90), disclosed: vec![vec!["city".to_string()]], verenc: Some((ci, true)), ..Default::default() };
        let scn = Scn::<S>::build(rng, &mix);
        em.oracle_case(&format!("{} verenc-byte-deviation {}", suite, ci));
        match hand_verenc(&scn, rng, |m| m.to_be_bytes()) {
            Some(q) if scn.verify(&q).is_ok() => {}
            _ => {
                em.violation(&format!("{}:harness-hand-prover-broken", tag), format!("{}: the hand-written honest ElGamal holder is rejected (harness self-check)", suite), scn.replay(json!({"suite": suite})));
                continue;
            }
        }
        let other = rng.scalar();
        let devs: Vec<(&str, Box<dyn Fn(&Scalar) -> [u8; 32]>)> = vec![
            ("last-byte-plus-one", Box::new(|m: &Scalar| {
                let mut b = m.to_be_bytes();
                b[31] = b[31].wrapping_add(1);
                b
            })),
            ("bytes-of-another-value", Box::new(move |_: &Scalar| other.to_be_bytes())),
            ("all-zero-bytes", Box::new(|_: &Scalar| [0u8; 32])),
        ];
        for (name, f) in devs {
            if let Some(q) = hand_verenc(&scn, rng, |m| f(m)) {
                let acc = scn.verify(&q).is_ok();
                em.count(&format!("verenc-byte-deviation:{}:{}", name, if acc { "accepted" } else { "rejected" }));
                if acc {
                    em.violation(&format!("{}:wrong-byte-decomposition-accepted", tag), format!("{}: accepted although the decryptable part decomposes another value than the ciphertext bound to the signed claim ({})", suite, name), scn.replay(json!({"suite": suite, "deviation": name, "claim_index": ci})));
                }
            }
        }
    }
}

/// encrypt-and-decrypt of text claims whose text has leading / trailing white space or is white space only (and of
/// identifiers of that shape): accepted, and the key holder gets exactly the signed claim back
fn ved_text_values<S: ShortGroupSignatureScheme + 'static>(em: &mut Emitter, rng: &mut Rng, suite: &str) {
    let texts: Vec<&str> = if em.thorough() { vec!["John Doe ", " John Doe", "a\n", "\t", " ", "a  b", "x\r\n", "ends with dot."] } else { vec!["John Doe ", "a\n", " "] };
    for (ti, text) in texts.iter().enumerate() {
        for ci in [1usize, 0] {
            if ci == 0 && ti % 2 == 1 {
                continue;
            }
            let mix = Mix { n_creds: 1, n_claims: 4, age: 33, disclosed: vec![vec![]], ved: Some(ci), ..Default::default() };
            let mut scn = Scn::<S>::build(rng, &mix);
            let mut claims = scn.bundles[0].credential.claims.clone();
            claims[0] = RevocationClaim::from(if ci == 0 { format!("id-{}{}", rng.below(1 << 20), text) } else { format!("ved-text-{}", rng.below(1 << 20)) }).into();
            if ci == 1 {
                claims[1] = HashedClaim::from(*text).into();
            }
            let b = match scn.issuers[0].sign_credential(&claims) {
                Ok(b) => b,
                Err(_) => {
                    em.count("ved-text:issuance-refused");
                    continue;
                }
            };
            scn.credentials.insert(scn.sig_ids[0].clone(), b.credential.clone().into());
            scn.bundles[0] = b;
            let sk = scn.issuers[0].verifiable_decryption_key.clone();
            let signed = scn.bundles[0].credential.claims[ci].clone();
            em.oracle_case(&format!("{} ved-text {:?} claim {}", suite, text, ci));
            let replay = scn.replay(json!({"suite": suite, "text": text, "claim_index": ci}));
            let p = match scn.create() {
                Out::Ok(p) if scn.verify(&p).is_ok() => p,
                _ => {
                    em.violation("c10:honest-rejected", format!("{}: honest encrypt-and-decrypt presentation of the text {:?} not created / accepted", suite, text), replay);
                    continue;
                }
            };
            for pr in p.proofs.values() {
                if let PresentationProofs::VerifiableEncryptionDecryption(v) = pr {
                    match call(|| v.decrypt_and_verify(&sk)) {
                        Out::Ok(c) if crate::claims::claim_str(&c) == crate::claims::claim_str(&signed) => em.count("ved-text:ok"),
                        Out::Ok(c) => em.violation("c10:ved-other-claim", format!("{}: decrypt_and_verify returned {} for the signed {}", suite, crate::claims::claim_str(&c), crate::claims::claim_str(&signed)), replay.clone()),
                        Out::Err => em.violation("c10:ved-honest-decryption-failed", format!("{}: decrypt_and_verify failed on an accepted honest proof of the text {:?} (claim {})", suite, text, ci), replay.clone()),
                        Out::Panic(m) => em.violation("c10:ved-panic", format!("{}: decrypt_and_verify panicked: {}", suite, m), replay.clone()),
                    }
                }
            }
        }
    }
}

/// what a hand-written encrypt-and-decrypt holder may choose freely
struct VedChoice {
    /// scalar put into c2 and decomposed into bytes
    enc: Scalar,
    /// claim whose text goes into the symmetric part
    text_of: ClaimData,
    /// generator written into the proof
    carried: G1Projective,
    /// generator used for the message term of c2 / r2 and of the byte ciphertexts
    used: G1Projective,
    /// value whose 32 bytes the byte part decomposes (normally `enc`)
    byte_val: Scalar,
    /// factor applied to every byte inside the byte ciphertexts and their Schnorr proofs (normally 1)
    byte_scale: Scalar,
    /// value generator of the byte range proof (normally the statement's generator)
    bp_gen: Option<G1Projective>,
}

fn vc(enc: Scalar, text_of: ClaimData, carried: G1Projective, used: G1Projective) -> VedChoice {
    VedChoice { enc, text_of, carried, used, byte_val: enc, byte_scale: Scalar::ONE, bp_gen: None }
}

/// A hand-written holder for (one signature statement + one encrypt-and-decrypt statement): commit – challenge –
/// response with its own randomness, deviating in the choices of `VedChoice`.
fn hand_ved<S: ShortGroupSignatureScheme>(scn: &Scn<S>, rng: &mut Rng, choose: impl Fn(&VerifiableEncryptionDecryptionStatement<G1Projective>, &ClaimData, Scalar) -> VedChoice) -> Option<Presentation<S>> {
    use aes_gcm::aead::{Aead, KeyInit, Payload};
    use aes_gcm::{Aes128Gcm, Nonce};
    let sid = &scn.sig_ids[0];
    let ss = match &scn.schema.statements[sid] {
        Statements::Signature(s) => s,
        _ => return None,
    };
    let ve = scn.schema.statements.values().find_map(|s| if let Statements::VerifiableEncryptionDecryption(v) = s { Some(v) } else { None })?;
    let cred = &scn.bundles[0].credential;
    let msgs: Vec<Scalar> = cred.claims.iter().map(|c| c.to_scalar()).collect();
    let labels: Vec<String> = ss.issuer.schema.claim_indices.iter().cloned().collect();
    let n_m = rng.scalar();
    let mut dm: IndexMap<String, ClaimData> = IndexMap::new();
    let mut inner: IndexMap<usize, Scalar> = IndexMap::new();
    let pm: Vec<ProofMessage<Scalar>> = (0..msgs.len())
        .map(|i| {
            if ss.disclosed.contains(&labels[i]) {
                dm.insert(labels[i].clone(), cred.claims[i].clone());
                inner.insert(i, msgs[i]);
                ProofMessage::Revealed(msgs[i])
            } else if i == ve.claim {
                ProofMessage::Hidden(HiddenMessage::ExternalBlinding(msgs[i], n_m))
            } else {
                ProofMessage::Hidden(HiddenMessage::ProofSpecificBlinding(msgs[i]))
            }
        })
        .collect();
    let pok = S::commit_signature_pok(cred.signature.clone(), &ss.issuer.verifying_key, &pm, rng.chacha()).ok()?;
    let mut t = merlin::Transcript::new(b"credx presentation");
    for (l, d) in public_prefix(&scn.schema, &scn.nonce) {
        let label: &'static [u8] = Box::leak(l.into_boxed_slice());
        t.append_message(label, &d);
    }
    for (l, d) in disclosed_items(sid, &dm) {
        let label: &'static [u8] = Box::leak(l.into_boxed_slice());
        t.append_message(label, &d);
    }
    pok.add_proof_contribution(&mut t);
    let ch = choose(ve, &cred.claims[ve.claim], msgs[ve.claim]);
    let (g, mg, k) = (G1Projective::GENERATOR, ch.used, ve.encryption_key.0);
    let (b, r) = (rng.scalar(), rng.scalar());
    let (c1, c2) = (g * b, mg * ch.enc + k * b);
    let (r1, r2) = (g * r, mg * n_m + k * r);
    t.append_message(b"", ve.id.as_bytes());
    t.append_message(b"c1", c1.to_compressed().as_slice());
    t.append_message(b"c2", c2.to_compressed().as_slice());
    t.append_message(b"r1", r1.to_compressed().as_slice());
    t.append_message(b"r2", r2.to_compressed().as_slice());
    let bytes = ch.byte_val.to_be_bytes();
    let shift = Scalar::from(256u64);
    let mut bi = [Scalar::ZERO; 32];
    let mut bbi = [Scalar::ZERO; 32];
    let mut nbi = [Scalar::ZERO; 32];
    let mut sum = Scalar::ZERO;
    for i in 0..31 {
        bi[i] = rng.scalar();
        sum += bi[i] * shift.pow([31 - i as u64]);
    }
    bi[31] = b - sum;
    let mut ct = Ciphertext::default();
    // the byte part is always verified under the statement's generator
    let smg = ve.message_generator;
    for i in 0..32 {
        bbi[i] = rng.scalar();
        nbi[i] = rng.scalar();
        ct.c1[i] = g * bi[i];
        ct.c2[i] = smg * (ch.byte_scale * Scalar::from(bytes[i] as u64)) + k * bi[i];
        t.append_u64(b"verifiable_encryption_decryption_message_byte_index", i as u64);
        t.append_message(b"byte_proof_c1", ct.c1[i].to_compressed().as_slice());
        t.append_message(b"byte_proof_c2", ct.c2[i].to_compressed().as_slice());
        t.append_message(b"byte_proof_r1", (g * bbi[i]).to_compressed().as_slice());
        t.append_message(b"byte_proof_r2", (smg * nbi[i] + k * bbi[i]).to_compressed().as_slice());
    }
    // symmetric part
    let text = ch.text_of.to_text();
    let mut at = merlin::Transcript::new(b"PresentationEncryptionDecryption arbitrary data derive aes key");
    at.append_message(b"key ikm", (k * b).to_compressed().as_slice());
    let mut okm = [0u8; 32];
    at.challenge_bytes(b"aes key", &mut okm);
    let nonce = rng.bytes(12);
    let aad: Vec<u8> = okm[16..].iter().copied().chain(c1.to_compressed()).chain(c2.to_compressed()).collect();
    let key = aes_gcm::Key::<Aes128Gcm>::from_slice(&okm[..16]);
    let mut ciphertext = nonce.clone();
    ciphertext.extend(Aes128Gcm::new(key).encrypt(Nonce::from_slice(&nonce), Payload { msg: text.as_bytes(), aad: &aad }).ok()?);
    t.append_message(b"arbitrary_data_ciphertext", &ciphertext);
    let mut okm = [0u8; 64];
    t.challenge_bytes(b"challenge bytes", &mut okm);
    let c = Scalar::from_bytes_wide(&okm);
    let sig_proof = pok.generate_proof(c).ok()?;
    let mut byte_proofs = [ByteProof::default(); 32];
    for i in 0..32 {
        byte_proofs[i] = ByteProof { message: nbi[i] + c * ch.byte_scale * Scalar::from(bytes[i] as u64), blinder: bbi[i] + c * bi[i] };
    }
    let mut rt = merlin::Transcript::new(b"PresentationEncryptionDecryption byte range proof");
    rt.append_message(b"challenge", &c.to_be_bytes());
    let values: Vec<u64> = bytes.iter().map(|x| *x as u64).collect();
    let (range_proof, _) = bulletproofs::RangeProof::prove_multiple(&bulletproofs::BulletproofGens::new(8, 32), &bulletproofs::PedersenGens { B: ch.bp_gen.unwrap_or(smg), B_blinding: k }, &mut rt, &values, &bi, 8).ok()?;
    let mut proofs: IndexMap<String, PresentationProofs<S>> = IndexMap::new();
    proofs.insert(sid.clone(), SignatureProof::<S> { id: sid.clone(), disclosed_messages: inner, pok: sig_proof }.into());
    proofs.insert(
        ve.id.clone(),
        VerifiableEncryptionDecryptionProof { id: ve.id.clone(), message_generator: ch.carried, byte_proofs, range_proof, c1, c2, blinder_proof: r + c * b, byte_ciphertext: ct, ciphertext }.into(),
    );
    let mut disclosed_messages = IndexMap::new();
    disclosed_messages.insert(sid.clone(), dm);
    Some(Presentation { proofs, challenge: c, disclosed_messages })
}

/// deviating encrypt-and-decrypt holders (hand-written prover): another text in the symmetric part, another scalar in
/// the ciphertext, the generator carried in the proof rescaled so that the substituted claim matches, the identity as
/// carried / used generator with zero encrypted. Oracle: accepted ⇒ decrypt_and_verify returns the signed claim.
pub fn ved_deviations<S: ShortGroupSignatureScheme + 'static>(em: &mut Emitter, rng: &mut Rng, suite: &str, tag: &str) {
    for ci in if em.thorough() { vec![1usize, 2, 3] } else { vec![1usize + (em.seed % 3) as usize] } {
        let mix = Mix { n_creds: 1, n_claims: 5, age: rng.range(1, 90), disclosed: vec![vec!["city".to_string()]], ved: Some(ci), ..Default::default() };
        let scn = Scn::<S>::build(rng, &mix);
        let sk = scn.issuers[0].verifiable_decryption_key.clone();
        let signed = scn.bundles[0].credential.claims[ci].clone();
        let other: ClaimData = match &signed {
            ClaimData::Hashed(_) => HashedClaim::from("Jane Roe").into(),
            ClaimData::Number(n) => NumberClaim::from(n.value + 1).into(),
            _ => ScalarClaim::from(rng.scalar()).into(),
        };
        let (o1, o2, o3, o4, o5, o6, o7, o8) = (other.clone(), other.clone(), other.clone(), other.clone(), other.clone(), other.clone(), other.clone(), other.clone());
        let ident = G1Projective::IDENTITY;
        type Ch = Box<dyn Fn(&VerifiableEncryptionDecryptionStatement<G1Projective>, &ClaimData, Scalar) -> VedChoice>;
        let cases: Vec<(&str, Ch)> = vec![
            ("honest", Box::new(|st, cl, m| vc(m, cl.clone(), st.message_generator, st.message_generator))),
            ("other-text", Box::new(move |st, _, m| vc(m, o1.clone(), st.message_generator, st.message_generator))),
            ("other-scalar-and-text", Box::new(move |st, _, _| vc(o2.to_scalar(), o2.clone(), st.message_generator, st.message_generator))),
            ("carried-generator-rescaled-to-other-text", Box::new(move |st, _, m| {
                let ratio = m * Option::<Scalar>::from(o3.to_scalar().invert()).unwrap_or(Scalar::ONE);
                vc(m, o3.clone(), st.message_generator * ratio, st.message_generator)
            })),
            ("byte-part-on-substitute-under-rescaled-generator", Box::new(move |st, _, m| {
                let mo = o8.to_scalar();
                let ratio = m * Option::<Scalar>::from(mo.invert()).unwrap_or(Scalar::ONE);
                let gp = st.message_generator * ratio;
                VedChoice { enc: m, text_of: o8.clone(), carried: gp, used: st.message_generator, byte_val: mo, byte_scale: ratio, bp_gen: Some(gp) }
            })),
            ("identity-carried-zero-encrypted-other-text", Box::new(move |st, _, _| vc(Scalar::ZERO, o4.clone(), ident, st.message_generator))),
            ("identity-used-and-carried-other-text", Box::new(move |_, _, m| vc(m, o5.clone(), ident, ident))),
            ("identity-used-and-carried-zero-encrypted-other-text", Box::new(move |_, _, _| vc(Scalar::ZERO, o6.clone(), ident, ident))),
            ("identity-used-zero-encrypted-other-text", Box::new(move |st, _, _| vc(Scalar::ZERO, o7.clone(), st.message_generator, ident))),
        ];
        for (name, ch) in cases {
            em.oracle_case(&format!("{} hand-ved {} claim {}", suite, name, ci));
            let q = match call_opt(|| hand_ved(&scn, rng, |a, b, c| ch(a, b, c))) {
                Out::Ok(q) => q,
                _ => {
                    em.count(&format!("hand-ved:{}:not-built", name));
                    continue;
                }
            };
            let acc = scn.verify(&q).is_ok();
            em.count(&format!("hand-ved:{}:{}", name, if acc { "accepted" } else { "rejected" }));
            let replay = scn.replay(json!({"suite": suite, "deviation": name, "claim_index": ci, "presentation": serde_json::to_value(&q).unwrap_or_default()}));
            if name == "honest" {
                if !acc {
                    em.violation(&format!("{}:harness-hand-ved-broken", tag), format!("{}: the hand-written encrypt-and-decrypt holder is rejected when it follows the protocol (harness self-check)", suite), replay);
                    break;
                }
                continue;
            }
            if !acc {
                continue;
            }
            for pr in q.proofs.values() {
                if let PresentationProofs::VerifiableEncryptionDecryption(v) = pr {
                    // group decryption of an accepted proof is the signed claim's encoding under the statement's generator
                    let stg = scn.schema.statements.values().find_map(|s| if let Statements::VerifiableEncryptionDecryption(x) = s { Some(x.message_generator) } else { None }).unwrap();
                    if v.c2 - v.c1 * sk.0 != stg * signed.to_scalar() {
                        em.violation(&format!("{}:ved-group-decryption-differs:{}", tag, name), format!("{}: accepted encrypt-and-decrypt proof does not decrypt to the signed claim's group encoding (deviation {})", suite, name), replay.clone());
                    }
                    match call(|| v.decrypt_and_verify(&sk)) {
                        Out::Ok(c) if crate::claims::claim_str(&c) == crate::claims::claim_str(&signed) => em.count("hand-ved:accepted-decrypts-to-signed"),
                        Out::Ok(c) => em.violation(&format!("{}:ved-decrypts-to-unsigned-claim:{}", tag, name), format!("{}: accepted encrypt-and-decrypt proof decrypts to {} although {} was signed (deviation {})", suite, crate::claims::claim_str(&c), crate::claims::claim_str(&signed), name), replay.clone()),
                        // the text of the symmetric part cannot be checked without the key: a proof whose text does not fit
                        // is accepted and then refused by decrypt_and_verify — no claim is returned (counted, not judged)
                        Out::Err => em.count(&format!("hand-ved:{}:accepted-no-claim-returned", name)),
                        Out::Panic(m) => em.violation("c10:ved-panic", format!("{}: decrypt_and_verify panicked: {}", suite, m), replay.clone()),
                    }
                }
            }
        }
    }
}

/// scalars anybody can compute from a domain string (hash-to-field under common expanders and domain-separation tags,
/// plain digests reduced mod r)
fn public_scalars_of(domain: &[u8]) -> Vec<(String, Scalar)> {
    use elliptic_curve::hash2curve::{ExpandMsgXmd, ExpandMsgXof};
    use sha2::Digest;
    let mut out = vec![];
    for dst in [&b"BLS12381G1_XMD:SHA-256_SSWU_RO_"[..], b"BLS12381G1_XOF:SHAKE-256_SSWU_RO_", b"BLS12381G2_XMD:SHA-256_SSWU_RO_", b"BLS12381_XMD:SHA-256_RO_", b"credx", b"domain"] {
        out.push((format!("xmd-sha256[{}]", String::from_utf8_lossy(dst)), Scalar::hash::<ExpandMsgXmd<sha2::Sha256>>(domain, dst)));
        out.push((format!("xmd-sha512[{}]", String::from_utf8_lossy(dst)), Scalar::hash::<ExpandMsgXmd<sha2::Sha512>>(domain, dst)));
        out.push((format!("xof-shake256[{}]", String::from_utf8_lossy(dst)), Scalar::hash::<ExpandMsgXof<sha3::Shake256>>(domain, dst)));
        out.push((format!("xof-shake128[{}]", String::from_utf8_lossy(dst)), Scalar::hash::<ExpandMsgXof<sha3::Shake128>>(domain, dst)));
    }
    out.push(("shake256-wide".into(), shake_to_scalar(domain)));
    let d512 = sha2::Sha512::digest(domain);
    let mut w = [0u8; 64];
    w.copy_from_slice(&d512);
    out.push(("sha512-wide".into(), Scalar::from_bytes_wide(&w)));
    let d256 = sha2::Sha256::digest(domain);
    let mut w = [0u8; 64];
    w[..32].copy_from_slice(&d256);
    out.push(("sha256-low".into(), Scalar::from_bytes_wide(&w)));
    let mut w = [0u8; 64];
    w[32..].copy_from_slice(&d256);
    out.push(("sha256-high".into(), Scalar::from_bytes_wide(&w)));
    let d3 = sha3::Sha3_256::digest(domain);
    let mut w = [0u8; 64];
    w[..32].copy_from_slice(&d3);
    out.push(("sha3-256-low".into(), Scalar::from_bytes_wide(&w)));
    out
}

/// pseudonyms of one credential under the generators of two verifier domains (`create_domain_proof_generator`): they are
/// unrelated only if nobody knows a scalar relating the generators. Catalogue test: for every publicly computable scalar
/// pair (k_A, k_B) of the two domain strings, pseudonym_B ≠ (k_B / k_A)·pseudonym_A, and no domain generator is k·G or
/// k·(another domain generator) for a catalogued k.
fn domain_pseudonyms<S: ShortGroupSignatureScheme + 'static>(em: &mut Emitter, rng: &mut Rng, suite: &str) {
    let domains: Vec<Vec<u8>> = vec![b"verifier-a.example".to_vec(), b"verifier-b.example".to_vec(), b"".to_vec(), rng.bytes(40)];
    let gens: Vec<G1Projective> = domains.iter().map(|d| credx::create_domain_proof_generator(d)).collect();
    let pubs: Vec<Vec<(String, Scalar)>> = domains.iter().map(|d| public_scalars_of(d)).collect();
    for i in 0..domains.len() {
        em.oracle_case(&format!("{} domain-generator {}", suite, i));
        if bool::from(gens[i].is_identity()) {
            em.violation("c10:domain-generator-identity", format!("domain generator of {:?} is the identity", hexs(&domains[i])), json!({"domain": hexs(&domains[i])}));
        }
        if credx::create_domain_proof_generator(&domains[i]) != gens[i] {
            em.violation("c10:domain-generator-unstable", "the same domain string gave two generators".to_string(), json!({"domain": hexs(&domains[i])}));
        }
        for (name, k) in &pubs[i] {
            if gens[i] == G1Projective::GENERATOR * *k {
                em.violation("c10:domain-generator-known-dlog", format!("the generator of a domain string is {}(domain)·G: its discrete logarithm is public, so pseudonyms of different domains are related by public scalars", name), json!({"domain": hexs(&domains[i]), "scalar": name}));
            }
        }
        for j in 0..domains.len() {
            if i != j && gens[i] == gens[j] {
                em.violation("c10:domain-generators-collide", "two domain strings give the same generator".to_string(), json!({"a": hexs(&domains[i]), "b": hexs(&domains[j])}));
            }
        }
    }
    // end to end on one credential: accepted presentations for domains A and B, decrypted pseudonyms compared through the catalogue
    for variant in [false, true] {
        let ci = 1 + rng.below(3) as usize;
        let mix = Mix { n_creds: 1, n_claims: 4, age: rng.range(0, 90), disclosed: vec![vec![]], verenc: Some((ci, variant)), ..Default::default() };
        let scn = Scn::<S>::build(rng, &mix);
        let sk = scn.issuers[0].verifiable_decryption_key.clone();
        let mut ps: Vec<Option<G1Projective>> = vec![];
        for g in gens.iter().take(2) {
            let schema = with_generator(&scn.schema, *g);
            let d = match call(|| Presentation::create(&scn.credentials, &schema, &scn.nonce)) {
                Out::Ok(p) if call(|| p.verify(&schema, &scn.nonce)).is_ok() => p.proofs.values().find_map(|pr| match pr {
                    PresentationProofs::VerifiableEncryption(v) => Some(v.decrypt(&sk)),
                    _ => None,
                }),
                _ => None,
            };
            ps.push(d);
        }
        em.oracle_case(&format!("{} cross-domain pseudonyms allow={}", suite, variant));
        if let (Some(Some(pa)), Some(Some(pb))) = (ps.get(0), ps.get(1)) {
            em.count("cross-domain:pairs");
            if pa == pb {
                em.violation("c10:pseudonym-collides-across-generators", format!("{}: two domains give the same pseudonym", suite), scn.replay(json!({"suite": suite})));
            }
            for ((name, ka), (_, kb)) in pubs[0].iter().zip(pubs[1].iter()) {
                if let Some(inv) = Option::<Scalar>::from(ka.invert()) {
                    if *pb == *pa * (*kb * inv) {
                        em.violation("c10:pseudonyms-related-across-domains", format!("{}: pseudonym in domain B = pseudonym in domain A · {}(B)/{}(A): the holder is linkable across domains from public data", suite, name, name), scn.replay(json!({"suite": suite, "scalar": name, "domains": [hexs(&domains[0]), hexs(&domains[1])]})));
                    }
                }
            }
        } else {
            em.violation("c10:honest-rejected", format!("{}: honest presentation under a domain generator not created / accepted", suite), scn.replay(json!({"suite": suite})));
        }
    }
}

pub fn gen_c10(em: &mut Emitter, rng: &mut Rng) {
    em.rule = "both encryption statements on every claim type, with and without scalar decryption, G1 and random message generators: honest runs \
               (accepted; decrypt = m·M; decrypt_scalar = m; decrypt_and_verify = the signed claim; stable pseudonym per generator); deviating holders: \
               decryptable part omitted under the verifier's transcript (steered prover), a hand-written holder decomposing the scalar into the bytes of \
               m + r or of another value, generator field swapped in the encrypt-and-decrypt proof; a hand-written encrypt-and-decrypt holder \
               (other text in the symmetric part, other scalar, carried generator rescaled to fit a substitute claim, identity as carried / used generator with zero encrypted): accepted ⇒ decrypts to the signed claim; scalar decryption of values whose encodings cover all 256 byte values (negative numbers, r-1, 255); \
               domain generators (`create_domain_proof_generator`): stable, distinct, not k·G for any of ~30 publicly computable scalars k of the domain string, \
               and the decrypted pseudonyms of one credential in two domains not related by such scalars".into();
    suite_run::<Bbs>(em, rng, "bbs");
    suite_run::<Ps>(em, rng, "ps");
    // the encryption statements re-pointed at another hidden claim / credential, with the proof's index list in every order
    crate::c05::c05_suite::<Bbs>(em, &mut rng.sub(7009), "bbs", "c10", Some(&["verenc", "ved"]));
    crate::c05::c05_suite::<Ps>(em, &mut rng.sub(7010), "ps", "c10", Some(&["verenc", "ved"]));
    let base = 2 * em.n(10, 100);
    if em.mine(base) {
        byte_coverage::<Bbs>(em, &mut rng.sub(7001), "bbs");
    }
    if em.mine(base + 1) {
        byte_coverage::<Ps>(em, &mut rng.sub(7002), "ps");
    }
    if em.mine(base + 2) {
        domain_pseudonyms::<Bbs>(em, &mut rng.sub(7003), "bbs");
        ved_deviations::<Ps>(em, &mut rng.sub(7006), "ps", "c10");
        ved_text_values::<Bbs>(em, &mut rng.sub(7007), "bbs");
    }
    if em.mine(base + 3) {
        domain_pseudonyms::<Ps>(em, &mut rng.sub(7004), "ps");
        ved_deviations::<Bbs>(em, &mut rng.sub(7005), "bbs", "c10");
        ved_text_values::<Ps>(em, &mut rng.sub(7008), "ps");
    }
}
