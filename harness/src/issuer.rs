//! C13 (issuer registry coherence / atomicity) on the real `Issuer`, both suites.
use crate::common::*;
use crate::vb20::g1_hex;
use credx::blind::BlindCredentialRequest;
use credx::claim::*;
use credx::credential::{ClaimSchema, CredentialSchema};
use credx::issuer::{Issuer, IssuerPublic};
use credx::knox::accumulator::vb20::{Element, MembershipWitness};
use credx::knox::short_group_sig_core::short_group_traits::ShortGroupSignatureScheme;
use serde_json::json;
use std::collections::{BTreeMap, BTreeSet};

pub fn basic_schema() -> CredentialSchema {
    let claims = [
        ClaimSchema { claim_type: ClaimType::Revocation, label: "id".into(), print_friendly: false, validators: vec![] },
        ClaimSchema { claim_type: ClaimType::Hashed, label: "name".into(), print_friendly: true, validators: vec![ClaimValidator::Length { min: Some(1), max: Some(20) }] },
        ClaimSchema { claim_type: ClaimType::Number, label: "age".into(), print_friendly: true, validators: vec![ClaimValidator::Range { min: Some(0), max: Some(150) }] },
    ];
    CredentialSchema::new(Some("verif"), Some("verif schema"), &["name"], &claims).unwrap()
}

#[derive(Clone, Debug)]
enum ROp {
    Sign(String),
    SignBad(String),
    BlindOk(String),
    BlindBad(String),
    Revoke(Vec<String>),
    Refresh(String),
    Persist,
    /// `RevocationRegistry::add` called directly on the issuer's public registry field
    Add(Vec<String>),
}

impl ROp {
    fn show(&self) -> String {
        match self {
            ROp::Sign(i) => format!("sign {}", i),
            ROp::SignBad(i) => format!("sign-nonconformant {}", i),
            ROp::BlindOk(i) => format!("blind-sign {}", i),
            ROp::BlindBad(i) => format!("blind-sign-bad-request {}", i),
            ROp::Revoke(v) => format!("revoke [{}]", v.join(",")),
            ROp::Refresh(i) => format!("refresh {}", i),
            ROp::Persist => "persist/restore".into(),
            ROp::Add(v) => format!("registry.add [{}]", v.join(",")),
        }
    }
    fn model_line(&self) -> String {
        match self {
            ROp::Sign(i) | ROp::BlindOk(i) => format!("reg.issue {}", i),
            ROp::SignBad(i) | ROp::BlindBad(i) => format!("reg.failissue {}", i),
            ROp::Revoke(v) => format!("reg.revoke {}", if v.is_empty() { "-".into() } else { v.join(",") }),
            ROp::Refresh(i) => format!("reg.refresh {}", i),
            ROp::Persist => "reg.persist".into(),
            ROp::Add(v) => format!("reg.add {}", if v.is_empty() { "-".into() } else { v.join(",") }),
        }
    }
}

struct Ctx<S: ShortGroupSignatureScheme> {
    issuer: Issuer<S>,
    handles: Vec<(String, MembershipWitness)>,
    issued: BTreeSet<String>,
    revoked: BTreeSet<String>,
    trace: Vec<String>,
}

impl<S: ShortGroupSignatureScheme> Clone for Ctx<S> {
    fn clone(&self) -> Self {
        Ctx { issuer: self.issuer.clone(), handles: self.handles.clone(), issued: self.issued.clone(), revoked: self.revoked.clone(), trace: self.trace.clone() }
    }
}

fn state_line<S: ShortGroupSignatureScheme>(i: &Issuer<S>, v0: &str) -> String {
    let r = &i.revocation_registry;
    let l = |s: &indexmap::IndexSet<String>| if s.is_empty() { "-".to_string() } else { s.iter().cloned().collect::<Vec<_>>().join(",") };
    let _ = v0;
    format!("E={} A={} V={}", l(&r.elements), l(&r.active), g1_hex(&r.value.0))
}

fn apply<S: ShortGroupSignatureScheme>(em: &mut Emitter, suite: &str, c: &mut Ctx<S>, op: &ROp, public: &IssuerPublic<S>) {
    let before = (c.issuer.revocation_registry.elements.clone(), c.issuer.revocation_registry.active.clone(), c.issuer.revocation_registry.value);
    c.trace.push(op.show());
    let replay = json!({"suite": suite, "history": c.trace});
    let out: Out<Option<MembershipWitness>> = match op {
        ROp::Sign(id) => call(|| {
            c.issuer
                .sign_credential(&[RevocationClaim::from(id.as_str()).into(), HashedClaim::from("alice").into(), NumberClaim::from(30).into()])
                .map(|b| Some(b.credential.revocation_handle))
        }),
        ROp::SignBad(id) => call(|| {
            c.issuer
                .sign_credential(&[RevocationClaim::from(id.as_str()).into(), HashedClaim::from("alice").into(), NumberClaim::from(151).into()])
                .map(|b| Some(b.credential.revocation_handle))
        }),
        ROp::BlindOk(id) | ROp::BlindBad(id) => call(|| {
            let mut hidden = BTreeMap::new();
            hidden.insert("name".to_string(), ClaimData::from(HashedClaim::from("bob")));
            let (mut req, _blinder) = BlindCredentialRequest::<S>::new(public, &hidden)?;
            if matches!(op, ROp::BlindBad(_)) {
                req.nonce += Scalar::ONE;
            }
            let mut known = BTreeMap::new();
            known.insert("id".to_string(), ClaimData::from(RevocationClaim::from(id.as_str())));
            known.insert("age".to_string(), ClaimData::from(NumberClaim::from(41)));
            c.issuer.blind_sign_credential(&req, &known).map(|b| Some(b.credential.revocation_handle))
        }),
        ROp::Revoke(ids) => call(|| {
            let v: Vec<RevocationClaim> = ids.iter().map(|i| RevocationClaim::from(i.as_str())).collect();
            c.issuer.revoke_credentials(&v).map(|_| None)
        }),
        ROp::Refresh(id) => call(|| c.issuer.update_revocation_handle(RevocationClaim::from(id.as_str())).map(Some)),
        ROp::Add(ids) => call(|| {
            c.issuer.revocation_registry.add(ids);
            Ok::<_, ()>(None)
        }),
        ROp::Persist => call(|| {
            let j = serde_json::to_string(&c.issuer).map_err(|_| ())?;
            let back: Issuer<S> = serde_json::from_str(&j).map_err(|_| ())?;
            let j2 = serde_json::to_string(&back).map_err(|_| ())?;
            if j != j2 {
                return Err(());
            }
            c.issuer = back;
            Ok::<_, ()>(None)
        }),
    };
    // canonical answer for the model comparison
    let ans = match &out {
        Out::Ok(Some(w)) => format!("ok {}", g1_hex(&w.0)),
        Out::Ok(None) => "ok".into(),
        Out::Err => "err".into(),
        Out::Panic(_) => "panic".into(),
    };
    em.op(op.model_line(), ans);
    em.count(&format!("{}:{}", op.show().split(' ').next().unwrap(), out.class()));
    // ---- oracle on the real code
    em.oracle_case(&format!("{} {:?}", suite, c.trace));
    let reg = &c.issuer.revocation_registry;
    match &out {
        Out::Panic(m) => em.violation("registry-op-panic", format!("{} panicked: {}", op.show(), m), replay.clone()),
        Out::Err => {
            if reg.elements != before.0 || reg.active != before.1 || reg.value != before.2 {
                let sig = match op {
                    ROp::Revoke(_) => "revoke-error-mutates-state",
                    ROp::BlindBad(_) | ROp::BlindOk(_) => "blind-issue-error-mutates-state",
                    ROp::Sign(_) | ROp::SignBad(_) => "issue-error-mutates-state",
                    _ => "error-mutates-state",
                };
                em.violation(sig, format!("{} returned Err but changed the registry", op.show()), replay.clone());
            }
            // should it have failed?
            let should_fail = match op {
                ROp::Sign(id) | ROp::BlindOk(id) => c.revoked.contains(id),
                ROp::SignBad(_) | ROp::BlindBad(_) => true,
                ROp::Revoke(ids) => ids.iter().any(|i| !c.issued.contains(i) || c.revoked.contains(i)) || ids.iter().collect::<BTreeSet<_>>().len() != ids.len(),
                ROp::Refresh(id) => !c.issued.contains(id) || c.revoked.contains(id),
                ROp::Persist | ROp::Add(_) => false,
            };
            if !should_fail {
                em.violation("spurious-error", format!("{} returned Err although it is admissible", op.show()), replay.clone());
            }
        }
        Out::Ok(w) => {
            match op {
                ROp::Sign(id) | ROp::BlindOk(id) => {
                    if c.revoked.contains(id) {
                        em.violation("revoked-id-reissued", format!("{} succeeded for a revoked identifier", op.show()), replay.clone());
                    }
                    c.issued.insert(id.clone());
                }
                ROp::SignBad(_) | ROp::BlindBad(_) => em.violation("bad-issuance-accepted", format!("{} succeeded", op.show()), replay.clone()),
                ROp::Revoke(ids) => {
                    if ids.iter().any(|i| !c.issued.contains(i) || c.revoked.contains(i)) || ids.iter().collect::<BTreeSet<_>>().len() != ids.len() {
                        em.violation("bad-revoke-accepted", format!("{} succeeded", op.show()), replay.clone());
                    }
                    for i in ids {
                        c.revoked.insert(i.clone());
                    }
                }
                ROp::Refresh(id) => {
                    if !c.issued.contains(id) || c.revoked.contains(id) {
                        em.violation("refresh-for-inactive", format!("{} succeeded for an identifier that is not active", op.show()), replay.clone());
                    }
                }
                ROp::Persist => {}
                ROp::Add(ids) => {
                    // never-seen identifiers become issued (and active); known ones, active or revoked, are left alone
                    for i in ids {
                        c.issued.insert(i.clone());
                    }
                }
            }
            if let Some(w) = w {
                let id = match op {
                    ROp::Sign(i) | ROp::BlindOk(i) | ROp::Refresh(i) | ROp::SignBad(i) | ROp::BlindBad(i) => i.clone(),
                    _ => String::new(),
                };
                c.handles.push((id, *w));
            }
        }
    }
    // bookkeeping coherence: active = issued \ revoked, elements = issued
    let reg = &c.issuer.revocation_registry;
    let act: BTreeSet<String> = reg.active.iter().cloned().collect();
    let ele: BTreeSet<String> = reg.elements.iter().cloned().collect();
    let want_act: BTreeSet<String> = c.issued.difference(&c.revoked).cloned().collect();
    if act != want_act || ele != c.issued {
        em.violation("bookkeeping-incoherent", format!("after {}: active={:?} elements={:?} but issued={:?} revoked={:?}", op.show(), act, ele, c.issued, c.revoked), replay.clone());
    }
    // state + handle verdicts, compared with the model
    em.op("reg.state", state_line(&c.issuer, ""));
    let pk = public.revocation_verifying_key;
    let value = c.issuer.revocation_registry.value;
    for (k, (id, w)) in c.handles.iter().enumerate() {
        let v = w.verify(Element::hash(id.as_bytes()), pk, value);
        em.op(format!("reg.verify {}", k), format!("{}", v));
        if v && c.revoked.contains(id) {
            em.violation("revoked-handle-verifies", format!("handle #{} of revoked identifier {} verifies against the published value", k, id), replay.clone());
        }
    }
    // every active identifier can be refreshed to a verifying handle, nobody else can be refreshed
    for id in ["a", "b", "c", "x"] {
        let r = c.issuer.update_revocation_handle(RevocationClaim::from(id));
        let active = want_act.contains(id);
        match r {
            Ok(w) => {
                if !active {
                    em.violation("refresh-for-inactive", format!("update_revocation_handle({}) succeeded for an inactive identifier", id), replay.clone());
                } else if !w.verify(Element::hash(id.as_bytes()), pk, value) {
                    em.violation("refreshed-handle-rejected", format!("refreshed handle of active {} does not verify", id), replay.clone());
                }
            }
            Err(_) => {
                if active {
                    em.violation("refresh-refused-for-active", format!("update_revocation_handle({}) failed for an active identifier", id), replay.clone());
                }
            }
        }
    }
}

fn alphabet() -> Vec<ROp> {
    let s = |x: &str| x.to_string();
    vec![
        ROp::Sign(s("a")),
        ROp::Sign(s("b")),
        ROp::BlindOk(s("c")),
        ROp::BlindOk(s("a")),
        ROp::BlindBad(s("b")),
        ROp::BlindBad(s("c")),
        ROp::SignBad(s("c")),
        ROp::Revoke(vec![s("a")]),
        ROp::Revoke(vec![s("b")]),
        ROp::Revoke(vec![s("a"), s("b")]),
        ROp::Revoke(vec![s("b"), s("a"), s("c")]),
        ROp::Revoke(vec![s("a"), s("x")]),
        ROp::Revoke(vec![s("a"), s("a")]),
        ROp::Revoke(vec![]),
        ROp::Refresh(s("a")),
        ROp::Refresh(s("c")),
        ROp::Persist,
    ]
}

fn dfs<S: ShortGroupSignatureScheme>(em: &mut Emitter, suite: &str, c: &Ctx<S>, public: &IssuerPublic<S>, depth: usize, ops: &[ROp]) {
    if depth == 0 {
        return;
    }
    for op in ops {
        em.op("reg.push", "ok");
        let mut c2 = c.clone();
        apply(em, suite, &mut c2, op, public);
        dfs(em, suite, &c2, public, depth - 1, ops);
        em.op("reg.pop", "ok");
    }
}

fn start<S: ShortGroupSignatureScheme>(em: &mut Emitter) -> (IssuerPublic<S>, Ctx<S>) {
    let schema = basic_schema();
    let (public, issuer) = Issuer::<S>::new(&schema);
    em.op(format!("reg.new {} {}", sc_hex(&issuer.revocation_key.0), g1_hex(&issuer.revocation_registry.value.0)), "ok");
    for id in ["a", "b", "c", "x"] {
        em.op(format!("reg.id {} {}", id, sc_hex(&Element::hash(id.as_bytes()).0)), "ok");
    }
    (public, Ctx { issuer, handles: vec![], issued: BTreeSet::new(), revoked: BTreeSet::new(), trace: vec![] })
}

/// identifiers of unusual shape (empty, white space, non-ASCII, long, NUL): the identifier → element map must be
/// a function (same element at issuance, refresh, revocation and on the holder's side), whatever the string
fn special_identifiers<S: ShortGroupSignatureScheme>(em: &mut Emitter, suite: &str) {
    let long = "x".repeat(300);
    let ids: Vec<&str> = vec!["", " ", "a b", "é", long.as_str(), "\u{0}", "a", "A"];
    let schema = basic_schema();
    let (_public, mut issuer) = Issuer::<S>::new(&schema);
    let pk = credx::knox::accumulator::vb20::PublicKey::from(&issuer.revocation_key);
    let alpha = issuer.revocation_key.0;
    let claims_of = |id: &str| -> Vec<ClaimData> { vec![RevocationClaim::from(id).into(), HashedClaim::from("N").into(), NumberClaim::from(30).into()] };
    for id in &ids {
        em.oracle_case(&format!("{} special-id {:?}", suite, &id[..id.len().min(8)]));
        let shown = format!("{:?}", &id[..id.len().min(12)]);
        // the map is a function
        if Element::hash(id.as_bytes()).0 != Element::hash(id.as_bytes()).0 || RevocationClaim::from(*id).to_scalar() != Element::hash(id.as_bytes()).0 {
            em.violation("identifier-element-not-a-function", format!("{}: identifier {} does not map to one element (Element::hash / RevocationClaim::to_scalar disagree or vary)", suite, shown), json!({"suite": suite, "id": id}));
        }
        let b = match call(|| issuer.sign_credential(&claims_of(id))) {
            Out::Ok(b) => b,
            o => {
                em.count(&format!("special-id-issuance:{}", o.class()));
                continue;
            }
        };
        let y = Element::hash(id.as_bytes());
        let value = issuer.revocation_registry.value;
        if !b.credential.revocation_handle.verify(y, pk, value) {
            em.violation("issued-handle-rejected", format!("{}: issued handle of identifier {} does not verify against the published value", suite, shown), json!({"suite": suite, "id": id}));
        }
        match call(|| issuer.update_revocation_handle(RevocationClaim::from(*id))) {
            Out::Ok(w) => {
                if !w.verify(y, pk, value) {
                    em.violation("refreshed-handle-rejected", format!("{}: refreshed handle of active identifier {} does not verify", suite, shown), json!({"suite": suite, "id": id}));
                }
            }
            _ => em.violation("refresh-refused-for-active", format!("{}: refresh refused for the active identifier {}", suite, shown), json!({"suite": suite, "id": id})),
        }
        // persist / restore, then revoke: the value is divided by exactly (hash(id) + α)
        let txt = serde_json::to_string(&issuer).unwrap();
        issuer = serde_json::from_str(&txt).unwrap();
        let before = issuer.revocation_registry.value;
        match call(|| issuer.revoke_credentials(&[RevocationClaim::from(*id)])) {
            Out::Ok(()) => {
                let want = before.0 * (y.0 + alpha).invert().unwrap();
                if issuer.revocation_registry.value.0 != want {
                    em.violation("revocation-divides-by-other-element", format!("{}: revoking identifier {} does not divide the value by (hash(id) + key)", suite, shown), json!({"suite": suite, "id": id}));
                }
                if b.credential.revocation_handle.verify(y, pk, issuer.revocation_registry.value) {
                    em.violation("revoked-handle-verifies", format!("{}: the handle of revoked identifier {} still verifies", suite, shown), json!({"suite": suite, "id": id}));
                }
                if call(|| issuer.update_revocation_handle(RevocationClaim::from(*id))).is_ok() {
                    em.violation("refresh-for-inactive", format!("{}: refresh succeeded for the revoked identifier {}", suite, shown), json!({"suite": suite, "id": id}));
                }
                if call(|| issuer.sign_credential(&claims_of(id))).is_ok() {
                    em.violation("revoked-reissued", format!("{}: the revoked identifier {} was issued again", suite, shown), json!({"suite": suite, "id": id}));
                }
            }
            _ => em.violation("revoke-refused-for-active", format!("{}: revoking the active identifier {} failed", suite, shown), json!({"suite": suite, "id": id})),
        }
    }
}

/// revocation batches longer than any block size an implementation might process them in (255, 256, 257, 300, …): the
/// published value is the old value divided by (y+α) for *every* identifier of the batch, equals the value reached by
/// revoking the same identifiers in small batches, and no handle of a revoked identifier verifies against it
fn large_batches<S: ShortGroupSignatureScheme>(em: &mut Emitter, rng: &mut Rng, suite: &str) {
    let sizes: Vec<usize> = if em.thorough() { vec![33, 65, 70, 127, 129, 255, 256, 257, 300, 511, 513, 1030] } else { vec![70, 257, 300] };
    for n in sizes {
        let schema = basic_schema();
        let (_public, mut issuer) = Issuer::<S>::new(&schema);
        let pk = credx::knox::accumulator::vb20::PublicKey::from(&issuer.revocation_key);
        let alpha = issuer.revocation_key.0;
        let tag = rng.below(1 << 20);
        let ids: Vec<String> = (0..n).map(|i| format!("L{}-{}-{}", n, tag, i)).collect();
        let mut handles: Vec<MembershipWitness> = vec![];
        let mut ok = true;
        for id in &ids {
            match call(|| issuer.sign_credential(&[RevocationClaim::from(id.as_str()).into(), HashedClaim::from("N").into(), NumberClaim::from(30).into()])) {
                Out::Ok(b) => handles.push(b.credential.revocation_handle),
                _ => {
                    ok = false;
                    break;
                }
            }
        }
        if !ok {
            em.count("large-batch:issuance-failed");
            continue;
        }
        // a refused long batch (bad entry last: unknown identifier / duplicate of the first) changes nothing
        for (bad_name, bad) in [("unknown-last", RevocationClaim::from("never-issued")), ("duplicate-last", RevocationClaim::from(ids[0].as_str()))] {
            let mut refused: Issuer<S> = serde_json::from_str(&serde_json::to_string(&issuer).unwrap()).unwrap();
            let mut batch: Vec<RevocationClaim> = ids.iter().map(|i| RevocationClaim::from(i.as_str())).collect();
            batch.push(bad);
            let before_v = refused.revocation_registry.value;
            let before_a = refused.revocation_registry.active.clone();
            let before_e = refused.revocation_registry.elements.clone();
            em.oracle_case(&format!("{} long-refused-batch {} {}", suite, n, bad_name));
            match call(|| refused.revoke_credentials(&batch)) {
                Out::Err => {
                    if refused.revocation_registry.value.0 != before_v.0 || refused.revocation_registry.active != before_a || refused.revocation_registry.elements != before_e {
                        em.violation("long-refused-batch-changed-state", format!("{}: a refused batch of {} identifiers ({}) changed the registry (value moved: {}, active {} → {})", suite, n + 1, bad_name, refused.revocation_registry.value.0 != before_v.0, before_a.len(), refused.revocation_registry.active.len()), json!({"suite": suite, "batch_size": n + 1, "bad": bad_name}));
                    }
                }
                Out::Ok(()) => em.violation("bad-revoke-accepted", format!("{}: a batch of {} identifiers with a bad last entry ({}) was accepted", suite, n + 1, bad_name), json!({"suite": suite, "batch_size": n + 1, "bad": bad_name})),
                Out::Panic(m) => em.violation("revoke-panic", format!("{}: revoke_credentials panicked on a long batch: {}", suite, m), json!({"suite": suite})),
            }
        }
        let mut small: Issuer<S> = serde_json::from_str(&serde_json::to_string(&issuer).unwrap()).unwrap();
        let before = issuer.revocation_registry.value;
        let claims: Vec<RevocationClaim> = ids.iter().map(|i| RevocationClaim::from(i.as_str())).collect();
        em.oracle_case(&format!("{} large-batch {}", suite, n));
        em.count(&format!("large-batch:{}", n));
        let replay = json!({"suite": suite, "batch_size": n, "ids": format!("L{}-{}-0 .. {}", n, tag, n - 1)});
        match call(|| issuer.revoke_credentials(&claims)) {
            Out::Ok(()) => {}
            o => {
                em.violation("large-batch-revoke-failed", format!("{}: revoking {} active identifiers in one batch failed ({})", suite, n, o.class()), replay.clone());
                continue;
            }
        }
        let mut want = before.0;
        for id in &ids {
            want *= (Element::hash(id.as_bytes()).0 + alpha).invert().unwrap();
        }
        let value = issuer.revocation_registry.value;
        if value.0 != want {
            em.violation("large-batch-value", format!("{}: after revoking {} identifiers in one batch the published value is not the old value divided by (y+key) for every identifier", suite, n), replay.clone());
        }
        for chunk in claims.chunks(32) {
            let _ = call(|| small.revoke_credentials(chunk));
        }
        if small.revocation_registry.value.0 != value.0 {
            em.violation("large-batch-depends-on-batching", format!("{}: revoking {} identifiers at once and in batches of 32 gives different published values", suite, n), replay.clone());
        }
        if !issuer.revocation_registry.active.is_empty() {
            em.violation("large-batch-bookkeeping", format!("{}: identifiers still active after a batch revocation of all {}", suite, n), replay.clone());
        }
        for i in [0usize, 1, n / 2, 255.min(n - 1), 256.min(n - 1), n - 2, n - 1] {
            let y = Element::hash(ids[i].as_bytes());
            if handles[i].verify(y, pk, value) {
                em.violation("large-batch-revoked-handle-verifies", format!("{}: identifier #{} of a batch of {} was revoked but its handle still verifies against the published value", suite, i, n), replay.clone());
                break;
            }
            // the last handle the issuer would have handed out
            let w = MembershipWitness(before.0 * (y.0 + alpha).invert().unwrap());
            if w.verify(y, pk, value) {
                em.violation("large-batch-revoked-handle-verifies", format!("{}: identifier #{} of a batch of {} was revoked but a handle for the previous value verifies against the published value", suite, i, n), replay.clone());
                break;
            }
            if call(|| issuer.update_revocation_handle(RevocationClaim::from(ids[i].as_str()))).is_ok() {
                em.violation("refresh-for-inactive", format!("{}: refresh succeeded for revoked identifier #{} of a batch of {}", suite, i, n), replay.clone());
                break;
            }
        }
    }
}

pub fn gen_c13_suite<S: ShortGroupSignatureScheme>(em: &mut Emitter, rng: &mut Rng, suite: &str) {
    special_identifiers::<S>(em, suite);
    large_batches::<S>(em, &mut rng.sub(1313), suite);
    let ops = alphabet();
    // exhaustive prefix tree
    let depth = em.n(2, 3);
    let (public, c) = start::<S>(em);
    dfs(em, suite, &c, &public, depth, &ops);
    em.count_n(&format!("{}:exhaustive-depth", suite), depth as u64);
    // random longer histories (also with direct `RevocationRegistry::add` calls on the public registry field)
    let mut ops = ops;
    let s = |x: &str| x.to_string();
    ops.push(ROp::Add(vec![s("a"), s("b")]));
    ops.push(ROp::Add(vec![s("c"), s("a"), s("c")]));
    ops.push(ROp::Add(vec![s("b")]));
    for _ in 0..em.n(25, 400) {
        let (public, mut c) = start::<S>(em);
        let len = 4 + rng.below(if em.thorough() { 27 } else { 12 }) as usize;
        for _ in 0..len {
            // bias towards issuing early
            let op = if c.issued.len() < 2 && rng.coin() { ops[rng.below(4) as usize].clone() } else { rng.pick(&ops).clone() };
            apply(em, suite, &mut c, &op, &public);
        }
        if em.samples.len() < 10 {
            em.sample(json!({"suite": suite, "history": c.trace}));
        }
    }
}

pub fn gen_c13(em: &mut Emitter, rng: &mut Rng) {
    em.rule = "issuer histories over identifiers {a,b,c} and an unknown x: exhaustive prefix tree over a 17-operation alphabet \
               (sign, blind-sign with valid / tampered request, non-conformant sign, revoke batches incl. unknown / duplicate / revoked / empty, \
               refresh, JSON persist-restore) to the stated depth, random longer histories beyond; after every operation the return class, \
               the ordered bookkeeping sets, the registry value and the verdict of every handle ever issued are compared with the Lean \
               state machine; oracle on the real code: Err leaves state unchanged, active = issued∖revoked, refresh ⇔ active, \
               revoked handles never verify, revoked ids never re-issued; \
               single batches of 257 / 300 (thorough: 127 … 1030) identifiers: value = old / ∏(y+α) over the whole batch = value after batches of 32".into();
    gen_c13_suite::<credx::knox::bbs::BbsScheme>(em, rng, "bbs");
    gen_c13_suite::<credx::knox::ps::PsScheme>(em, rng, "ps");
}
