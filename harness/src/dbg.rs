use crate::common::*;
use crate::pres::*;
use credx::statement::*;
pub fn run() {
    let mut rng = Rng::new(5);
    let mix = Mix { n_creds: 2, n_claims: 4, disclosed: vec![vec![], vec![]], equality: true, commitment: Some(1), verenc: Some((1, false)), membership: true, age: 40, ..Default::default() };
    let scn = Scn::<Bbs>::build(&mut rng, &mix);
    let p = scn.create().ok().unwrap();
    println!("honest: {}", scn.verify(&p).class());
    let stmts: Vec<Statements<Bbs>> = scn.schema.statements.values().map(|s| match s {
        Statements::Commitment(c) => { let mut t = (**c).clone(); t.reference_id = "sig1".into(); t.into() }
        o => o.clone() }).collect();
    let s2 = credx::presentation::PresentationSchema::new_with_id(&stmts, &scn.schema.id);
    println!("retargeted: {:?}", p.verify(&s2, &scn.nonce));
}
