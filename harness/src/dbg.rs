use crate::common::*;
use crate::pres::*;
use credx::presentation::Presentation;
pub fn run() {
    let mut rng = Rng::new(7);
    for k in 0..40 {
        let mix = Mix::random(&mut rng, false);
        let scn = Scn::<Bbs>::build(&mut rng, &mix);
        let p = match scn.create() { Out::Ok(p) => p, _ => continue };
        let js = serde_json::to_string(&p).unwrap();
        match serde_json::from_str::<Presentation<Bbs>>(&js) {
            Ok(q) => {
                if let Err(e) = q.verify(&scn.schema, &scn.nonce) {
                    println!("{} {}: verify after json: {:?}", k, mix.describe(), e);
                    let js2 = serde_json::to_string(&q).unwrap();
                    println!("same json: {}", js == js2);
                    let a: serde_json::Value = serde_json::from_str(&js).unwrap();
                    let b: serde_json::Value = serde_json::from_str(&js2).unwrap();
                    let mut la = vec![]; let mut lb = vec![];
                    leaves(&a, &mut vec![], &mut la); leaves(&b, &mut vec![], &mut lb);
                    for (x, y) in la.iter().zip(lb.iter()) { if x != y { println!("  diff {:?} {:?}", x, y); break; } }
                    return;
                }
            }
            Err(e) => { println!("{} decode err {:?}", k, e); return; }
        }
    }
}
