use credx::presentation::Presentation;
use crate::pres::*;
pub fn run() {
    let h = std::fs::read_to_string("/verif/work/acc_bare.hex").unwrap();
    let b = hex::decode(h.trim()).unwrap();
    let q = serde_bare::from_slice::<Presentation<Bbs>>(&b).unwrap();
    let b2 = serde_bare::to_vec(&q).unwrap();
    println!("len {} {}", b.len(), b2.len());
    for i in 0..b.len().min(b2.len()) { if b[i] != b2[i] { println!("first diff at {}: {:02x} vs {:02x}; context {}", i, b[i], b2[i], hex::encode(&b[i.saturating_sub(8)..(i+8).min(b.len())])); break; } }
    let js = serde_json::to_string(&q).unwrap();
    println!("{}", &js[..js.len().min(600)]);
}
