use crate::common::*;
use crate::pres::*;
pub fn run() {
    // replay of a C11 BARE byte-change finding: VERIF_REPLAY=<file>
    let f = std::env::var("VERIF_REPLAY").expect("VERIF_REPLAY");
    let j: serde_json::Value = serde_json::from_str(&std::fs::read_to_string(f).unwrap()).unwrap();
    let inp = &j["input"];
    let schema = schema_from_value::<Bbs>(&inp["schema"]).ok().unwrap();
    let nonce = unhex(inp["nonce"].as_str().unwrap());
    let bare = unhex(inp["extra"]["bare"].as_str().unwrap());
    let p: credx::presentation::Presentation<Bbs> = serde_bare::from_slice(&bare).unwrap();
    println!("verify: {:?}", p.verify(&schema, &nonce).is_ok());
    println!("disclosed: {:?}", p.disclosed_messages);
    for (id, pr) in &p.proofs {
        if let credx::presentation::PresentationProofs::Signature(sp) = pr {
            println!("{} inner: {:?}", id, sp.disclosed_messages.iter().map(|(i, s)| (i, sc_hex(s))).collect::<Vec<_>>());
        }
    }
    for (_, dm) in &p.disclosed_messages {
        for (l, c) in dm {
            println!("{} -> scalar {} bytes {:?}", l, sc_hex(&c.to_scalar()), c.to_bytes());
        }
    }
}
