//! C14: public witness updates agree with secret-key recomputation (vb20 API level).
use crate::common::*;
use blsful::inner_types::{G1Projective, G2Projective};
use credx::knox::accumulator::vb20::*;
use serde_json::json;

fn sl(v: &[Scalar]) -> String {
    if v.is_empty() {
        "-".into()
    } else {
        v.iter().map(sc_hex).collect::<Vec<_>>().join(",")
    }
}
fn el(v: &[Element]) -> String {
    sl(&v.iter().map(|e| e.0).collect::<Vec<_>>())
}
pub fn g1_hex(p: &G1Projective) -> String {
    hex::encode(p.to_compressed())
}
fn g1l(v: &[G1Projective]) -> String {
    if v.is_empty() {
        "-".into()
    } else {
        v.iter().map(g1_hex).collect::<Vec<_>>().join(",")
    }
}

struct Batch {
    adds: Vec<Element>,
    dels: Vec<Element>,
    coefs: Vec<Coefficient>,
    /// discrete logs of the coefficients
    coef_dl: Vec<Scalar>,
    v_old: Scalar,
    v_new: Scalar,
    acc_old: Accumulator,
    acc_new: Accumulator,
}

fn small_elem(rng: &mut Rng) -> Element {
    // mix of tiny, huge and random scalars
    match rng.below(6) {
        0 => Element(Scalar::from(rng.below(5))),
        1 => Element(-Scalar::from(rng.below(5) + 1)),
        _ => Element(rng.scalar()),
    }
}

/// membership bookkeeping of one batch; an element listed on both sides keeps the status it had
fn apply_batch(set: &mut Vec<Element>, adds: &[Element], dels: &[Element]) {
    let before = set.clone();
    set.retain(|e| !dels.contains(e) || (adds.contains(e) && before.contains(e)));
    for a in adds {
        if !set.contains(a) && !dels.contains(a) {
            set.push(*a);
        }
    }
}

pub fn gen_c14(em: &mut Emitter, rng: &mut Rng) {
    em.rule = "random accumulator histories (1..4 batches of 0..4 additions / deletions, tracked element inside or outside, \
               deleted or not; one history in five with a degenerate batch whose elements sum to −α, i.e. an identity update coefficient; single batches of 257 / 300 deletions) on the real vb20 API; every coefficient vector, accumulator value, from-scratch / batch / \
               multi-batch (every contiguous grouping) / single-step witness is compared with the Lean model in \
               discrete-log space (model scalar s ↦ s·G1 compared with the real compressed point); oracle: updated witness \
               = recomputed witness and verifies unless the element was deleted, then never verifies".into();
    let g = G1Projective::GENERATOR;
    let n_hist = em.n(60, 1500);
    for hi in 0..n_hist {
        let alpha = if hi % 17 == 3 { Scalar::from(rng.below(3) + 1) } else { rng.scalar() };
        let key = SecretKey(alpha);
        let pk = PublicKey(G2Projective::GENERATOR * alpha);
        // initial set
        let n0 = rng.below(5) as usize;
        let mut set: Vec<Element> = vec![];
        while set.len() < n0 {
            let e = small_elem(rng);
            if !set.contains(&e) && !bool::from((e.0 + alpha).is_zero()) {
                set.push(e);
            }
        }
        let tracked_inside = rng.chance(2, 3) || set.is_empty();
        let y = loop {
            let e = small_elem(rng);
            if !set.contains(&e) && !bool::from((e.0 + alpha).is_zero()) {
                break e;
            }
        };
        let set0 = set.clone();
        if tracked_inside {
            set.push(y);
        }
        let acc0 = Accumulator::with_elements(&key, &set);
        let mut v = set.iter().fold(Scalar::ONE, |a, e| a * (e.0 + alpha));
        if acc0.0 != g * v {
            em.violation("with-elements-value", "Accumulator::with_elements != G·∏(e+α)", json!({"alpha": sc_hex(&alpha), "set": el(&set)}));
        }
        // batches
        let nb = 1 + rng.below(if em.thorough() { 5 } else { 4 }) as usize;
        // one history in five publishes a degenerate batch: 3..4 additions whose sum is −α (the second-highest update
        // coefficient is then the point at infinity), deleted together in the next batch (same for the deletion side)
        let crafted = hi % 5 == 2;
        let nb = if crafted { nb.max(2) } else { nb };
        let mut crafted_set: Vec<Element> = vec![];
        let mut batches: Vec<Batch> = vec![];
        let mut acc = acc0;
        let mut ever: Vec<Element> = set.clone();
        ever.push(y);
        let mut y_deleted_at: Option<usize> = None;
        for bi in 0..nb {
            // one batch in six is a no-op epoch (nothing added, nothing deleted: an empty coefficient list)
            let noop = rng.chance(1, 6) && !(crafted && bi < 2);
            let na = if noop { 0 } else { rng.below(5) as usize };
            let na = if crafted && bi == 0 { 0 } else { na };
            let mut adds = vec![];
            while adds.len() < na {
                let e = small_elem(rng);
                if !ever.contains(&e) && !bool::from((e.0 + alpha).is_zero()) {
                    ever.push(e);
                    adds.push(e);
                }
            }
            if crafted && bi == 0 {
                let k = 2 + rng.below(2) as usize;
                while adds.len() < k {
                    let e = small_elem(rng);
                    if !ever.contains(&e) && !bool::from((e.0 + alpha).is_zero()) {
                        ever.push(e);
                        adds.push(e);
                    }
                }
                let closing = Element(-alpha - adds.iter().fold(Scalar::ZERO, |a, e| a + e.0));
                if !ever.contains(&closing) && !bool::from((closing.0 + alpha).is_zero()) {
                    ever.push(closing);
                    let pos = rng.below(adds.len() as u64 + 1) as usize;
                    adds.insert(pos, closing);
                    crafted_set = adds.clone();
                    em.count("crafted:additions-sum-to-minus-key");
                }
            }
            let mut dels = vec![];
            let nd = if noop { 0 } else { (rng.below(5) as usize).min(set.len()) };
            let nd = if crafted && bi == 1 && !crafted_set.is_empty() { 0 } else { nd };
            if crafted && bi == 1 && !crafted_set.is_empty() {
                dels = crafted_set.clone();
                rng.shuffle(&mut dels);
                em.count("crafted:deletions-sum-to-minus-key");
            }
            let mut cand: Vec<Element> = set.iter().cloned().filter(|e| *e != y).collect();
            rng.shuffle(&mut cand);
            for e in cand.into_iter().take(nd) {
                dels.push(e);
            }
            // delete the tracked element itself in some histories
            if !noop && !(crafted && bi < 2) && tracked_inside && y_deleted_at.is_none() && rng.chance(1, 6) {
                let pos = rng.below(dels.len() as u64 + 1) as usize;
                dels.insert(pos, y);
                y_deleted_at = Some(bi);
            }
            // an element both added and deleted in the same batch (net no-op on the value, but present in the
            // published lists): a fresh one, or a current member other than y
            if !noop && !(crafted && bi < 2) && rng.chance(1, 4) {
                if rng.coin() && !adds.is_empty() {
                    let e = adds[rng.below(adds.len() as u64) as usize];
                    let pos = rng.below(dels.len() as u64 + 1) as usize;
                    dels.insert(pos, e);
                    em.count("overlap:fresh-added-and-deleted");
                } else if let Some(e) = set.iter().cloned().find(|e| *e != y && !dels.contains(e) && !adds.contains(e)) {
                    let pa = rng.below(adds.len() as u64 + 1) as usize;
                    adds.insert(pa, e);
                    let pd = rng.below(dels.len() as u64 + 1) as usize;
                    dels.insert(pd, e);
                    em.count("overlap:member-deleted-and-readded");
                }
            }
            // model vs implementation: coefficient scalars
            let coefs_sc = key.create_coefficients(&adds, &dels);
            em.op(format!("vb.coef {} {} {}", sc_hex(&alpha), el(&adds), el(&dels)), el(&coefs_sc));
            let (acc_new, coefs) = acc.update(&key, &adds, &dels);
            let pa = adds.iter().fold(Scalar::ONE, |a, e| a * (e.0 + alpha));
            let pd = dels.iter().fold(Scalar::ONE, |a, e| a * (e.0 + alpha));
            let v_new = v * pa * pd.invert().unwrap();
            em.op(
                format!("vb.accupd {} {} {} {}", sc_hex(&alpha), sc_hex(&v), el(&adds), el(&dels)),
                format!("{} {}", g1_hex(&acc_new.0), g1l(&coefs.iter().map(|c| c.0).collect::<Vec<_>>())),
            );
            em.oracle_case(&format!("acc {} {}", hi, bi));
            if acc_new.0 != g * v_new {
                em.violation("accumulator-update-value", "Accumulator::update value != V·∏A(α)/∏D(α)", json!({"alpha": sc_hex(&alpha), "v": sc_hex(&v), "adds": el(&adds), "dels": el(&dels)}));
            }
            apply_batch(&mut set, &adds, &dels);
            let coef_dl: Vec<Scalar> = coefs_sc.iter().map(|c| c.0 * v).collect();
            batches.push(Batch { adds, dels, coefs, coef_dl, v_old: v, v_new, acc_old: acc, acc_new });
            acc = acc_new;
            v = v_new;
        }
        em.count(&format!("batches={}", nb));
        em.count(if tracked_inside { "tracked=member" } else { "tracked=non-member" });
        if y_deleted_at.is_some() {
            em.count("tracked-deleted");
        }
        let replay_base = json!({"alpha": sc_hex(&alpha), "y": sc_hex(&y.0), "initial": el(&set0), "member": tracked_inside,
            "batches": batches.iter().map(|b| json!({"adds": el(&b.adds), "dels": el(&b.dels)})).collect::<Vec<_>>()});

        if tracked_inside {
            // from-scratch witnesses at every epoch (while y is a member)
            let w0 = MembershipWitness::new(y, acc0, &key);
            em.op(format!("vb.mwnew {} {} {}", sc_hex(&alpha), sc_hex(&y.0), sc_hex(&batches[0].v_old)), g1_hex(&w0.0));
            let c0 = batches[0].v_old * (y.0 + alpha).invert().unwrap();
            em.op(format!("vb.mwverify {} {} {} {}", sc_hex(&alpha), sc_hex(&y.0), sc_hex(&c0), sc_hex(&batches[0].v_old)), format!("{}", w0.verify(y, pk, acc0)));
            if !w0.verify(y, pk, acc0) {
                em.violation("fresh-witness-rejected", "MembershipWitness::new does not verify", replay_base.clone());
            }
            // every contiguous span [i, j) of batches, starting from the correct witness of epoch i
            for i in 0..nb {
                if y_deleted_at.map_or(false, |d| d < i) {
                    break;
                }
                let ci = batches[i].v_old * (y.0 + alpha).invert().unwrap();
                let wi = MembershipWitness(g * ci);
                // stepwise batch updates and multi-batch over [i, j)
                let mut w_step = wi;
                let mut c_step_known = Some(ci);
                for j in i..nb {
                    let b = &batches[j];
                    let deleted_in_span = y_deleted_at.map_or(false, |d| d >= i && d <= j);
                    // stepwise
                    let before = w_step;
                    w_step = w_step.batch_update(y, &b.adds, &b.dels, &b.coefs);
                    if let Some(cs) = c_step_known {
                        em.op(
                            format!("vb.mwbatch {} {} {} {} {}", sc_hex(&cs), sc_hex(&y.0), el(&b.adds), el(&b.dels), sl(&b.coef_dl)),
                            g1_hex(&w_step.0),
                        );
                    }
                    let _ = before;
                    // multi-batch in one call over [i, j]
                    let deltas: Vec<(Vec<Element>, Vec<Element>, Vec<Coefficient>)> =
                        batches[i..=j].iter().map(|b| (b.adds.clone(), b.dels.clone(), b.coefs.clone())).collect();
                    let mut wi2 = wi;
                    let w_multi = wi2.multi_batch_update(y, &deltas);
                    em.op(
                        format!(
                            "vb.mwmulti {} {} {}",
                            sc_hex(&ci),
                            sc_hex(&y.0),
                            batches[i..=j].iter().map(|b| format!("{};{};{}", el(&b.adds), el(&b.dels), sl(&b.coef_dl))).collect::<Vec<_>>().join(" ")
                        ),
                        g1_hex(&w_multi.0),
                    );
                    em.oracle_case(&format!("mw {} {} {}", hi, i, j));
                    let expect = if deleted_in_span { None } else { Some(g * (b.v_new * (y.0 + alpha).invert().unwrap())) };
                    match expect {
                        Some(e) => {
                            c_step_known = Some(b.v_new * (y.0 + alpha).invert().unwrap());
                            if w_step.0 != e || !w_step.verify(y, pk, b.acc_new) {
                                em.violation("batch-update-mismatch", format!("stepwise batch_update over batches {}..={} differs from the recomputed witness", i, j), replay_base.clone());
                            }
                            if w_multi.0 != e || !w_multi.verify(y, pk, b.acc_new) {
                                em.violation("multi-batch-update-mismatch", format!("multi_batch_update over batches {}..={} differs from the recomputed witness", i, j), replay_base.clone());
                            }
                        }
                        None if y.0 + alpha == Scalar::ONE => {
                            // y + α = 1: removing y multiplies the accumulator by 1 — "deleted" and "member" coincide
                            // (outside the generic-position hypothesis of the theorems; probability 1/r for a random key)
                            c_step_known = None;
                            em.count("degenerate:y+alpha=1");
                        }
                        None => {
                            c_step_known = None;
                            if w_step.verify(y, pk, b.acc_new) {
                                em.violation("deleted-element-batch-update-verifies", format!("batch_update gave a verifying witness for a deleted element (batches {}..={})", i, j), replay_base.clone());
                            }
                            if w_multi.verify(y, pk, b.acc_new) {
                                em.violation("deleted-element-multi-update-verifies", format!("multi_batch_update gave a verifying witness for a deleted element (batches {}..={})", i, j), replay_base.clone());
                            }
                        }
                    }
                }
                // single-step update over one batch
                let b = &batches[i];
                let w_single = wi.update(y, b.acc_old, b.acc_new, &b.adds, &b.dels);
                em.op(
                    format!("vb.mwupdate {} {} {} {} {} {}", sc_hex(&ci), sc_hex(&y.0), sc_hex(&b.v_old), sc_hex(&b.v_new), el(&b.adds), el(&b.dels)),
                    g1_hex(&w_single.0),
                );
                em.oracle_case(&format!("mwsingle {} {}", hi, i));
                let deleted = y_deleted_at == Some(i);
                if !deleted {
                    let e = g * (b.v_new * (y.0 + alpha).invert().unwrap());
                    if w_single.0 != e {
                        let sig = if b.adds.len() + b.dels.len() > 1 { "single-step-multi-element" } else { "single-step-update-mismatch" };
                        em.violation(sig, format!("MembershipWitness::update with {} additions and {} deletions in one call differs from the recomputed witness", b.adds.len(), b.dels.len()), replay_base.clone());
                    }
                } else if y.0 + alpha == Scalar::ONE {
                    em.count("degenerate:y+alpha=1");
                } else if w_single.verify(y, pk, b.acc_new) {
                    em.violation("deleted-element-single-update-verifies", "update gave a verifying witness for a deleted element", replay_base.clone());
                }
            }
        } else {
            // non-membership witness for y (never a member)
            let mut cur: Vec<Element> = set0.clone();
            let w0 = NonMembershipWitness::new(y, &cur, &key);
            let w0s = match &w0 {
                Some(w) => format!("{} {}", g1_hex(&w.c), sc_hex(&w.d)),
                None => "none".into(),
            };
            em.op(format!("vb.nmnew {} {} {}", sc_hex(&alpha), sc_hex(&y.0), el(&cur)), w0s);
            if let Some(w0) = w0 {
                em.oracle_case(&format!("nm {}", hi));
                if !w0.verify(y, pk, acc0) {
                    em.violation("fresh-nonmembership-rejected", "NonMembershipWitness::new does not verify", replay_base.clone());
                }
                // dlog of c: (v - d)/(y+α)
                let mut c_dl = (batches[0].v_old - w0.d) * (y.0 + alpha).invert().unwrap();
                let mut w = w0;
                for (j, b) in batches.iter().enumerate() {
                    let before = w;
                    w = w.batch_update(y, &b.adds, &b.dels, &b.coefs);
                    em.op(
                        format!("vb.nmbatch {} {} {} {} {} {}", sc_hex(&c_dl), sc_hex(&before.d), sc_hex(&y.0), el(&b.adds), el(&b.dels), sl(&b.coef_dl)),
                        format!("{} {}", g1_hex(&w.c), sc_hex(&w.d)),
                    );
                    for d in &b.dels {
                        let _ = d;
                    }
                    apply_batch(&mut cur, &b.adds, &b.dels);
                    let fresh = NonMembershipWitness::new(y, &cur, &key).unwrap();
                    em.op(format!("vb.nmnew {} {} {}", sc_hex(&alpha), sc_hex(&y.0), el(&cur)), format!("{} {}", g1_hex(&fresh.c), sc_hex(&fresh.d)));
                    em.op(
                        format!("vb.nmverify {} {} {} {} {}", sc_hex(&alpha), sc_hex(&y.0), sc_hex(&((b.v_new - fresh.d) * (y.0 + alpha).invert().unwrap())), sc_hex(&fresh.d), sc_hex(&b.v_new)),
                        format!("{}", fresh.verify(y, pk, b.acc_new)),
                    );
                    em.oracle_case(&format!("nm {} {}", hi, j));
                    if !w.verify(y, pk, b.acc_new) {
                        em.violation("nonmembership-batch-update-rejected", format!("non-membership batch_update through batch {} does not verify", j), replay_base.clone());
                    }
                    if w.c != fresh.c || w.d != fresh.d {
                        // d is only determined up to the verification equation when the set is reordered? no: d = ∏(e - y) is order independent
                        em.violation("nonmembership-batch-update-mismatch", format!("non-membership batch_update through batch {} differs from the recomputed witness", j), replay_base.clone());
                    }
                    c_dl = (b.v_new - w.d) * (y.0 + alpha).invert().unwrap();
                    // multi-batch from epoch 0
                    let deltas: Vec<(Vec<Element>, Vec<Element>, Vec<Coefficient>)> =
                        batches[0..=j].iter().map(|b| (b.adds.clone(), b.dels.clone(), b.coefs.clone())).collect();
                    let mut w00 = w0;
                    let wm = w00.multi_batch_update(y, &deltas);
                    let c0_dl = (batches[0].v_old - w0.d) * (y.0 + alpha).invert().unwrap();
                    em.op(
                        format!(
                            "vb.nmmulti {} {} {} {}",
                            sc_hex(&c0_dl),
                            sc_hex(&w0.d),
                            sc_hex(&y.0),
                            batches[0..=j].iter().map(|b| format!("{};{};{}", el(&b.adds), el(&b.dels), sl(&b.coef_dl))).collect::<Vec<_>>().join(" ")
                        ),
                        format!("{} {}", g1_hex(&wm.c), sc_hex(&wm.d)),
                    );
                    if wm.c != fresh.c || wm.d != fresh.d || !wm.verify(y, pk, b.acc_new) {
                        em.violation("nonmembership-multi-update-mismatch", format!("non-membership multi_batch_update over batches 0..={} differs from the recomputed witness", j), replay_base.clone());
                    }
                }
            }
        }
        if hi < 3 {
            em.sample(replay_base);
        }
    }
    large_batches(em, &mut rng.sub(1414));
}

/// batches longer than any block size (257 / 300 deletions, a few additions; thorough: also 513 and 1030): published
/// value, coefficients and the batch / multi-batch update of a tracked member against the secret-key recomputation
fn large_batches(em: &mut Emitter, rng: &mut Rng) {
    let g = G1Projective::GENERATOR;
    let sizes: Vec<usize> = if em.thorough() { vec![255, 256, 257, 300, 513, 1030, 1290] } else { vec![257, 1030] };
    for n in sizes {
        let alpha = rng.scalar();
        let key = SecretKey(alpha);
        let pk = PublicKey(G2Projective::GENERATOR * alpha);
        let members: Vec<Element> = (0..n + 2).map(|_| Element(rng.scalar())).collect();
        let y = members[n + 1];
        let acc0 = Accumulator::with_elements(&key, &members);
        let v0 = members.iter().fold(Scalar::ONE, |a, e| a * (e.0 + alpha));
        em.oracle_case(&format!("large-batch {}", n));
        em.count(&format!("large-batch:{}", n));
        let replay = json!({"alpha": sc_hex(&alpha), "batch_size": n});
        if acc0.0 != g * v0 {
            em.violation("with-elements-value", format!("Accumulator::with_elements over {} elements != G·∏(e+α)", n + 2), replay.clone());
            continue;
        }
        let dels: Vec<Element> = members[..n].to_vec();
        let adds: Vec<Element> = (0..3).map(|_| Element(rng.scalar())).collect();
        let (acc1, coefs) = acc0.update(&key, &adds, &dels);
        let v1 = v0 * adds.iter().fold(Scalar::ONE, |a, e| a * (e.0 + alpha)) * dels.iter().fold(Scalar::ONE, |a, e| a * (e.0 + alpha)).invert().unwrap();
        if acc1.0 != g * v1 {
            em.violation("accumulator-update-value", format!("Accumulator::update with {} deletions: value != V·∏A(α)/∏D(α)", n), replay.clone());
        }
        // the same deletions in blocks of 32 reach the same value
        let mut acc_b = acc0;
        let (a2, _) = acc_b.update(&key, &adds, &[]);
        acc_b = a2;
        for ch in dels.chunks(32) {
            let (a3, _) = acc_b.update(&key, &[], ch);
            acc_b = a3;
        }
        if acc_b.0 != acc1.0 {
            em.violation("accumulator-update-depends-on-batching", format!("{} deletions at once and in blocks of 32 give different values", n), replay.clone());
        }
        let w0 = MembershipWitness::new(y, acc0, &key);
        let want = MembershipWitness(g * (v1 * (y.0 + alpha).invert().unwrap()));
        let w1 = w0.batch_update(y, &adds, &dels, &coefs);
        if w1.0 != want.0 || !w1.verify(y, pk, acc1) {
            em.violation("batch-update-mismatch", format!("batch_update over a batch of {} deletions differs from the recomputed witness", n), replay.clone());
        }
        let mut w00 = w0;
        let wm = w00.multi_batch_update(y, &[(adds.clone(), dels.clone(), coefs.clone())]);
        if wm.0 != want.0 {
            em.violation("multi-batch-update-mismatch", format!("multi_batch_update over one batch of {} deletions differs from the recomputed witness", n), replay.clone());
        }
        // non-membership of a fresh element over the large sets: from scratch at both epochs, and publicly updated
        {
            let z = Element(rng.scalar());
            let set0: Vec<Element> = members.clone();
            let mut set1: Vec<Element> = members[n..].to_vec();
            set1.extend(adds.iter().cloned());
            match (NonMembershipWitness::new(z, &set0, &key), NonMembershipWitness::new(z, &set1, &key)) {
                (Some(n0), Some(n1)) => {
                    if !n0.verify(z, pk, acc0) {
                        em.violation("fresh-nonmembership-rejected", format!("NonMembershipWitness::new over {} elements does not verify", set0.len()), replay.clone());
                    }
                    if !n1.verify(z, pk, acc1) {
                        em.violation("fresh-nonmembership-rejected", format!("NonMembershipWitness::new over {} elements does not verify", set1.len()), replay.clone());
                    }
                    let up = n0.batch_update(z, &adds, &dels, &coefs);
                    if up.c != n1.c || up.d != n1.d {
                        em.violation("nonmembership-batch-update-mismatch", format!("non-membership batch_update over a batch of {} deletions differs from the recomputed witness", n), replay.clone());
                    }
                }
                _ => em.count("large-batch:nonmembership-new-failed"),
            }
        }
        // a deleted member's witness must not verify after the update
        let yd = members[n - 1];
        let wd = MembershipWitness::new(yd, acc0, &key).batch_update(yd, &adds, &dels, &coefs);
        if wd.verify(yd, pk, acc1) {
            em.violation("deleted-element-verifies", format!("the last element of a batch of {} deletions still has a verifying witness", n), replay.clone());
        }
    }
}
