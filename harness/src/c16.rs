//! C16: blind issuance — correctness for every blindable subset, issuer policy, tamper evidence, hiding.
use crate::common::*;
use crate::pres::*;
use credx::blind::BlindCredentialRequest;
use credx::claim::*;
use credx::issuer::{Issuer, IssuerPublic};
use credx::knox::accumulator::vb20::Element;
use credx::knox::short_group_sig_core::short_group_traits::{ShortGroupSignatureScheme, Signature as _};
use serde_json::{json, Value};
use std::collections::BTreeMap;

fn split_claims(all: &[ClaimData], labels: &[&str], hidden: &[String]) -> (BTreeMap<String, ClaimData>, BTreeMap<String, ClaimData>) {
    let mut h = BTreeMap::new();
    let mut k = BTreeMap::new();
    for (i, l) in labels.iter().enumerate() {
        if hidden.contains(&l.to_string()) {
            h.insert(l.to_string(), all[i].clone());
        } else {
            k.insert(l.to_string(), all[i].clone());
        }
    }
    (h, k)
}

/// recompute the context challenge as the issuer does, for a crafted context (adversary side)
fn ctx_challenge(suite: &str, pkv: &Value, pk_bytes: &[u8], points: &[G1Projective], proofs: &[Scalar], commitment: &G1Projective, nonce: &Scalar, challenge_for_msm: &Scalar) -> Scalar {
    let _ = pkv;
    let mut pts = points.to_vec();
    pts.push(*commitment);
    let mut sc = proofs.to_vec();
    sc.push(-*challenge_for_msm);
    let r = G1Projective::sum_of_products(&pts, &sc);
    let mut t = merlin::Transcript::new(b"new blind signature");
    t.append_message(b"public key", pk_bytes);
    if suite == "bbs" {
        t.append_message(b"generator", &G1Projective::GENERATOR.to_compressed());
    }
    t.append_message(b"random commitment", &r.to_affine().to_compressed());
    t.append_message(b"blind commitment", &commitment.to_affine().to_compressed());
    t.append_message(b"nonce", &nonce.to_be_bytes());
    let mut res = [0u8; 64];
    t.challenge_bytes(b"blind signature context challenge", &mut res);
    Scalar::from_bytes_wide(&res)
}

/// model tie: the issuer's context check on this request for these issuer-known indices — same shape decision
/// (error / wrong response count) and the same recomputed commitment, over the real generators as opaque bases
fn ctx_model_line<S: ShortGroupSignatureScheme>(em: &mut Emitter, suite: &str, public: &IssuerPublic<S>, issuer: &Issuer<S>, req: &BlindCredentialRequest<S>, known_idx: &[usize]) {
    use credx::knox::short_group_sig_core::short_group_traits::BlindSignatureContext as _;
    let pkv = serde_json::to_value(&public.verifying_key).unwrap_or(Value::Null);
    let gens: Vec<String> = pkv[if suite == "bbs" { "y" } else { "y_blinds" }].as_array().map(|a| a.iter().filter_map(|h| h.as_str().map(|s| s.to_string())).collect()).unwrap_or_default();
    let v = serde_json::to_value(req).unwrap_or(Value::Null);
    let ctx = &v["blind_signature_context"];
    let proofs: Vec<String> = ctx["proofs"].as_array().map(|a| a.iter().filter_map(|x| x.as_str().map(|s| s.to_string())).collect()).unwrap_or_default();
    let mut bases = gens.clone();
    let n_extra = if suite == "bbs" { 0 } else { 1 };
    if n_extra == 1 {
        bases.push(g1_hex_c(&G1Projective::GENERATOR));
    }
    bases.push(ctx["commitment"].as_str().unwrap_or("").to_string());
    merlin::vlog::take();
    merlin::vlog::enable(true);
    let r = call(|| req.blind_signature_context.verify(known_idx, &issuer.signing_key, req.nonce));
    merlin::vlog::enable(false);
    let log = merlin::vlog::take();
    let rc = log.iter().find(|e| e.kind == 0 && e.label == b"random commitment").map(|e| hexs(&e.data));
    let imp = match (&r, rc) {
        (Out::Err, _) => "err".to_string(),
        (Out::Panic(_), _) => "panic".to_string(),
        (Out::Ok(false), None) => "false".to_string(),
        (Out::Ok(_), Some(h)) => h,
        (Out::Ok(true), None) => "true-without-recomputation".to_string(),
    };
    // the context's own Fiat–Shamir transcript: which items the issuer hashed (the blind commitment — the statement of the
    // proof — must be among them), compared with the model's item list fed with the public key bytes, the commitment of
    // the request and the recomputed value
    if let (true, Some(rch)) = (r.is_ok(), log.iter().find(|e| e.kind == 0 && e.label == b"random commitment").map(|e| hexs(&e.data))) {
        let tid = log.iter().find(|e| e.kind == 0 && e.label == b"random commitment").map(|e| e.tid);
        let items: Vec<String> = log
            .iter()
            .filter(|e| Some(e.tid) == tid && e.kind == 0 && e.label != b"dom-sep")
            .map(|e| format!("{}={}", String::from_utf8_lossy(&e.label).replace(' ', "_"), if e.data.is_empty() { "-".to_string() } else { hexs(&e.data) }))
            .collect();
        // the bytes the suites hash are those of the key type's own (inherent) `to_bytes`, not of the trait method
        let pkt = serde_json::to_string(&public.verifying_key).unwrap_or_default();
        let pkb = if suite == "bbs" {
            serde_json::from_str::<credx::knox::bbs::PublicKey>(&pkt).map(|k| hexs(k.to_bytes().as_ref())).unwrap_or_else(|_| "-".into())
        } else {
            serde_json::from_str::<credx::knox::ps::PublicKey>(&pkt).map(|k| hexs(k.to_bytes().as_ref())).unwrap_or_else(|_| "-".into())
        };
        em.op(
            format!("bl.items {} {} {} {} {} {}", suite, pkb, g1_hex_c(&G1Projective::GENERATOR), rch, ctx["commitment"].as_str().unwrap_or("-"), sc_hex(&req.nonce)),
            items.join(" "),
        );
    }
    let j = |v: &[String]| if v.is_empty() { "-".to_string() } else { v.join(",") };
    em.op(
        format!("bl.verify {} {} {} {} {} {}", gens.len(), j(&known_idx.iter().map(|i| i.to_string()).collect::<Vec<_>>()), n_extra, j(&proofs), ctx["challenge"].as_str().unwrap_or("-"), j(&bases)),
        imp,
    );
}

fn run_suite<S: ShortGroupSignatureScheme>(em: &mut Emitter, base: &mut Rng, suite: &str) {
    use credx::knox::short_group_sig_core::short_group_traits::PublicKey as _;
    let off = if suite == "bbs" { 0 } else { 1 };
    for k in 0..em.n(10, 80) {
        if !em.mine(2 * k + off) {
            continue;
        }
        let rng = &mut base.sub((2 * k + off) as u64);
        let n_claims = 4 + rng.below(3) as usize;
        let labels: Vec<&str> = LABELS[..n_claims].to_vec();
        // blindable: a random non-empty subset of the non-revocation labels (alphabetical order differs from index order)
        let mut blindable: Vec<&str> = labels[1..].iter().cloned().filter(|_| rng.chance(2, 3)).collect();
        if blindable.is_empty() {
            blindable.push(labels[1]);
        }
        // the schema author may declare the blindable labels in any order (two scenarios out of three: not index order)
        if k % 3 != 0 {
            rng.shuffle(&mut blindable);
            if blindable.len() >= 2 && k % 3 == 1 {
                blindable.sort_by_key(|l| std::cmp::Reverse(labels.iter().position(|x| x == l).unwrap()));
            }
        }
        let schema = cred_schema(n_claims, &blindable);
        let (public, mut issuer): (IssuerPublic<S>, Issuer<S>) = Issuer::<S>::new(&schema);
        let all = claim_vector(rng, n_claims, &format!("blind-{}", k), "Blind Holder", 44);
        // every non-empty subset of the blindable labels
        let subsets: Vec<Vec<String>> = (1u32..(1 << blindable.len())).map(|m| blindable.iter().enumerate().filter(|(i, _)| m >> i & 1 == 1).map(|(_, l)| l.to_string()).collect()).collect();
        for (si, hidden) in subsets.iter().enumerate() {
            if !em.thorough() && subsets.len() > 7 && si % 2 == 1 {
                continue;
            }
          // the hidden claims with ordinary values, and with the values whose message scalar is zero where the type has one
          // (number −2^63, scalar 0): the commitment to the hidden messages may then be the identity / carry no message term
          for values in ["ordinary", "zero-encoded", "known-zero-encoded"] {
            let mut all_v = all.clone();
            if values != "ordinary" {
                let mut any = false;
                for (i, l) in labels.iter().enumerate() {
                    if hidden.iter().any(|h| h == l) == (values == "zero-encoded") {
                        match &all_v[i] {
                            ClaimData::Number(_) => {
                                all_v[i] = NumberClaim::from(isize::MIN).into();
                                any = true;
                            }
                            ClaimData::Scalar(_) => {
                                all_v[i] = ScalarClaim::from(Scalar::ZERO).into();
                                any = true;
                            }
                            _ => {}
                        }
                    }
                }
                if !any {
                    continue;
                }
                em.count(&format!("{}:zero-encoded-hidden-values", suite));
            }
            let all = &all_v;
            let (hc, kc) = split_claims(all, &labels, hidden);
            let mut kc = kc;
            kc.insert("id".into(), RevocationClaim::from(format!("blind-{}-{}-{}", k, si, values)).into());
            let mut all_i = all.clone();
            all_i[0] = kc["id"].clone();
            em.oracle_case(&format!("{} flow {} {:?} {}", suite, k, hidden, values));
            em.count(&format!("{}:hidden={}", suite, hidden.len()));
            let replay = json!({"suite": suite, "blindable": blindable, "hidden": hidden, "schema_labels": labels, "values": values, "claims": serde_json::to_value(&all_i).unwrap_or_default()});
            let flow = call(|| {
                let (req, blinder) = BlindCredentialRequest::<S>::new(&public, &hc)?;
                let bundle = issuer.blind_sign_credential(&req, &kc)?;
                bundle.to_unblinded(&hc, blinder)
            });
            match flow {
                Out::Ok(cb) => {
                    let msgs: Vec<Scalar> = all_i.iter().map(|c| c.to_scalar()).collect();
                    if cb.credential.claims != all_i {
                        em.violation("c16:unblinded-claims-differ", format!("{}: the unblinded credential's claim vector is not the union of known and hidden claims (hidden {:?})", suite, hidden), replay.clone());
                    } else if cb.credential.signature.verify(&public.verifying_key, &msgs).is_err() {
                        em.violation("c16:unblinded-signature-invalid", format!("{}: the unblinded signature does not verify on the union vector (hidden {:?})", suite, hidden), replay.clone());
                    }
                    let rid = match &all_i[0] {
                        ClaimData::Revocation(r) => r.value.clone(),
                        _ => String::new(),
                    };
                    if !cb.credential.revocation_handle.verify(Element::hash(rid.as_bytes()), cb.issuer.revocation_verifying_key, cb.issuer.revocation_registry) {
                        em.violation("c16:unblinded-handle-invalid", format!("{}: the blind-issued revocation handle does not verify", suite), replay.clone());
                    }
                }
                Out::Err => em.violation("c16:honest-blind-flow-failed", format!("{}: honest blind issuance failed for hidden labels {:?} (schema order {:?})", suite, hidden, labels), replay.clone()),
                Out::Panic(m) => em.violation("c16:blind-flow-panic", format!("{}: blind issuance panicked for hidden labels {:?}: {}", suite, hidden, m), replay.clone()),
            }
          }
        }
        // ---- deviating holders, on one subset
        let hidden: Vec<String> = vec![blindable[0].to_string()];
        let (hc, mut kc) = split_claims(&all, &labels, &hidden);
        let fresh_id = |kc: &mut BTreeMap<String, ClaimData>, tag: &str| {
            kc.insert("id".into(), RevocationClaim::from(format!("dev-{}-{}", k, tag)).into());
        };
        let mut try_request = |em: &mut Emitter, name: &str, req: &BlindCredentialRequest<S>, kc: &BTreeMap<String, ClaimData>, issuer: &mut Issuer<S>| {
            em.oracle_case(&format!("{} {} {}", suite, name, k));
            let r = call(|| issuer.blind_sign_credential(req, kc));
            em.count(&format!("{}:{}", name.split(' ').next().unwrap(), r.class()));
            match r {
                Out::Ok(_) => em.violation(&format!("c16:{}", name.split(' ').next().unwrap()), format!("{}: the issuer blind-signed a deviating request ({})", suite, name), json!({"suite": suite, "deviation": name, "request": serde_json::to_value(req).unwrap_or_default(), "known": serde_json::to_value(kc).unwrap_or_default(), "blindable": blindable})),
                Out::Panic(m) => em.violation(&format!("c16-panic:{}", name.split(' ').next().unwrap()), format!("{}: blind_sign_credential panicked ({}): {}", suite, name, m), json!({"suite": suite, "deviation": name})),
                Out::Err => {}
            }
        };
        let (honest_req, _b) = match BlindCredentialRequest::<S>::new(&public, &hc) {
            Ok(x) => x,
            Err(_) => continue,
        };
        // the public well-formedness check of a request accepts what the honest holder sends
        em.oracle_case(&format!("{} request-verify {}", suite, k));
        match call(|| honest_req.verify(&issuer)) {
            Out::Ok(()) => em.count("request.verify:honest-ok"),
            o => em.violation("c16:request-verify-rejects-honest", format!("{}: BlindCredentialRequest::verify returns {} for an honest request (blinded labels {:?})", suite, o.class(), hc.keys().collect::<Vec<_>>()), json!({"suite": suite, "request": serde_json::to_value(&honest_req).unwrap_or_default(), "labels": labels})),
        }
        // model tie of the issuer-side context check: honest request, wrong index sets, wrong response counts
        {
            let known_ix: Vec<usize> = (0..labels.len()).filter(|i| !hc.contains_key(&labels[*i].to_string())).collect();
            ctx_model_line(em, suite, &public, &issuer, &honest_req, &known_ix);
            let mut k2 = known_ix.clone();
            k2.push(labels.len());
            ctx_model_line(em, suite, &public, &issuer, &honest_req, &k2);
            if known_ix.len() > 1 {
                ctx_model_line(em, suite, &public, &issuer, &honest_req, &known_ix[1..]);
            }
            let all_ix: Vec<usize> = (0..labels.len()).collect();
            ctx_model_line(em, suite, &public, &issuer, &honest_req, &all_ix);
            ctx_model_line(em, suite, &public, &issuer, &honest_req, &[]);
            let v = serde_json::to_value(&honest_req).unwrap();
            for delta in [-1i32, 1, 2] {
                let mut v2 = v.clone();
                if let Some(a) = v2["blind_signature_context"]["proofs"].as_array_mut() {
                    if delta < 0 {
                        a.pop();
                    } else {
                        for _ in 0..delta {
                            a.push(json!(sc_hex(&rng.scalar())));
                        }
                    }
                }
                if let Ok(r2) = serde_json::from_str::<BlindCredentialRequest<S>>(&v2.to_string()) {
                    ctx_model_line(em, suite, &public, &issuer, &r2, &known_ix);
                }
            }
        }
        // D1: blind a claim that is not blindable (request built with the knox API directly)
        if let Some(nb) = labels[1..].iter().find(|l| !blindable.contains(l)) {
            let idx = labels.iter().position(|l| l == nb).unwrap();
            let nonce = rng.scalar();
            if let Ok((ctx, _)) = S::new_blind_signature_context(&[(idx, all[idx].to_scalar())], &public.verifying_key, nonce, rng.chacha()) {
                let req = BlindCredentialRequest::<S> { blind_signature_context: ctx, blind_claim_labels: vec![nb.to_string()], nonce };
                let (_, mut kc2) = split_claims(&all, &labels, &[nb.to_string()]);
                fresh_id(&mut kc2, "d1");
                try_request(em, "non-blindable-claim-blinded", &req, &kc2, &mut issuer);
            }
            // D1b: the same next to a genuinely blindable claim (a policy test on "some label is blindable" passes this)
            if let Some(bl) = blindable.first() {
                let ib = labels.iter().position(|l| l == bl).unwrap();
                let mut pairs = vec![(idx, all[idx].to_scalar()), (ib, all[ib].to_scalar())];
                pairs.sort_by_key(|(i, _)| *i);
                let nonce = rng.scalar();
                if let Ok((ctx, _)) = S::new_blind_signature_context(&pairs, &public.verifying_key, nonce, rng.chacha()) {
                    for order in [vec![bl.to_string(), nb.to_string()], vec![nb.to_string(), bl.to_string()]] {
                        let req = BlindCredentialRequest::<S> { blind_signature_context: ctx.clone(), blind_claim_labels: order.clone(), nonce };
                        let (_, mut kc2) = split_claims(&all, &labels, &order);
                        fresh_id(&mut kc2, "d1b");
                        try_request(em, "non-blindable-claim-blinded-with-a-blindable-one", &req, &kc2, &mut issuer);
                    }
                }
            }
        }
        // D0: a request that blinds nothing (the issuer supplies every claim): honest flow, then the commitment shifted by
        // δ·(generator of a claim the issuer supplies) — after unblinding that claim would be signed with δ added
        {
            let empty: BTreeMap<String, ClaimData> = BTreeMap::new();
            let (_, mut kall) = split_claims(&all, &labels, &[]);
            fresh_id(&mut kall, "d0");
            em.oracle_case(&format!("{} nothing-blinded {}", suite, k));
            if let Out::Ok((req0, blinder0)) = call(|| BlindCredentialRequest::<S>::new(&public, &empty)) {
                let honest = call(|| {
                    let bb = issuer.blind_sign_credential(&req0, &kall)?;
                    bb.to_unblinded(&empty, blinder0)
                });
                em.count(&format!("nothing-blinded:honest-{}", honest.class()));
                let pkv = serde_json::to_value(&public.verifying_key).unwrap_or_default();
                let v0 = serde_json::to_value(&req0).unwrap();
                for field in ["y_blinds", "y"] {
                    let gens: Vec<G1Projective> = pkv[field].as_array().map(|a| a.iter().filter_map(|h| h.as_str().and_then(g1_of_hex)).collect()).unwrap_or_default();
                    if gens.len() < labels.len() {
                        continue;
                    }
                    for ki in [1usize, labels.len() - 1] {
                        let mut v2 = v0.clone();
                        let c0 = v2["blind_signature_context"]["commitment"].as_str().and_then(g1_of_hex);
                        if let Some(c0) = c0 {
                            v2["blind_signature_context"]["commitment"] = json!(g1_hex_c(&(c0 + gens[ki] * Scalar::from(13u64))));
                            if let Ok(req2) = serde_json::from_str::<BlindCredentialRequest<S>>(&v2.to_string()) {
                                let mut k2 = kall.clone();
                                fresh_id(&mut k2, &format!("d0-{}-{}", field, ki));
                                try_request(em, &format!("nothing-blinded-commitment-shifted-on-a-known-claim {}[{}]", field, ki), &req2, &k2, &mut issuer);
                            }
                        }
                    }
                }
            } else {
                em.count("nothing-blinded:request-refused");
            }
        }
        // D0b: the same request answered twice with different issuer-supplied claims: the two blind signatures must not share
        // their randomised point (signatures sharing it combine into one on values the issuer never signed)
        {
            let mut k1 = kc.clone();
            let mut k2 = kc.clone();
            fresh_id(&mut k1, "d0b-1");
            fresh_id(&mut k2, "d0b-2");
            em.oracle_case(&format!("{} request-answered-twice {}", suite, k));
            if let (Out::Ok(b1), Out::Ok(b2)) = (call(|| issuer.blind_sign_credential(&honest_req, &k1)), call(|| issuer.blind_sign_credential(&honest_req, &k2))) {
                let (j1, j2) = (serde_json::to_value(&b1).unwrap_or_default(), serde_json::to_value(&b2).unwrap_or_default());
                let mut l1 = vec![];
                let mut l2 = vec![];
                leaves(&j1["credential"]["signature"], &mut vec![], &mut l1);
                leaves(&j2["credential"]["signature"], &mut vec![], &mut l2);
                for ((p1, a), (_, b)) in l1.iter().zip(l2.iter()) {
                    if leaf_kind(a) == LeafKind::G1 && a == b {
                        em.violation("c16:blind-signer-randomness-repeats", format!("{}: two blind signatures on one request with different issuer-supplied claims share the point {}", suite, p1.join("/")), json!({"suite": suite, "leaf": p1}));
                    }
                }
                em.count("request-answered-twice:compared");
            }
        }
        // D2: a label both blinded and supplied by the issuer (one known claim dropped to keep the count)
        {
            let mut kc2 = kc.clone();
            fresh_id(&mut kc2, "d2");
            kc2.insert(hidden[0].clone(), all[labels.iter().position(|l| *l == hidden[0]).unwrap()].clone());
            if let Some(drop) = labels[1..].iter().find(|l| **l != hidden[0]) {
                kc2.remove(*drop);
                try_request(em, "blinded-label-also-known", &honest_req, &kc2, &mut issuer);
            }
        }
        // D3: the same label listed twice so that another claim stays unsigned
        if let Some(skip) = labels[1..].iter().find(|l| **l != hidden[0]) {
            let mut req = honest_req.clone();
            req.blind_claim_labels.push(hidden[0].clone());
            let mut kc2 = kc.clone();
            fresh_id(&mut kc2, "d3");
            kc2.remove(*skip);
            try_request(em, "label-listed-twice", &req, &kc2, &mut issuer);
        }
        // D4: altered nonce / commitment / challenge / each response
        fresh_id(&mut kc, "d4");
        {
            let mut req = honest_req.clone();
            req.nonce += Scalar::ONE;
            try_request(em, "nonce-altered", &req, &kc, &mut issuer);
            let v = serde_json::to_value(&honest_req).unwrap();
            let mut ls = vec![];
            leaves(&v, &mut vec![], &mut ls);
            for (path, leaf) in ls.iter().filter(|(p, _)| p.first().map(|s| s.as_str()) == Some("blind_signature_context")) {
                let nv = match leaf_kind(leaf) {
                    LeafKind::Scalar => json!(sc_hex(&(sc_from_hex(leaf.as_str().unwrap()).unwrap() + Scalar::ONE))),
                    LeafKind::G1 => json!(g1_hex_c(&(g1_of_hex(leaf.as_str().unwrap()).unwrap() + G1Projective::GENERATOR))),
                    _ => continue,
                };
                let mut v2 = v.clone();
                *get_mut(&mut v2, path).unwrap() = nv;
                if let Ok(req2) = serde_json::from_str::<BlindCredentialRequest<S>>(&v2.to_string()) {
                    try_request(em, &format!("context-altered {}", path.join("/")), &req2, &kc, &mut issuer);
                }
            }
            // D5: response vectors of every length
            let honest_len = v["blind_signature_context"]["proofs"].as_array().map(|a| a.len()).unwrap_or(0);
            for len in 0..=honest_len + 2 {
                if len == honest_len {
                    continue;
                }
                let mut v2 = v.clone();
                let arr: Vec<Value> = (0..len).map(|i| v["blind_signature_context"]["proofs"].get(i).cloned().unwrap_or_else(|| json!(sc_hex(&rng.scalar())))).collect();
                v2["blind_signature_context"]["proofs"] = json!(arr);
                if let Ok(req2) = serde_json::from_str::<BlindCredentialRequest<S>>(&v2.to_string()) {
                    try_request(em, &format!("response-vector-length delta={}", len as i64 - honest_len as i64), &req2, &kc, &mut issuer);
                }
            }
            // D6: over-long vector with the challenge recomputed: a commitment with a component on an issuer-known
            //     generator (overriding the issuer's claim) and no knowledge of any opening
            let pkv = serde_json::to_value(&public.verifying_key).unwrap();
            let pk_bytes = public.verifying_key.to_bytes();
            let hidden_idx = labels.iter().position(|l| *l == hidden[0]).unwrap();
            let known_idx = (1..n_claims).find(|i| *i != hidden_idx).unwrap();
            let gens: Vec<G1Projective> = if suite == "bbs" {
                pkv["y"].as_array().unwrap().iter().map(|h| g1_of_hex(h.as_str().unwrap()).unwrap()).collect()
            } else {
                pkv["y_blinds"].as_array().unwrap().iter().map(|h| g1_of_hex(h.as_str().unwrap()).unwrap()).collect()
            };
            let mut points = vec![gens[hidden_idx]];
            if suite != "bbs" {
                points.push(G1Projective::GENERATOR);
            }
            let commitment = gens[hidden_idx] * rng.scalar() + gens[known_idx] * rng.scalar();
            for extra in 1..=2usize {
                let proofs: Vec<Scalar> = (0..points.len() + extra).map(|_| rng.scalar()).collect();
                let nonce = rng.scalar();
                // with one response too many the msm never reaches the challenge term: iterate to a fixed point
                let mut c = Scalar::ZERO;
                for _ in 0..3 {
                    c = ctx_challenge(suite, &pkv, &pk_bytes, &points, &proofs, &commitment, &nonce, &c);
                }
                let ctxv = json!({"commitment": g1_hex_c(&commitment), "challenge": sc_hex(&c), "proofs": proofs.iter().map(sc_hex).collect::<Vec<_>>()});
                let reqv = json!({"blind_signature_context": ctxv, "blind_claim_labels": [hidden[0]], "nonce": sc_hex(&nonce)});
                if let Ok(req2) = serde_json::from_str::<BlindCredentialRequest<S>>(&reqv.to_string()) {
                    try_request(em, &format!("overlong-forged-commitment extra={}", extra), &req2, &kc, &mut issuer);
                }
            }
            // D7: honest proof, then a component on a known generator added to the commitment
            let mut v2 = v.clone();
            let c0 = g1_of_hex(v["blind_signature_context"]["commitment"].as_str().unwrap()).unwrap();
            v2["blind_signature_context"]["commitment"] = json!(g1_hex_c(&(c0 + gens[known_idx] * rng.scalar())));
            if let Ok(req2) = serde_json::from_str::<BlindCredentialRequest<S>>(&v2.to_string()) {
                try_request(em, "component-on-known-generator", &req2, &kc, &mut issuer);
            }
        }
        // ---- hiding: can a guess of the hidden value be tested against the request?
        {
            let hidden_idx = labels.iter().position(|l| *l == hidden[0]).unwrap();
            let pkv = serde_json::to_value(&public.verifying_key).unwrap();
            let gens: Vec<G1Projective> = if suite == "bbs" {
                pkv["y"].as_array().unwrap().iter().map(|h| g1_of_hex(h.as_str().unwrap()).unwrap()).collect()
            } else {
                pkv["y_blinds"].as_array().unwrap().iter().map(|h| g1_of_hex(h.as_str().unwrap()).unwrap()).collect()
            };
            let v = serde_json::to_value(&honest_req).unwrap();
            let c0 = g1_of_hex(v["blind_signature_context"]["commitment"].as_str().unwrap()).unwrap();
            let m0 = all[hidden_idx].to_scalar();
            let m1 = m0 + Scalar::ONE;
            em.oracle_case(&format!("{} hiding {}", suite, k));
            let (t0, t1) = (c0 == gens[hidden_idx] * m0, c0 == gens[hidden_idx] * m1);
            if t0 != t1 {
                em.violation(
                    if suite == "bbs" { "c16:bbs-blind-commitment-deterministic" } else { "c16:blind-commitment-tests-guess" },
                    format!("{}: the request's commitment equals (generator · candidate) for the hidden value only: a guess of the blinded claim can be tested", suite),
                    json!({"suite": suite, "request": v}),
                );
            }
            // general form: D = C - Σ_hidden Y_i·m_i must not be a public multiple of the blinding generator
            // (0 = no blinding; s·f for a transmitted response s and f ∈ {1, 1/c, 1/(1+c), 1/(c-1), …} = a response
            // whose nonce is the secret itself or absent)
            {
                let ctx = &v["blind_signature_context"];
                let c = sc_from_hex(ctx["challenge"].as_str().unwrap_or("")).unwrap_or(Scalar::ZERO);
                let resp: Vec<Scalar> = ctx["proofs"].as_array().map(|a| a.iter().filter_map(|x| x.as_str().and_then(sc_from_hex)).collect()).unwrap_or_default();
                let mut factors = vec![Scalar::ONE, -Scalar::ONE];
                for d in [c, -c, c + Scalar::ONE, c - Scalar::ONE, -(c + Scalar::ONE), Scalar::ONE - c] {
                    if let Some(i) = Option::<Scalar>::from(d.invert()) {
                        factors.push(i);
                    }
                }
                let mut kappas = vec![Scalar::ZERO];
                for r in &resp {
                    for f in &factors {
                        kappas.push(*r * *f);
                    }
                }
                let hidden_ix: Vec<usize> = hidden.iter().map(|h| labels.iter().position(|l| l == h).unwrap()).collect();
                let sum_true: G1Projective = hidden_ix.iter().map(|i| gens[*i] * all[*i].to_scalar()).sum();
                for (wi, wrong) in hidden_ix.iter().enumerate() {
                    let sum_wrong = sum_true + gens[*wrong] * Scalar::ONE; // the same vector with one value + 1
                    let (d0, d1) = (c0 - sum_true, c0 - sum_wrong);
                    for (ki, kp) in kappas.iter().enumerate() {
                        let g = G1Projective::GENERATOR * *kp;
                        if (d0 == g) != (d1 == g) && !(suite == "bbs" && ki == 0) {
                            em.violation(
                                "c16:blind-request-tests-guess",
                                format!("{}: commitment minus the candidate's contribution is a publicly computable multiple of the generator (response {} of the context, factor {}): a guess of hidden claim {} can be tested", suite, if ki == 0 { 0 } else { (ki - 1) / factors.len() }, if ki == 0 { 0 } else { (ki - 1) % factors.len() }, wi),
                                json!({"suite": suite, "request": v, "hidden": hidden}),
                            );
                        }
                    }
                }
            }
            // two requests for the same values
            if let Ok((req2, _)) = BlindCredentialRequest::<S>::new(&public, &hc) {
                let v2 = serde_json::to_value(&req2).unwrap();
                if v2["blind_signature_context"]["commitment"] == v["blind_signature_context"]["commitment"] {
                    em.count(&format!("{}:same-commitment-twice", suite));
                }
            }
        }
        if k < 2 {
            em.sample(json!({"suite": suite, "labels": labels, "blindable": blindable, "subsets": subsets.len()}));
        }
    }
}

/// coins of the blind-request prover: the same random seed with two nonces gives one commitment and two
/// challenges; the recovered coins must be free of exact low-degree relations with each other and with the
/// secrets (hidden values, blinding factor)
fn blind_coin_relations<S: ShortGroupSignatureScheme>(em: &mut Emitter, rng: &mut Rng, suite: &str) {
    use rand_chacha::rand_core::SeedableRng;
    use std::num::NonZeroUsize;
    let mut previous: Vec<Scalar> = vec![];
    for k in 0..em.n(6, 40) {
        let n = 2 + rng.below(4) as usize;
        let (pk, _sk) = match S::new_keys(NonZeroUsize::new(n).unwrap(), rng.chacha()) {
            Ok(x) => x,
            Err(_) => continue,
        };
        let mut hidden: Vec<(usize, Scalar)> = vec![];
        for i in 0..n {
            if rng.coin() {
                hidden.push((i, rng.scalar()));
            }
        }
        if hidden.is_empty() {
            continue;
        }
        let seed = rng.seed32();
        let (n1, n2) = (rng.scalar(), rng.scalar());
        let run = |nonce: Scalar| S::new_blind_signature_context(&hidden, &pk, nonce, rand_chacha::ChaCha20Rng::from_seed(seed)).ok().map(|(ctx, b)| (serde_json::to_value(&ctx).unwrap_or(Value::Null), b));
        let ((j1, b1), (j2, _)) = match (run(n1), run(n2)) {
            (Some(a), Some(b)) => (a, b),
            _ => continue,
        };
        if j1["commitment"] != j2["commitment"] {
            em.count(&format!("{}:blind-commitment-not-reproducible", suite));
            continue;
        }
        let resp = |j: &Value| -> Vec<Scalar> { j["proofs"].as_array().map(|a| a.iter().filter_map(|x| x.as_str().and_then(sc_from_hex)).collect()).unwrap_or_default() };
        let (r1, r2) = (resp(&j1), resp(&j2));
        let (c1, c2) = match (j1["challenge"].as_str().and_then(sc_from_hex), j2["challenge"].as_str().and_then(sc_from_hex)) {
            (Some(a), Some(b)) if a != b => (a, b),
            _ => continue,
        };
        if r1.len() != r2.len() || r1.is_empty() {
            continue;
        }
        let dinv = (c1 - c2).invert().unwrap();
        let mut coins = vec![];
        let mut secrets: Vec<(String, Scalar)> = vec![("blinder".to_string(), b1)];
        for i in 0..r1.len() {
            let w = (r1[i] - r2[i]) * dinv;
            coins.push((format!("coin[{}]", i), r1[i] - c1 * w));
            secrets.push((format!("secret[{}]", i), w));
        }
        em.oracle_case(&format!("{} blind coins {}", suite, k));
        for r in coin_relations(&coins, &secrets, &previous) {
            em.violation("c16:blind-coins-related", format!("{}: the blind request prover's coins satisfy an exact relation: {} — the transmitted responses then give the secret away", suite, r), json!({"suite": suite, "relation": r, "context_1": j1, "context_2": j2}));
        }
        previous.extend(coins.iter().map(|(_, c)| *c));
    }
}

pub fn gen_c16(em: &mut Emitter, rng: &mut Rng) {
    em.rule = "schemas of 4..6 claims whose alphabetical label order differs from schema order, random blindable sets: the three-step flow for every \
               non-empty blindable subset (unblinded credential = union vector, signature and handle verify); deviating holders: non-blindable claim \
               blinded (knox API), label both blinded and known, label listed twice, nonce / commitment / challenge / each response altered, response \
               vectors of every length, over-long vector with recomputed challenge and a commitment carrying an issuer-known generator, known-generator \
               component added to an honest commitment; hiding: candidate test of the commitment, general request distinguisher, exact-relation test on the prover's coins recovered from two nonces under one random seed".into();
    run_suite::<Bbs>(em, rng, "bbs");
    run_suite::<Ps>(em, rng, "ps");
    if em.mine(2 * em.n(10, 80)) {
        blind_coin_relations::<Bbs>(em, &mut rng.sub(5001), "bbs");
        blind_coin_relations::<Ps>(em, &mut rng.sub(5002), "ps");
    }
}
