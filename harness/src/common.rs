//! Shared plumbing of the correspondence harness: PRNG, case emitter, panic capture,
//! evidence bookkeeping.
#![allow(dead_code)]

use serde_json::{json, Value};
use std::collections::{BTreeMap, BTreeSet};
use std::fmt::Write as _;
use std::panic::{catch_unwind, AssertUnwindSafe};

pub use blsful::inner_types::{Curve, Field, Group, GroupEncoding, PrimeField, G1Affine, G1Projective, G2Affine, G2Projective, Scalar};

/// SplitMix64 — every random choice of a run derives from `VERIF_SEED` through this.
#[derive(Clone)]
pub struct Rng(pub u64);

impl Rng {
    pub fn new(seed: u64) -> Self {
        Rng(seed ^ 0x9e37_79b9_7f4a_7c15)
    }
    pub fn next(&mut self) -> u64 {
        self.0 = self.0.wrapping_add(0x9e37_79b9_7f4a_7c15);
        let mut z = self.0;
        z = (z ^ (z >> 30)).wrapping_mul(0xbf58_476d_1ce4_e5b9);
        z = (z ^ (z >> 27)).wrapping_mul(0x94d0_49bb_1331_11eb);
        z ^ (z >> 31)
    }
    pub fn below(&mut self, n: u64) -> u64 {
        if n == 0 {
            0
        } else {
            self.next() % n
        }
    }
    pub fn range(&mut self, lo: i64, hi: i64) -> i64 {
        lo.wrapping_add(self.below((hi.wrapping_sub(lo) as u64).wrapping_add(1)) as i64)
    }
    pub fn coin(&mut self) -> bool {
        self.next() & 1 == 1
    }
    pub fn chance(&mut self, num: u64, den: u64) -> bool {
        self.below(den) < num
    }
    pub fn bytes(&mut self, n: usize) -> Vec<u8> {
        (0..n).map(|_| self.next() as u8).collect()
    }
    pub fn pick<'a, T>(&mut self, xs: &'a [T]) -> &'a T {
        &xs[self.below(xs.len() as u64) as usize]
    }
    pub fn fork(&mut self) -> Rng {
        Rng(self.next())
    }
    /// independent stream for scenario `k` (does not advance `self`): lets shards of one run
    /// generate exactly the scenarios a single process would
    pub fn sub(&self, k: u64) -> Rng {
        let mut r = Rng(self.0 ^ k.wrapping_mul(0xd6e8_feb8_6659_fd93).wrapping_add(0x1234_5678_9abc_def1));
        r.next();
        r.next();
        r
    }
    pub fn seed32(&mut self) -> [u8; 32] {
        let mut s = [0u8; 32];
        for c in s.chunks_mut(8) {
            c.copy_from_slice(&self.next().to_le_bytes());
        }
        s
    }
    pub fn scalar(&mut self) -> Scalar {
        let mut w = [0u8; 64];
        for c in w.chunks_mut(8) {
            c.copy_from_slice(&self.next().to_le_bytes());
        }
        Scalar::from_bytes_wide(&w)
    }
    pub fn chacha(&mut self) -> rand_chacha::ChaCha20Rng {
        use rand_core::SeedableRng;
        rand_chacha::ChaCha20Rng::from_seed(self.seed32())
    }
    pub fn shuffle<T>(&mut self, xs: &mut [T]) {
        for i in (1..xs.len()).rev() {
            let j = self.below(i as u64 + 1) as usize;
            xs.swap(i, j);
        }
    }
}

pub fn hexs(b: &[u8]) -> String {
    if b.is_empty() {
        "-".to_string()
    } else {
        hex::encode(b)
    }
}

pub fn unhex(s: &str) -> Vec<u8> {
    if s == "-" {
        vec![]
    } else {
        hex::decode(s).expect("hex")
    }
}

pub fn sc_hex(s: &Scalar) -> String {
    hex::encode(s.to_be_bytes())
}

pub fn sc_from_hex(h: &str) -> Option<Scalar> {
    let b = hex::decode(h).ok()?;
    let a: [u8; 32] = b.try_into().ok()?;
    Option::<Scalar>::from(Scalar::from_be_bytes(&a))
}

/// Outcome class of a call into the implementation.
pub enum Out<T> {
    Ok(T),
    Err,
    Panic(String),
}

impl<T> Out<T> {
    pub fn show(&self, f: impl Fn(&T) -> String) -> String {
        match self {
            Out::Ok(t) => format!("ok {}", f(t)),
            Out::Err => "err".into(),
            Out::Panic(_) => "panic".into(),
        }
    }
    pub fn class(&self) -> &'static str {
        match self {
            Out::Ok(_) => "ok",
            Out::Err => "err",
            Out::Panic(_) => "panic",
        }
    }
    pub fn is_ok(&self) -> bool {
        matches!(self, Out::Ok(_))
    }
    pub fn is_panic(&self) -> bool {
        matches!(self, Out::Panic(_))
    }
    pub fn as_ok(&self) -> Option<&T> {
        match self {
            Out::Ok(t) => Some(t),
            _ => None,
        }
    }
    pub fn ok(self) -> Option<T> {
        match self {
            Out::Ok(t) => Some(t),
            _ => None,
        }
    }
}

thread_local! {
    /// source location of the last panic on this thread (set by the hook, read by `call*`)
    pub static LAST_PANIC_AT: std::cell::RefCell<String> = std::cell::RefCell::new(String::new());
}

pub fn install_quiet_panic_hook() {
    let loud = std::env::var("VERIF_LOUD").is_ok();
    std::panic::set_hook(Box::new(move |info| {
        let at = info.location().map(|l| format!("{}:{}", l.file(), l.line())).unwrap_or_default();
        if loud {
            eprintln!("panic at {}: {:?}", at, info.payload().downcast_ref::<&str>().map(|s| s.to_string()).or_else(|| info.payload().downcast_ref::<String>().cloned()));
        }
        LAST_PANIC_AT.with(|l| *l.borrow_mut() = at);
    }));
}

/// file (without line) of the last panic, relative to the crate it is in
pub fn last_panic_site() -> (String, String) {
    let at = LAST_PANIC_AT.with(|l| l.borrow().clone());
    let file = at.rsplit_once(':').map(|x| x.0.to_string()).unwrap_or_default();
    let short = file.trim_start_matches("/repo/").to_string();
    (short, at)
}

fn panic_msg(e: Box<dyn std::any::Any + Send>) -> String {
    if let Some(s) = e.downcast_ref::<&str>() {
        s.to_string()
    } else if let Some(s) = e.downcast_ref::<String>() {
        s.clone()
    } else {
        "<panic>".into()
    }
}

/// Run a fallible implementation call, capturing panics.
pub fn call<T, E>(f: impl FnOnce() -> Result<T, E>) -> Out<T> {
    match catch_unwind(AssertUnwindSafe(f)) {
        Ok(Ok(t)) => Out::Ok(t),
        Ok(Err(_)) => Out::Err,
        Err(e) => Out::Panic(panic_msg(e)),
    }
}

/// Run an infallible implementation call, capturing panics.
pub fn call_total<T>(f: impl FnOnce() -> T) -> Out<T> {
    match catch_unwind(AssertUnwindSafe(f)) {
        Ok(t) => Out::Ok(t),
        Err(e) => Out::Panic(panic_msg(e)),
    }
}

pub fn call_opt<T>(f: impl FnOnce() -> Option<T>) -> Out<T> {
    match catch_unwind(AssertUnwindSafe(f)) {
        Ok(Some(t)) => Out::Ok(t),
        Ok(None) => Out::Err,
        Err(e) => Out::Panic(panic_msg(e)),
    }
}

/// A violation of the property's own oracle, observed on the real code.
#[derive(Clone)]
pub struct Violation {
    /// stable signature (attack / failing site), matched against known_findings.json
    pub signature: String,
    pub what: String,
    pub replay: Value,
}

/// Collects everything a generator run produces.
pub struct Emitter {
    pub property: String,
    pub tier: String,
    pub seed: u64,
    /// request lines for the Lean driver
    pub ops: Vec<String>,
    /// the implementation's canonical answer for each request line
    pub impl_out: Vec<String>,
    /// oracle evaluations (cases judged by the property's own oracle on the real code)
    pub oracle_evals: u64,
    pub nontrivial: BTreeSet<u64>,
    pub violations: Vec<Violation>,
    pub counters: BTreeMap<String, u64>,
    pub samples: Vec<Value>,
    pub notes: Vec<String>,
    pub rule: String,
    /// this process handles the scenarios `k` with `k % shard_n == shard_i` (env VERIF_SHARD = "i/n")
    pub shard_i: u64,
    pub shard_n: u64,
}

fn fnv(s: &str) -> u64 {
    let mut h: u64 = 0xcbf29ce484222325;
    for b in s.as_bytes() {
        h ^= *b as u64;
        h = h.wrapping_mul(0x100000001b3);
    }
    h
}

impl Emitter {
    pub fn new(property: &str, tier: &str, seed: u64) -> Self {
        Emitter {
            property: property.into(),
            tier: tier.into(),
            seed,
            ops: vec![],
            impl_out: vec![],
            oracle_evals: 0,
            nontrivial: BTreeSet::new(),
            violations: vec![],
            counters: BTreeMap::new(),
            samples: vec![],
            notes: vec![],
            rule: String::new(),
            shard_i: std::env::var("VERIF_SHARD").ok().and_then(|s| s.split('/').next().and_then(|x| x.parse().ok())).unwrap_or(0),
            shard_n: std::env::var("VERIF_SHARD").ok().and_then(|s| s.split('/').nth(1).and_then(|x| x.parse().ok())).unwrap_or(1).max(1),
        }
    }
    /// is scenario `k` handled by this shard?
    pub fn mine(&self, k: usize) -> bool {
        (k as u64) % self.shard_n == self.shard_i
    }
    pub fn thorough(&self) -> bool {
        self.tier == "thorough"
    }
    /// scale a quick-tier count for the thorough tier
    pub fn n(&self, quick: usize, thorough: usize) -> usize {
        if self.thorough() {
            thorough
        } else {
            quick
        }
    }
    /// one model/implementation comparison point
    pub fn op(&mut self, op: impl Into<String>, impl_answer: impl Into<String>) {
        let op = op.into();
        let a = impl_answer.into();
        debug_assert!(!op.contains('\n') && !a.contains('\n'));
        self.nontrivial.insert(fnv(&op));
        if self.samples.len() < 6 && (self.ops.len() % 97 == 0) {
            let cut = |s: &str| if s.len() > 400 { format!("{}… ({} chars)", &s[..400], s.len()) } else { s.to_string() };
            self.samples.push(json!({"op": cut(&op), "impl": cut(&a)}));
        }
        self.ops.push(op);
        self.impl_out.push(a);
    }
    pub fn count(&mut self, key: &str) {
        *self.counters.entry(key.to_string()).or_insert(0) += 1;
    }
    pub fn count_n(&mut self, key: &str, n: u64) {
        *self.counters.entry(key.to_string()).or_insert(0) += n;
    }
    /// one oracle-judged case (distinctness by `key`)
    pub fn oracle_case(&mut self, key: &str) {
        self.oracle_evals += 1;
        self.nontrivial.insert(fnv(key));
    }
    pub fn sample(&mut self, v: Value) {
        if self.samples.len() < 12 {
            self.samples.push(v);
        }
    }
    pub fn violation(&mut self, signature: &str, what: impl Into<String>, replay: Value) {
        // keep the first (smallest-index) witness per signature, count the rest
        self.count(&format!("violation:{}", signature));
        if !self.violations.iter().any(|v| v.signature == signature) {
            self.violations.push(Violation {
                signature: signature.into(),
                what: what.into(),
                replay,
            });
        }
    }
    pub fn write(&self, dir: &str) -> std::io::Result<()> {
        std::fs::create_dir_all(dir)?;
        let mut ops = String::new();
        for l in &self.ops {
            let _ = writeln!(ops, "{}", l);
        }
        std::fs::write(format!("{}/ops.txt", dir), ops)?;
        let mut im = String::new();
        for l in &self.impl_out {
            let _ = writeln!(im, "{}", l);
        }
        std::fs::write(format!("{}/impl.txt", dir), im)?;
        let v = json!({
            "property": self.property,
            "tier": self.tier,
            "seed": self.seed,
            "model_ops": self.ops.len(),
            "oracle_evals": self.oracle_evals,
            "distinct_nontrivial": self.nontrivial.len(),
            "rule": self.rule,
            "counters": self.counters,
            "samples": self.samples,
            "notes": self.notes,
            "violations": self.violations.iter().map(|v| json!({
                "signature": v.signature, "what": v.what, "replay": v.replay})).collect::<Vec<_>>(),
        });
        std::fs::write(
            format!("{}/gen.json", dir),
            serde_json::to_string_pretty(&v).unwrap(),
        )
    }
}

/// SHAKE-256 → 64 bytes → wide reduction (what `HashedClaim::to_scalar`, `Element::hash` … use)
pub fn shake_to_scalar(data: &[u8]) -> Scalar {
    use sha3::digest::{ExtendableOutput, Update, XofReader};
    let mut h = sha3::Shake256::default();
    h.update(data);
    let mut okm = [0u8; 64];
    h.finalize_xof().read(&mut okm);
    Scalar::from_bytes_wide(&okm)
}

/// exact algebraic relations of degree <= 2 among a prover's coins (and between coins and `others`: secrets,
/// constants): equal / opposite coins, a coin that is the sum, difference or product of two operands, a zero
/// coin, a coin seen in an earlier commitment. Each has probability ~ 1/r for honestly sampled coins.
pub fn coin_relations(coins: &[(String, Scalar)], others: &[(String, Scalar)], previous: &[Scalar]) -> Vec<String> {
    let mut found = vec![];
    let mut operands: Vec<(String, Scalar)> = coins.to_vec();
    operands.extend(others.iter().cloned());
    operands.push(("1".into(), Scalar::ONE));
    // inverses of the secrets / constants (a coin that is ±1/w, w/w', …): e.g. a randomiser r reused as the nonce of its own inverse
    for (n, v) in others.iter() {
        if let Some(inv) = Option::<Scalar>::from(v.invert()) {
            operands.push((format!("1/{}", n), inv));
        }
    }
    for (i, (ni, ci)) in coins.iter().enumerate() {
        if bool::from(ci.is_zero()) {
            found.push(format!("{}=0", ni));
        }
        for (a, (an, av)) in operands.iter().enumerate() {
            if a == i {
                continue;
            }
            if ci == av || *ci == -*av {
                found.push(format!("{}=±{}", ni, an));
            }
            for (b, (bn, bv)) in operands.iter().enumerate().skip(a + 1) {
                if b == i {
                    continue;
                }
                for (op, val) in [("*", *av * *bv), ("+", *av + *bv), ("-", *av - *bv)] {
                    if *ci == val || *ci == -val {
                        found.push(format!("{}=±({}{}{})", ni, an, op, bn));
                    }
                }
            }
        }
        if previous.contains(ci) {
            found.push(format!("{} repeats a coin of an earlier commitment", ni));
        }
    }
    found
}
