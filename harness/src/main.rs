#![allow(unused_imports)]
//! vharness — correspondence / search harness for the Lean model of anoncreds-v2-rs.
//!   vharness gen <PROPERTY> <tier> <seed> <outdir>    run the real code, write ops.txt / impl.txt / gen.json
//!   vharness judge <outdir>                           compare model.txt with impl.txt → judge.json
mod adv;
mod c01;
mod c02;
mod c03;
mod c05;
mod c07;
mod c08;
mod c10;
mod c11;
mod c15;
mod c16;
mod c06;
mod c19;
mod c20;
mod claims;
mod common;
mod dbg;
mod pres;
mod sigs;
mod issuer;
mod vb20;

use common::*;
use serde_json::json;

fn gen(prop: &str, tier: &str, seed: u64, out: &str) {
    install_quiet_panic_hook();
    let mut em = Emitter::new(prop, tier, seed);
    let mut rng = Rng::new(seed ^ fxhash(prop));
    match prop {
        "C18" => claims::gen_c18(&mut em, &mut rng),
        "C20" => {
            em.rule = "claim parsers / decoders: enumerated and mutated text, bytes and scalars, outcome class ok|err|panic compared with the model's Outcome; structural part: every delete / rename / retarget / retype / resize mutation of every key, index, reference and variant tag of honest presentations (→ verify), verifier schemas in several statement orders (→ create, verify), blind requests (→ blind_sign_credential), blind bundles (→ to_unblinded), inconsistent credential / known / hidden maps, and random + mutated byte strings for every serde decoder (CBOR, BARE, JSON), and the hand-written from_bytes codecs on truncated / extended frames and on out-of-field values in every aligned slot of a valid frame — no call may unwind".into();
            if em.mine(0) {
                claims::gen_c20_claims(&mut em, &mut rng);
            }
            c20::gen_c20_struct(&mut em, &mut rng);
            if em.mine(1) {
                c19::hand_codecs(&mut em, &mut rng.sub(500), "c20");
            }
            // well-formed schemas with several equality statements in every listing order
            c03::equality_graphs::<pres::Bbs>(&mut em, &mut rng.sub(501), "bbs");
            c03::equality_graphs::<pres::Ps>(&mut em, &mut rng.sub(502), "ps");
        }
        "C14" => vb20::gen_c14(&mut em, &mut rng),
        "C13" => issuer::gen_c13(&mut em, &mut rng),
        "C03" => c03::gen_c03(&mut em, &mut rng),
        "C17" => sigs::gen_c17(&mut em, &mut rng),
        "C02" => c02::gen_c02(&mut em, &mut rng),
        "C01" => c01::gen_c01(&mut em, &mut rng),
        "C11" => c11::gen_c11(&mut em, &mut rng),
        "C08" => c08::gen_c08(&mut em, &mut rng),
        "C05" => c05::gen_c05(&mut em, &mut rng),
        "C10" => c10::gen_c10(&mut em, &mut rng),
        "C07" => c07::gen_c07(&mut em, &mut rng),
        "C15" => c15::gen_c15(&mut em, &mut rng),
        "C16" => c16::gen_c16(&mut em, &mut rng),
        "C06" => c06::gen_c06(&mut em, &mut rng),
        "C19" => c19::gen_c19(&mut em, &mut rng),
        "C12" => c07::gen_c12(&mut em, &mut rng),
        "C09" => c05::gen_c09(&mut em, &mut rng),
        "C04" => c11::gen_c04(&mut em, &mut rng),
        _ => {
            eprintln!("unknown property {}", prop);
            std::process::exit(2);
        }
    }
    em.write(out).expect("write");
}

fn fxhash(s: &str) -> u64 {
    let mut h: u64 = 0xcbf29ce484222325;
    for b in s.as_bytes() {
        h ^= *b as u64;
        h = h.wrapping_mul(0x100000001b3);
    }
    h
}

/// rewrite the `@shake(<hex>)` (real hash-to-scalar) and `@g1(<scalar>)` (scalar·G1 generator,
/// compressed) tokens of a model line
fn canon_model_line(l: &str) -> String {
    let mut out = String::new();
    let mut rest = l;
    loop {
        let i = match rest.find('@') {
            Some(i) => i,
            None => break,
        };
        out.push_str(&rest[..i]);
        let tail = &rest[i..];
        let (name, arg, used) = match (tail.find('('), tail.find(')')) {
            (Some(a), Some(b)) if a < b => (&tail[1..a], &tail[a + 1..b], b + 1),
            _ => {
                out.push_str(tail);
                rest = "";
                break;
            }
        };
        match name {
            "shake" => {
                let data = if arg == "-" { vec![] } else { hex::decode(arg).unwrap_or_default() };
                out.push_str(&sc_hex(&shake_to_scalar(&data)));
            }
            "g1" => match sc_from_hex(arg) {
                Some(s) => out.push_str(&hex::encode((blsful::inner_types::G1Projective::GENERATOR * s).to_compressed())),
                None => out.push_str("<bad-scalar>"),
            },
            "g2" => match sc_from_hex(arg) {
                Some(s) => out.push_str(&hex::encode((G2Projective::GENERATOR * s).to_compressed())),
                None => out.push_str("<bad-scalar>"),
            },
            "g1mul" => {
                let mut it = arg.splitn(2, ',');
                let p = it.next().and_then(|h| hex::decode(h).ok()).and_then(|b| <[u8; 48]>::try_from(b).ok())
                    .and_then(|b| Option::<G1Affine>::from(G1Affine::from_compressed(&b)));
                let k = it.next().and_then(sc_from_hex);
                match (p, k) {
                    (Some(p), Some(k)) => out.push_str(&hex::encode((G1Projective::from(p) * k).to_compressed())),
                    _ => out.push_str("<bad-g1mul>"),
                }
            }
            "lin" | "gtlin" => {
                // Σ scalar·point over `hex:scalar;…`; `gtlin` pairs the sum with the G2 generator
                let mut acc = Some(G1Projective::IDENTITY);
                for term in arg.split(';') {
                    let mut it = term.splitn(2, ':');
                    let p = it.next().and_then(|h| hex::decode(h).ok()).and_then(|b| <[u8; 48]>::try_from(b).ok())
                        .and_then(|b| Option::<G1Affine>::from(G1Affine::from_compressed(&b)));
                    let k = it.next().and_then(sc_from_hex);
                    acc = match (acc, p, k) {
                        (Some(a), Some(p), Some(k)) => Some(a + G1Projective::from(p) * k),
                        _ => None,
                    };
                }
                match acc {
                    Some(a) if name == "lin" => out.push_str(&hex::encode(a.to_compressed())),
                    Some(a) => {
                        let gt = blsful::inner_types::pairing(&a.to_affine(), &G2Projective::GENERATOR.to_affine());
                        out.push_str(&hex::encode(gt.to_bytes().as_ref()));
                    }
                    None => out.push_str("<bad-lin>"),
                }
            }
            _ => out.push_str(&tail[..used]),
        }
        rest = &tail[used..];
    }
    out.push_str(rest);
    out
}

fn judge(dir: &str) {
    let rd = |n: &str| std::fs::read_to_string(format!("{}/{}", dir, n)).unwrap_or_default();
    let ops: Vec<String> = rd("ops.txt").lines().map(|s| s.to_string()).collect();
    let imp: Vec<String> = rd("impl.txt").lines().map(|s| s.to_string()).collect();
    let model: Vec<String> = rd("model.txt").lines().map(|s| s.to_string()).collect();
    let mut dis = vec![];
    let mut n_dis = 0u64;
    let mut bad_ops = 0u64;
    if model.len() != ops.len() {
        dis.push(json!({"op": "<stream>", "impl": format!("{} lines", ops.len()), "model": format!("{} lines", model.len())}));
        n_dis += 1;
    }
    for i in 0..ops.len().min(model.len()) {
        let m = canon_model_line(&model[i]);
        if m == "bad-op" {
            bad_ops += 1;
        }
        if m != imp[i] {
            n_dis += 1;
            if dis.len() < 40 {
                dis.push(json!({"index": i, "op": ops[i], "impl": imp[i], "model": m}));
            }
        }
    }
    let v = json!({"compared": ops.len().min(model.len()), "disagreements": n_dis, "bad_ops": bad_ops, "first": dis});
    std::fs::write(format!("{}/judge.json", dir), serde_json::to_string_pretty(&v).unwrap()).unwrap();
}

fn main() {
    let a: Vec<String> = std::env::args().collect();
    match a.get(1).map(|s| s.as_str()) {
        Some("gen") if a.len() == 6 => gen(&a[2], &a[3], a[4].parse().expect("seed"), &a[5]),
        Some("judge") if a.len() == 3 => judge(&a[2]),
        Some("dbg") => dbg::run(),
        _ => {
            eprintln!("usage: vharness gen <PROP> <tier> <seed> <outdir> | judge <outdir>");
            std::process::exit(2);
        }
    }
}
