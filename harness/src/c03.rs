//! C03: completeness of honest presentations (both suites, all statement kinds, serde round trips).
use crate::common::*;
use crate::pres::*;
use credx::knox::short_group_sig_core::short_group_traits::ShortGroupSignatureScheme;
use credx::presentation::{Presentation, PresentationSchema};
use credx::statement::Statements;
use serde_json::json;

fn run_suite<S: ShortGroupSignatureScheme>(em: &mut Emitter, base: &mut Rng, suite: &str, n: usize) {
    let off = if suite == "bbs" { 0 } else { 1 };
    for k in 0..n {
        if !em.mine(2 * k + off) {
            continue;
        }
        let rng = &mut base.sub((2 * k + off) as u64);
        let mix = Mix::random(rng, k % 4 == 0);
        let scn = Scn::<S>::build(rng, &mix);
        let key = format!("{} {}", suite, mix.describe());
        em.oracle_case(&key);
        for (_, kind) in &scn.stmt_ids {
            em.count(&format!("stmt:{}", kind));
        }
        em.count(&format!("{}:creds={}", suite, mix.n_creds));
        if k < 2 {
            em.sample(json!({"suite": suite, "mix": mix.describe()}));
        }
        let p = match scn.create() {
            Out::Ok(p) => p,
            Out::Err => {
                em.violation("honest-create-failed", format!("{}: Presentation::create failed on a well-formed true schema: {}", suite, mix.describe()), scn.replay(json!({"suite": suite})));
                continue;
            }
            Out::Panic(m) => {
                em.violation("honest-create-panicked", format!("{}: Presentation::create panicked ({}): {}", suite, m, mix.describe()), scn.replay(json!({"suite": suite})));
                continue;
            }
        };
        if !scn.verify(&p).is_ok() {
            em.violation("honest-verify-rejected", format!("{}: honest presentation rejected: {}", suite, mix.describe()), scn.replay(json!({"suite": suite})));
            continue;
        }
        // model: the validation logic of create and the plan stage of verify accept this (schema, credentials, presentation)
        if let Some(line) = create_line(&scn.credentials, &scn.schema) {
            em.op(line, "true");
        }
        em.op(plan_line(&scn.schema, &p, suite), plan_class(&p, &scn.schema, &scn.nonce).0);
        // the same statements listed in other orders (reversed: predicates before signatures, range before its
        // commitment; rotated): the order of a schema's statement list carries no meaning
        let sts: Vec<Statements<S>> = scn.schema.statements.values().cloned().collect();
        let mut orders: Vec<(&str, Vec<Statements<S>>)> = vec![("reversed", sts.iter().rev().cloned().collect())];
        if sts.len() > 2 {
            let r = 1 + rng.below(sts.len() as u64 - 1) as usize;
            let mut rot = sts.clone();
            rot.rotate_left(r);
            orders.push(("rotated", rot));
            // range statements first
            let mut rf: Vec<Statements<S>> = sts.iter().filter(|s| matches!(s, Statements::Range(_))).cloned().collect();
            if !rf.is_empty() {
                rf.extend(sts.iter().filter(|s| !matches!(s, Statements::Range(_))).cloned());
                orders.push(("range-first", rf));
            }
        }
        for (oname, st) in orders {
            let sch = PresentationSchema::new_with_id(&st, &scn.schema.id);
            em.oracle_case(&format!("{} order {}", key, oname));
            match call(|| Presentation::create(&scn.credentials, &sch, &scn.nonce)) {
                Out::Ok(q) => {
                    if !call(|| q.verify(&sch, &scn.nonce)).is_ok() {
                        em.violation("honest-verify-rejected:statement-order", format!("{}: honest presentation rejected when the statements are listed in {} order: {}", suite, oname, mix.describe()), json!({"suite": suite, "order": oname, "schema": serde_json::to_value(&sch).unwrap_or_default(), "mix": mix.describe()}));
                    }
                    em.op(plan_line(&sch, &q, suite), plan_class(&q, &sch, &scn.nonce).0);
                }
                o => em.violation("honest-create-failed:statement-order", format!("{}: Presentation::create {} when the statements are listed in {} order: {}", suite, o.class(), oname, mix.describe()), json!({"suite": suite, "order": oname, "mix": mix.describe()})),
            }
        }
        // encode / decode before verification
        let bare = serde_bare::to_vec(&p).unwrap();
        match call(|| serde_bare::from_slice::<Presentation<S>>(&bare)) {
            Out::Ok(q) if scn.verify(&q).is_ok() => {}
            _ => em.violation("bare-roundtrip-rejected", format!("{}: presentation rejected after a BARE round trip: {}", suite, mix.describe()), scn.replay(json!({"suite": suite}))),
        }
        let js = serde_json::to_string(&p).unwrap();
        match call(|| serde_json::from_str::<Presentation<S>>(&js)) {
            Out::Ok(q) if scn.verify(&q).is_ok() => {}
            _ => em.violation("json-roundtrip-rejected", format!("{}: presentation rejected after a JSON round trip: {}", suite, mix.describe()), scn.replay(json!({"suite": suite}))),
        }
        let cb = serde_cbor::to_vec(&p).unwrap();
        match call(|| serde_cbor::from_slice::<Presentation<S>>(&cb)) {
            Out::Ok(q) if scn.verify(&q).is_ok() => {}
            _ => em.violation("cbor-roundtrip-rejected", format!("{}: presentation rejected after a CBOR round trip: {}", suite, mix.describe()), scn.replay(json!({"suite": suite}))),
        }
    }
    // chained equality statements over three credentials, in both listing orders
    let rng = &mut base.sub(1_000_003 + off as u64);
    for order in [0, 1] {
        if em.shard_i != 0 {
            break;
        }
        use credx::statement::*;
        use indexmap::IndexMap;
        let mix = Mix { n_creds: 3, n_claims: 3, disclosed: vec![vec![], vec![], vec![]], equality: false, age: 20, ..Default::default() };
        let mut scn = Scn::<S>::build(rng, &Mix { equality: true, ..mix.clone() });
        // replace the single 3-way equality by two chained 2-way ones
        let mut stmts: Vec<Statements<S>> = scn.schema.statements.values().filter(|s| !matches!(s, Statements::Equality(_))).cloned().collect();
        let mk = |id: &str, a: usize, b: usize| {
            let mut m = IndexMap::new();
            m.insert(format!("sig{}", a), 1usize);
            m.insert(format!("sig{}", b), 1usize);
            Statements::<S>::from(EqualityStatement { id: id.into(), ref_id_claim_index: m })
        };
        let (e12, e23) = (mk("e12", 0, 1), mk("e23", 1, 2));
        if order == 0 {
            stmts.push(e12);
            stmts.push(e23);
        } else {
            stmts.push(e23);
            stmts.push(e12);
        }
        scn.schema = credx::presentation::PresentationSchema::new_with_id(&stmts, "chain");
        em.oracle_case(&format!("{} equality-chain order={}", suite, order));
        let ok = match scn.create() {
            Out::Ok(p) => scn.verify(&p).is_ok(),
            _ => false,
        };
        if !ok {
            em.violation("equality-chain-order", format!("{}: honest presentation with chained equality statements (listed {}) is not accepted", suite, if order == 0 { "e12,e23" } else { "e23,e12" }), scn.replay(json!({"suite": suite, "order": order})));
        }
    }
}

/// random graphs of equality statements over claims that all hold the same value (both hashed
/// positions of 2..3 credentials), statements listed in random order
pub fn equality_graphs<S: ShortGroupSignatureScheme>(em: &mut Emitter, base: &mut Rng, suite: &str) {
    use credx::claim::*;
    use credx::statement::*;
    use indexmap::IndexMap;
    let off = if suite == "bbs" { 0 } else { 1 };
    for k in 0..em.n(12, 200) {
        if !em.mine(2 * k + off) {
            continue;
        }
        let rng = &mut base.sub(2_000_000 + (2 * k + off) as u64);
        // fixed bridging patterns over four credentials first, then random graphs over 2..4 credentials
        let fixed: Vec<Vec<(usize, usize)>> = vec![vec![(0, 1), (2, 3), (1, 2)], vec![(0, 1), (2, 3), (2, 1)], vec![(0, 1), (2, 3), (0, 3)], vec![(2, 3), (0, 1), (1, 2), (0, 3)], vec![(0, 1), (1, 2), (2, 3)], vec![(0, 3), (1, 2), (3, 1)]];
        let n_creds = if k < fixed.len() { 4 } else { 2 + rng.below(3) as usize };
        let mix = Mix { n_creds, n_claims: 6, disclosed: (0..n_creds).map(|_| vec![]).collect(), age: 30, ..Default::default() };
        let mut scn = Scn::<S>::build(rng, &mix);
        for c in 0..n_creds {
            let mut claims = scn.bundles[c].credential.claims.clone();
            claims[0] = RevocationClaim::from(format!("g-{}-{}", k, c)).into();
            claims[1] = HashedClaim::from("John Doe").into();
            claims[5] = HashedClaim::from("John Doe").into();
            let b = scn.issuers[c].sign_credential(&claims).unwrap();
            scn.credentials.insert(scn.sig_ids[c].clone(), b.credential.clone().into());
            scn.bundles[c] = b;
        }
        let mut stmts: Vec<Statements<S>> = scn
            .schema
            .statements
            .values()
            .map(|s| match s {
                Statements::Signature(ss) => {
                    let mut t = (**ss).clone();
                    let idx = scn.sig_ids.iter().position(|x| x == &t.id).unwrap();
                    t.issuer = scn.bundles[idx].issuer.clone();
                    t.into()
                }
                o => o.clone(),
            })
            .collect();
        let n_eq = if k < fixed.len() { 0 } else { 2 + rng.below(4) as usize };
        let mut desc = vec![];
        if k < fixed.len() {
            for (e, (a, b)) in fixed[k].iter().enumerate() {
                let mut m = IndexMap::new();
                m.insert(scn.sig_ids[*a].clone(), 1usize);
                m.insert(scn.sig_ids[*b].clone(), 1usize);
                desc.push(format!("{:?}", m));
                stmts.push(EqualityStatement { id: format!("eq{}", e), ref_id_claim_index: m }.into());
            }
        }
        for e in 0..n_eq {
            let mut m = IndexMap::new();
            let mut order: Vec<usize> = (0..n_creds).collect();
            rng.shuffle(&mut order);
            let width = 2 + rng.below((n_creds - 1) as u64) as usize;
            for c in order.into_iter().take(width) {
                m.insert(scn.sig_ids[c].clone(), *rng.pick(&[1usize, 5]));
            }
            desc.push(format!("{:?}", m));
            stmts.push(EqualityStatement { id: format!("eq{}", e), ref_id_claim_index: m }.into());
        }
        scn.schema = credx::presentation::PresentationSchema::new_with_id(&stmts, "eqgraph");
        em.oracle_case(&format!("{} equality-graph {} {:?}", suite, k, desc));
        em.count("equality-graph");
        let ok = match scn.create() {
            Out::Ok(p) => scn.verify(&p).is_ok(),
            _ => false,
        };
        if !ok {
            em.violation("equality-graph-rejected", format!("{}: honest presentation over equal claims with equality statements {:?} is not accepted", suite, desc), scn.replay(json!({"suite": suite, "equalities": desc})));
        }
    }
}

pub fn gen_c03(em: &mut Emitter, rng: &mut Rng) {
    em.rule = "random well-formed scenarios (1..3 credentials from distinct issuers, 3..6 claims of all five types, random disclosure subsets, \
               statement graphs over revocation / membership / equality / commitment / range (all bound patterns) / verifiable encryption (with and \
               without scalar decryption) / encrypt-and-decrypt, shuffled statement order, nonces of length 0/1/16/32): honest create must succeed and \
               verify, also after BARE, JSON and CBOR round trips; distinct by (suite, mix)".into();
    let n = em.n(14, 400);
    run_suite::<Bbs>(em, rng, "bbs", n);
    run_suite::<Ps>(em, rng, "ps", n);
    equality_graphs::<Bbs>(em, rng, "bbs");
    equality_graphs::<Ps>(em, rng, "ps");
    // equal signed values in other representations / at other positions, schema taken from its wire form
    let base = 2 * n + 8;
    if em.mine(base) {
        crate::c05::c09_representations::<Bbs>(em, &mut rng.sub(9005), "bbs", "c03");
        crate::c05::equality_positions::<Bbs>(em, &mut rng.sub(9007), "bbs", "c03");
    }
    if em.mine(base + 1) {
        crate::c05::c09_representations::<Ps>(em, &mut rng.sub(9006), "ps", "c03");
        crate::c05::equality_positions::<Ps>(em, &mut rng.sub(9008), "ps", "c03");
    }
}
