//! C03: completeness of honest presentations (both suites, all statement kinds, serde round trips).
use crate::common::*;
use crate::pres::*;
use credx::knox::short_group_sig_core::short_group_traits::ShortGroupSignatureScheme;
use credx::presentation::{Presentation, PresentationSchema};
use credx::statement::Statements;
use serde_json::json;

fn run_suite<S: ShortGroupSignatureScheme>(em: &mut Emitter, base: &mut Rng, suite: &str, n: usize) {
    let off = if suite == "bbs" { 0 } else { 1 };
    for k in 0..n {
        if !em.mine(2 * k + off) {
            continue;
        }
        let rng = &mut base.sub((2 * k + off) as u64);
        let mix = Mix::random(rng, k % 4 == 0);
        let scn = Scn::<S>::build(rng, &mix);
        let key = format!("{} {}", suite, mix.describe());
        em.oracle_case(&key);
        for (_, kind) in &scn.stmt_ids {
            em.count(&format!("stmt:{}", kind));
        }
        em.count(&format!("{}:creds={}", suite, mix.n_creds));
        if k < 2 {
            em.sample(json!({"suite": suite, "mix": mix.describe()}));
        }
        let p = match scn.create() {
            Out::Ok(p) => p,
            Out::Err => {
                em.violation("honest-create-failed", format!("{}: Presentation::create failed on a well-formed true schema: {}", suite, mix.describe()), scn.replay(json!({"suite": suite})));
                continue;
            }
            Out::Panic(m) => {
                em.violation("honest-create-panicked", format!("{}: Presentation::create panicked ({}): {}", suite, m, mix.describe()), scn.replay(json!({"suite": suite})));
                continue;
            }
        };
        if !scn.verify(&p).is_ok() {
            em.violation("honest-verify-rejected", format!("{}: honest presentation rejected: {}", suite, mix.describe()), scn.replay(json!({"suite": suite})));
            continue;
        }
        // model: the validation logic of create and the plan stage of verify accept this (schema, credentials, presentation)
        if let Some(line) = create_line(&scn.credentials, &scn.schema) {
            em.op(line, "true");
        }
        if let Some((line, got)) = create_proofs_line(&scn.credentials, &scn.schema, Some(&p)) {
            em.op(line, got);
        }
        if let Some((line, got)) = markers_line(&scn.credentials, &scn.schema, &scn.nonce, &p) {
            em.op(line, got);
        }
        em.op(plan_line(&scn.schema, &p, suite), plan_class(&p, &scn.schema, &scn.nonce).0);
        // the same statements listed in other orders (reversed: predicates before signatures, range before its
        // commitment; rotated): the order of a schema's statement list carries no meaning
        let sts: Vec<Statements<S>> = scn.schema.statements.values().cloned().collect();
        let mut orders: Vec<(&str, Vec<Statements<S>>)> = vec![("reversed", sts.iter().rev().cloned().collect())];
        if sts.len() > 2 {
            let r = 1 + rng.below(sts.len() as u64 - 1) as usize;
            let mut rot = sts.clone();
            rot.rotate_left(r);
            orders.push(("rotated", rot));
            // range statements first
            let mut rf: Vec<Statements<S>> = sts.iter().filter(|s| matches!(s, Statements::Range(_))).cloned().collect();
            if !rf.is_empty() {
                rf.extend(sts.iter().filter(|s| !matches!(s, Statements::Range(_))).cloned());
                orders.push(("range-first", rf));
            }
        }
        for (oname, st) in orders {
            let sch = PresentationSchema::new_with_id(&st, &scn.schema.id);
            em.oracle_case(&format!("{} order {}", key, oname));
            match call(|| Presentation::create(&scn.credentials, &sch, &scn.nonce)) {
                Out::Ok(q) => {
                    if !call(|| q.verify(&sch, &scn.nonce)).is_ok() {
                        em.violation("honest-verify-rejected:statement-order", format!("{}: honest presentation rejected when the statements are listed in {} order: {}", suite, oname, mix.describe()), json!({"suite": suite, "order": oname, "schema": serde_json::to_value(&sch).unwrap_or_default(), "mix": mix.describe()}));
                    }
                    em.op(plan_line(&sch, &q, suite), plan_class(&q, &sch, &scn.nonce).0);
                    if let Some((line, got)) = create_proofs_line(&scn.credentials, &sch, Some(&q)) {
                        em.op(line, got);
                    }
                    if let Some((line, got)) = markers_line(&scn.credentials, &sch, &scn.nonce, &q) {
                        em.op(line, got);
                    }
                }
                o => em.violation("honest-create-failed:statement-order", format!("{}: Presentation::create {} when the statements are listed in {} order: {}", suite, o.class(), oname, mix.describe()), json!({"suite": suite, "order": oname, "mix": mix.describe()})),
            }
        }
        // encode / decode before verification
        let bare = serde_bare::to_vec(&p).unwrap();
        match call(|| serde_bare::from_slice::<Presentation<S>>(&bare)) {
            Out::Ok(q) if scn.verify(&q).is_ok() => {}
            _ => em.violation("bare-roundtrip-rejected", format!("{}: presentation rejected after a BARE round trip: {}", suite, mix.describe()), scn.replay(json!({"suite": suite}))),
        }
        let js = serde_json::to_string(&p).unwrap();
        match call(|| serde_json::from_str::<Presentation<S>>(&js)) {
            Out::Ok(q) if scn.verify(&q).is_ok() => {}
            _ => em.violation("json-roundtrip-rejected", format!("{}: presentation rejected after a JSON round trip: {}", suite, mix.describe()), scn.replay(json!({"suite": suite}))),
        }
        let cb = serde_cbor::to_vec(&p).unwrap();
        match call(|| serde_cbor::from_slice::<Presentation<S>>(&cb)) {
            Out::Ok(q) if scn.verify(&q).is_ok() => {}
            _ => em.violation("cbor-roundtrip-rejected", format!("{}: presentation rejected after a CBOR round trip: {}", suite, mix.describe()), scn.replay(json!({"suite": suite}))),
        }
    }
    // chained equality statements over three credentials, in both listing orders
    let rng = &mut base.sub(1_000_003 + off as u64);
    for order in [0, 1] {
        if em.shard_i != 0 {
            break;
        }
        use credx::statement::*;
        use indexmap::IndexMap;
        let mix = Mix { n_creds: 3, n_claims: 3, disclosed: vec![vec![], vec![], vec![]], equality: false, age: 20, ..Default::default() };
        let mut scn = Scn::<S>::build(rng, &Mix { equality: true, ..mix.clone() });
        // replace the single 3-way equality by two chained 2-way ones
        let mut stmts: Vec<Statements<S>> = scn.schema.statements.values().filter(|s| !matches!(s, Statements::Equality(_))).cloned().collect();
        let mk = |id: &str, a: usize, b: usize| {
            let mut m = IndexMap::new();
            m.insert(format!("sig{}", a), 1usize);
            m.insert(format!("sig{}", b), 1usize);
            Statements::<S>::from(EqualityStatement { id: id.into(), ref_id_claim_index: m })
        };
        let (e12, e23) = (mk("e12", 0, 1), mk("e23", 1, 2));
        if order == 0 {
            stmts.push(e12);
            stmts.push(e23);
        } else {
            stmts.push(e23);
            stmts.push(e12);
        }
        scn.schema = credx::presentation::PresentationSchema::new_with_id(&stmts, "chain");
        em.oracle_case(&format!("{} equality-chain order={}", suite, order));
        let ok = match scn.create() {
            Out::Ok(p) => scn.verify(&p).is_ok(),
            _ => false,
        };
        if !ok {
            em.violation("equality-chain-order", format!("{}: honest presentation with chained equality statements (listed {}) is not accepted", suite, if order == 0 { "e12,e23" } else { "e23,e12" }), scn.replay(json!({"suite": suite, "order": order})));
        }
    }
}

/// random graphs of equality statements over claims that all hold the same value (both hashed
/// positions of 2..3 credentials), statements listed in random order
pub fn equality_graphs<S: ShortGroupSignatureScheme>(em: &mut Emitter, base: &mut Rng, suite: &str) {
    use credx::claim::*;
    use credx::statement::*;
    use indexmap::IndexMap;
    let off = if suite == "bbs" { 0 } else { 1 };
    for k in 0..em.n(12, 200) {
        if !em.mine(2 * k + off) {
            continue;
        }
        let rng = &mut base.sub(2_000_000 + (2 * k + off) as u64);
        // fixed bridging patterns over four credentials first, then random graphs over 2..4 credentials
        let fixed: Vec<Vec<(usize, usize)>> = vec![vec![(0, 1), (2, 3), (1, 2)], vec![(0, 1), (2, 3), (2, 1)], vec![(0, 1), (2, 3), (0, 3)], vec![(2, 3), (0, 1), (1, 2), (0, 3)], vec![(0, 1), (1, 2), (2, 3)], vec![(0, 3), (1, 2), (3, 1)], vec![(0, 1), (0, 1), (1, 2)], vec![(0, 1), (0, 1), (1, 2), (2, 3)], vec![(0, 1), (2, 3), (1, 2), (0, 3)]];
        let n_creds = if k < fixed.len() { 4 } else { 2 + rng.below(3) as usize };
        let mix = Mix { n_creds, n_claims: 6, disclosed: (0..n_creds).map(|_| vec![]).collect(), age: 30, ..Default::default() };
        let mut scn = Scn::<S>::build(rng, &mix);
        for c in 0..n_creds {
            let mut claims = scn.bundles[c].credential.claims.clone();
            claims[0] = RevocationClaim::from(format!("g-{}-{}", k, c)).into();
            claims[1] = HashedClaim::from("John Doe").into();
            claims[5] = HashedClaim::from("John Doe").into();
            let b = scn.issuers[c].sign_credential(&claims).unwrap();
            scn.credentials.insert(scn.sig_ids[c].clone(), b.credential.clone().into());
            scn.bundles[c] = b;
        }
        let mut stmts: Vec<Statements<S>> = scn
            .schema
            .statements
            .values()
            .map(|s| match s {
                Statements::Signature(ss) => {
                    let mut t = (**ss).clone();
                    let idx = scn.sig_ids.iter().position(|x| x == &t.id).unwrap();
                    t.issuer = scn.bundles[idx].issuer.clone();
                    t.into()
                }
                o => o.clone(),
            })
            .collect();
        let n_eq = if k < fixed.len() { 0 } else { 2 + rng.below(4) as usize };
        let mut desc = vec![];
        if k < fixed.len() {
            for (e, (a, b)) in fixed[k].iter().enumerate() {
                let mut m = IndexMap::new();
                // odd patterns put the second statement on the other equal claim (two groups over the same pair, then a
                // statement that chains to the *earlier* group)
                let ci = if k % 2 == 1 && e == 1 { 5usize } else { 1usize };
                m.insert(scn.sig_ids[*a].clone(), ci);
                m.insert(scn.sig_ids[*b].clone(), ci);
                desc.push(format!("{:?}", m));
                stmts.push(EqualityStatement { id: format!("eq{}", e), ref_id_claim_index: m }.into());
            }
        }
        for e in 0..n_eq {
            let mut m = IndexMap::new();
            let mut order: Vec<usize> = (0..n_creds).collect();
            rng.shuffle(&mut order);
            let width = 2 + rng.below((n_creds - 1) as u64) as usize;
            for c in order.into_iter().take(width) {
                m.insert(scn.sig_ids[c].clone(), *rng.pick(&[1usize, 5]));
            }
            desc.push(format!("{:?}", m));
            stmts.push(EqualityStatement { id: format!("eq{}", e), ref_id_claim_index: m }.into());
        }
        scn.schema = credx::presentation::PresentationSchema::new_with_id(&stmts, "eqgraph");
        em.oracle_case(&format!("{} equality-graph {} {:?}", suite, k, desc));
        em.count("equality-graph");
        let ok = match scn.create() {
            Out::Ok(p) => scn.verify(&p).is_ok(),
            _ => false,
        };
        if !ok {
            em.violation("equality-graph-rejected", format!("{}: honest presentation over equal claims with equality statements {:?} is not accepted", suite, desc), scn.replay(json!({"suite": suite, "equalities": desc})));
        }
    }
}

fn expect_honest<S: ShortGroupSignatureScheme>(em: &mut Emitter, suite: &str, name: &str, scn: &Scn<S>) {
    em.oracle_case(&format!("{} edge {} {}", suite, name, scn.mix.describe()));
    em.count(&format!("edge:{}", name));
    match scn.create() {
        Out::Ok(p) => {
            if !scn.verify(&p).is_ok() {
                em.violation(&format!("honest-verify-rejected:{}", name), format!("{}: honest presentation rejected ({}): {}", suite, name, scn.mix.describe()), scn.replay(json!({"suite": suite, "case": name})));
                return;
            }
            em.op(plan_line(&scn.schema, &p, suite), plan_class(&p, &scn.schema, &scn.nonce).0);
            let js = serde_json::to_string(&p).unwrap();
            match call(|| serde_json::from_str::<Presentation<S>>(&js)) {
                Out::Ok(q) if scn.verify(&q).is_ok() => {}
                _ => em.violation(&format!("json-roundtrip-rejected:{}", name), format!("{}: presentation rejected after a JSON round trip ({})", suite, name), scn.replay(json!({"suite": suite, "case": name}))),
            }
            let bare = serde_bare::to_vec(&p).unwrap();
            match call(|| serde_bare::from_slice::<Presentation<S>>(&bare)) {
                Out::Ok(q) if scn.verify(&q).is_ok() => {}
                _ => em.violation(&format!("bare-roundtrip-rejected:{}", name), format!("{}: presentation rejected after a BARE round trip ({})", suite, name), scn.replay(json!({"suite": suite, "case": name}))),
            }
        }
        o => em.violation(&format!("honest-create-failed:{}", name), format!("{}: Presentation::create {} on a well-formed true schema ({}): {}", suite, o.class(), name, scn.mix.describe()), scn.replay(json!({"suite": suite, "case": name}))),
    }
}

/// value classes and sizes that random generation does not reach: claims whose message scalar is zero (scalar 0,
/// number −2^63) hidden / disclosed / under every predicate, the ends of the number domain, a credential with more
/// claims than any block size (40 … 128, the widest the library keys), six credentials under one equality statement
pub fn edge_value_flows<S: ShortGroupSignatureScheme>(em: &mut Emitter, rng: &mut Rng, suite: &str) {
    use credx::claim::*;
    use credx::credential::{ClaimSchema, CredentialSchema};
    use credx::issuer::Issuer;
    use credx::statement::*;
    let d = |v: &[&str]| vec![v.iter().map(|s| s.to_string()).collect::<Vec<String>>()];
    let mut cases: Vec<(&str, Mix)> = vec![
        ("zero-scalar-hidden", Mix { n_creds: 1, n_claims: 5, zero_ssn: true, disclosed: d(&["name"]), ..Default::default() }),
        ("zero-scalar-disclosed", Mix { n_creds: 1, n_claims: 5, zero_ssn: true, disclosed: d(&["ssn"]), ..Default::default() }),
        ("zero-scalar-commitment", Mix { n_creds: 1, n_claims: 5, zero_ssn: true, disclosed: d(&[]), commitment: Some(3), ..Default::default() }),
        ("zero-scalar-verenc", Mix { n_creds: 1, n_claims: 5, zero_ssn: true, disclosed: d(&[]), verenc: Some((3, false)), ..Default::default() }),
        ("zero-scalar-with-accumulators", Mix { n_creds: 1, n_claims: 5, zero_ssn: true, disclosed: d(&[]), revocation: true, membership: true, ..Default::default() }),
        ("min-number-hidden", Mix { n_creds: 1, n_claims: 4, age: i64::MIN, disclosed: d(&["name"]), ..Default::default() }),
        ("min-number-disclosed", Mix { n_creds: 1, n_claims: 4, age: i64::MIN, disclosed: d(&["age"]), ..Default::default() }),
        ("min-number-commitment", Mix { n_creds: 1, n_claims: 4, age: i64::MIN, disclosed: d(&[]), commitment: Some(2), ..Default::default() }),
        ("min-number-range", Mix { n_creds: 1, n_claims: 4, age: i64::MIN, disclosed: d(&[]), commitment: Some(2), range: Some((Some(i64::MIN), Some(i64::MIN + 5))), ..Default::default() }),
        ("min-number-range-upper-only", Mix { n_creds: 1, n_claims: 4, age: i64::MIN, disclosed: d(&[]), commitment: Some(2), range: Some((None, Some(0))), ..Default::default() }),
        ("max-number-range", Mix { n_creds: 1, n_claims: 4, age: i64::MAX, disclosed: d(&[]), commitment: Some(2), range: Some((Some(i64::MAX - 3), None)), ..Default::default() }),
        ("min-number-verenc", Mix { n_creds: 1, n_claims: 4, age: i64::MIN, disclosed: d(&[]), verenc: Some((2, false)), ..Default::default() }),
        ("everything-disclosed-3", Mix { n_creds: 1, n_claims: 3, age: 30, disclosed: d(&["id", "name", "age"]), ..Default::default() }),
        ("everything-disclosed-6", Mix { n_creds: 1, n_claims: 6, age: 30, disclosed: d(&["id", "name", "age", "ssn", "level", "city"]), ..Default::default() }),
        ("everything-disclosed-two-credentials", Mix { n_creds: 2, n_claims: 4, age: 30, disclosed: vec![vec!["id".into(), "name".into(), "age".into(), "ssn".into()], vec!["id".into(), "name".into(), "age".into(), "ssn".into()]], ..Default::default() }),
        ("all-but-one-disclosed", Mix { n_creds: 1, n_claims: 5, age: 30, disclosed: d(&["id", "name", "age", "ssn"]), ..Default::default() }),
        ("six-credentials-one-equality", Mix { n_creds: 6, n_claims: 3, age: 30, disclosed: vec![vec![]; 6], equality: true, ..Default::default() }),
    ];
    if em.thorough() {
        cases.push(("zero-scalar-verenc-decryptable", Mix { n_creds: 1, n_claims: 5, zero_ssn: true, disclosed: d(&[]), verenc: Some((3, true)), ..Default::default() }));
        cases.push(("zero-scalar-ved", Mix { n_creds: 1, n_claims: 5, zero_ssn: true, disclosed: d(&[]), ved: Some(3), ..Default::default() }));
        cases.push(("min-number-ved", Mix { n_creds: 1, n_claims: 4, age: i64::MIN, disclosed: d(&[]), ved: Some(2), ..Default::default() }));
    }
    for (name, mix) in cases {
        let scn = Scn::<S>::build(rng, &mix);
        expect_honest(em, suite, name, &scn);
    }
    // credentials with 40 … 128 claims (all five types in rotation), claims around multiples of 8 disclosed / committed
    for n in if em.thorough() { vec![40usize, 65, 127, 128] } else { vec![40usize, 128] } {
        let types = [ClaimType::Hashed, ClaimType::Number, ClaimType::Scalar, ClaimType::Enumeration];
        let mut cs = vec![ClaimSchema { claim_type: ClaimType::Revocation, label: "c0".into(), print_friendly: false, validators: vec![] }];
        for i in 1..n {
            cs.push(ClaimSchema { claim_type: types[i % 4], label: format!("c{}", i), print_friendly: types[i % 4] == ClaimType::Hashed, validators: vec![] });
        }
        let schema = CredentialSchema::new(Some("wide"), None, &[], &cs).unwrap();
        let (_public, mut issuer) = Issuer::<S>::new(&schema);
        let mut claims: Vec<ClaimData> = vec![RevocationClaim::from(format!("wide-{}-{}", n, rng.below(1 << 20))).into()];
        for i in 1..n {
            claims.push(match types[i % 4] {
                ClaimType::Hashed => HashedClaim::from(format!("text {}", i)).into(),
                ClaimType::Number => NumberClaim::from(i as isize * 7 - 100).into(),
                ClaimType::Scalar => ScalarClaim::from(rng.scalar()).into(),
                _ => EnumerationClaim { dst: format!("c{}", i), value: (i % 5) as u8, total_values: 5 }.into(),
            });
        }
        em.oracle_case(&format!("{} edge wide-credential {}", suite, n));
        em.count("edge:wide-credential");
        match call(|| issuer.sign_credential(&claims)) {
            Out::Ok(b) => {
                let sig = SignatureStatement { disclosed: ["c7", "c8", "c31", "c32", "c39"].iter().map(|s| s.to_string()).collect(), id: "sig0".to_string(), issuer: b.issuer.clone() };
                let rev = RevocationStatement { id: "rev0".into(), reference_id: "sig0".into(), accumulator: b.issuer.revocation_registry, verification_key: b.issuer.revocation_verifying_key, claim: 0 };
                let com = CommitmentStatement { id: "com0".into(), reference_id: "sig0".into(), message_generator: g1_from_dl(rng.scalar()), blinder_generator: g1_from_dl(rng.scalar()), claim: 33 };
                let rg = RangeStatement { id: "rng0".into(), reference_id: "com0".into(), signature_id: "sig0".into(), claim: 33, lower: Some(0), upper: Some(1000) };
                let ve = VerifiableEncryptionStatement { message_generator: G1Projective::GENERATOR, encryption_key: b.issuer.verifiable_encryption_key, id: "ve0".into(), reference_id: "sig0".into(), claim: 38, allow_message_decryption: false };
                let stmts: Vec<Statements<S>> = vec![sig.into(), rev.into(), com.into(), rg.into(), ve.into()];
                let schema = PresentationSchema::new_with_id(&stmts, "wide");
                let mut creds: indexmap::IndexMap<String, credx::presentation::PresentationCredential<S>> = indexmap::IndexMap::new();
                creds.insert("sig0".into(), b.credential.clone().into());
                let nonce = rng.bytes(16);
                let ok = match call(|| Presentation::create(&creds, &schema, &nonce)) {
                    Out::Ok(p) => {
                        let dm_ok = p.disclosed_messages.get("sig0").map(|m| m.len() == 5 && m.iter().all(|(l, c)| crate::claims::claim_str(c) == crate::claims::claim_str(&claims[l[1..].parse::<usize>().unwrap()]))).unwrap_or(false);
                        if !dm_ok {
                            em.violation("wide-credential-disclosure", format!("{}: presentation over a wide credential does not report the five requested claims with their signed values", suite), json!({"suite": suite, "n": n}));
                        }
                        call(|| p.verify(&schema, &nonce)).is_ok()
                    }
                    _ => false,
                };
                if !ok {
                    em.violation("honest-verify-rejected:wide-credential", format!("{}: honest presentation over a credential with {} claims is not created / accepted", suite, n), json!({"suite": suite, "n": n}));
                }
            }
            o => em.violation("wide-credential-issuance-failed", format!("{}: issuing a credential with {} claims failed ({})", suite, n, o.class()), json!({"suite": suite, "n": n})),
        }
    }
    // claims whose representation fields differ from what the credential schema declares for the position, but which the
    // issuer signs: text claims under `print_friendly: false`, byte claims (incl. non-UTF-8) under `print_friendly: true`,
    // an empty text. Whatever the issuer signed must be presentable, disclosed or hidden.
    for (pf_text, pf_bytes) in [(false, true), (true, false), (false, false), (true, true)] {
        let cs = vec![
            ClaimSchema { claim_type: ClaimType::Revocation, label: "id".into(), print_friendly: false, validators: vec![] },
            ClaimSchema { claim_type: ClaimType::Hashed, label: "text".into(), print_friendly: pf_text, validators: vec![] },
            ClaimSchema { claim_type: ClaimType::Hashed, label: "bytes".into(), print_friendly: pf_bytes, validators: vec![] },
            ClaimSchema { claim_type: ClaimType::Hashed, label: "empty".into(), print_friendly: pf_text, validators: vec![] },
            ClaimSchema { claim_type: ClaimType::Number, label: "n".into(), print_friendly: pf_bytes, validators: vec![] },
        ];
        let schema = match CredentialSchema::new(Some("repr"), None, &[], &cs) {
            Ok(s) => s,
            Err(_) => continue,
        };
        let (_public, mut issuer) = Issuer::<S>::new(&schema);
        let claims: Vec<ClaimData> = vec![
            RevocationClaim::from(format!("repr-{}", rng.below(1 << 20))).into(),
            HashedClaim::from("some text").into(),
            HashedClaim::from(vec![0xffu8, 0x00, 0x80, 0x41]).into(),
            HashedClaim::from("").into(),
            NumberClaim::from(-3).into(),
        ];
        let b = match call(|| issuer.sign_credential(&claims)) {
            Out::Ok(b) => b,
            o => {
                em.count(&format!("edge:representation-issuance-{}", o.class()));
                continue;
            }
        };
        for disclosed in [vec!["text", "bytes", "empty", "n"], vec!["text"], vec!["bytes"], vec![]] {
            em.oracle_case(&format!("{} edge representation pf_text={} pf_bytes={} disclosed={:?}", suite, pf_text, pf_bytes, disclosed));
            em.count("edge:representation");
            let sig = SignatureStatement { disclosed: disclosed.iter().map(|s| s.to_string()).collect(), id: "sig0".to_string(), issuer: b.issuer.clone() };
            let rev = RevocationStatement { id: "rev0".into(), reference_id: "sig0".into(), accumulator: b.issuer.revocation_registry, verification_key: b.issuer.revocation_verifying_key, claim: 0 };
            let stmts: Vec<Statements<S>> = vec![sig.into(), rev.into()];
            let pschema = PresentationSchema::new_with_id(&stmts, "repr");
            let mut creds: indexmap::IndexMap<String, credx::presentation::PresentationCredential<S>> = indexmap::IndexMap::new();
            creds.insert("sig0".into(), b.credential.clone().into());
            let nonce = rng.bytes(16);
            let ok = match call(|| Presentation::create(&creds, &pschema, &nonce)) {
                Out::Ok(p) => call(|| p.verify(&pschema, &nonce)).is_ok(),
                _ => false,
            };
            if !ok {
                em.violation(
                    "honest-verify-rejected:representation",
                    format!("{}: the issuer signed text / byte claims under a schema declaring print_friendly text={} bytes={}, but the honest presentation disclosing {:?} is not created / accepted", suite, pf_text, pf_bytes, disclosed),
                    json!({"suite": suite, "pf_text": pf_text, "pf_bytes": pf_bytes, "disclosed": disclosed}),
                );
            }
        }
    }
}

/// credentials obtained through the blind issuance flow (hidden link secret / several hidden claims) present like any other
pub fn blind_issued_flows<S: ShortGroupSignatureScheme>(em: &mut Emitter, rng: &mut Rng, suite: &str) {
    use credx::blind::BlindCredentialRequest;
    use credx::claim::*;
    use credx::issuer::Issuer;
    use credx::statement::*;
    use std::collections::BTreeMap;
    for (case, blindable) in [("one-hidden", vec!["ssn"]), ("two-hidden", vec!["name", "ssn"]), ("number-hidden", vec!["age"])] {
        let n_claims = 5;
        let schema = cred_schema(n_claims, &blindable);
        let (public, mut issuer) = Issuer::<S>::new(&schema);
        let rid = format!("blind-{}-{}", case, rng.below(1 << 20));
        let claims = claim_vector(rng, n_claims, &rid, "Blind Holder", 41);
        let mut hidden = BTreeMap::new();
        let mut known = BTreeMap::new();
        for (i, l) in LABELS[..n_claims].iter().enumerate() {
            if blindable.contains(l) {
                hidden.insert(l.to_string(), claims[i].clone());
            } else {
                known.insert(l.to_string(), claims[i].clone());
            }
        }
        em.oracle_case(&format!("{} blind-issued {}", suite, case));
        em.count(&format!("edge:blind-issued-{}", case));
        let bundle = match call(|| {
            let (req, blinder) = BlindCredentialRequest::<S>::new(&public, &hidden)?;
            let bb = issuer.blind_sign_credential(&req, &known)?;
            bb.to_unblinded(&hidden, blinder)
        }) {
            Out::Ok(b) => b,
            o => {
                em.violation("blind-issuance-failed", format!("{}: honest blind issuance {} ({})", suite, o.class(), case), json!({"suite": suite, "case": case}));
                continue;
            }
        };
        // disclose one claim, keep a blind-issued one hidden, revocation statement, commitment on a blind-issued claim
        let hid_idx = LABELS.iter().position(|l| *l == blindable[0]).unwrap();
        let sig = SignatureStatement { disclosed: ["city".to_string()].into_iter().collect(), id: "sig0".to_string(), issuer: bundle.issuer.clone() };
        let rev = RevocationStatement { id: "rev0".into(), reference_id: "sig0".into(), accumulator: bundle.issuer.revocation_registry, verification_key: bundle.issuer.revocation_verifying_key, claim: 0 };
        let com = CommitmentStatement { id: "com0".into(), reference_id: "sig0".into(), message_generator: g1_from_dl(rng.scalar()), blinder_generator: g1_from_dl(rng.scalar()), claim: hid_idx };
        for (variant, stmts) in [
            ("signature-only", vec![Statements::<S>::from(sig.clone())]),
            ("with-revocation-and-commitment", vec![sig.clone().into(), rev.clone().into(), com.clone().into()]),
        ] {
            let schema = PresentationSchema::new_with_id(&stmts, "blind");
            let mut creds: indexmap::IndexMap<String, credx::presentation::PresentationCredential<S>> = indexmap::IndexMap::new();
            creds.insert("sig0".into(), bundle.credential.clone().into());
            for nonce in [vec![], rng.bytes(16)] {
                let ok = match call(|| Presentation::create(&creds, &schema, &nonce)) {
                    Out::Ok(p) => call(|| p.verify(&schema, &nonce)).is_ok(),
                    _ => false,
                };
                if !ok {
                    em.violation("honest-verify-rejected:blind-issued", format!("{}: honest presentation of a blind-issued credential ({}, {}) is not created / accepted", suite, case, variant), json!({"suite": suite, "case": case, "variant": variant}));
                }
            }
        }
    }
}

/// statements in an order of *calls* on one fresh thread: a one-sided range statement first and a two-sided one after it,
/// and the reverse on another thread — whatever a thread has processed before must not matter
pub fn call_order_flows<S: ShortGroupSignatureScheme + 'static>(em: &mut Emitter, rng: &mut Rng, suite: &str, tag: &str) {
    let seeds: Vec<u64> = (0..2).map(|_| rng.next()).collect();
    for (oi, order) in [["lower-only", "two-sided", "upper-only"], ["two-sided", "upper-only", "lower-only"]].iter().enumerate() {
        let order: Vec<String> = order.iter().map(|s| s.to_string()).collect();
        let suite_s = suite.to_string();
        let seed = seeds[oi];
        let res = std::thread::spawn(move || {
            let mut rng = Rng::new(seed);
            let mut out: Vec<(String, bool)> = vec![];
            for shape in &order {
                let age = rng.range(20, 60);
                let range = match shape.as_str() {
                    "lower-only" => (Some(age - 5), None),
                    "upper-only" => (None, Some(age + 5)),
                    _ => (Some(age - 5), Some(age + 5)),
                };
                let mix = Mix { n_creds: 1, n_claims: 3, age, disclosed: vec![vec![]], commitment: Some(2), range: Some(range), ..Default::default() };
                let scn = Scn::<S>::build(&mut rng, &mix);
                let ok = match scn.create() {
                    Out::Ok(p) => scn.verify(&p).is_ok(),
                    _ => false,
                };
                out.push((shape.clone(), ok));
                // the same statements listed range-first / signature-last
                let sts: Vec<Statements<S>> = scn.schema.statements.values().cloned().collect();
                for (oname, st) in [("reversed", sts.iter().rev().cloned().collect::<Vec<_>>()), ("range-commitment-signature", { let mut v = sts.clone(); v.rotate_left(1); v.swap(0, 1); v })] {
                    let sch = PresentationSchema::new_with_id(&st, &scn.schema.id);
                    let ok2 = match call(|| Presentation::create(&scn.credentials, &sch, &scn.nonce)) {
                        Out::Ok(p) => call(|| p.verify(&sch, &scn.nonce)).is_ok(),
                        _ => false,
                    };
                    out.push((format!("{} ({} order)", shape, oname), ok2));
                }
            }
            let _ = suite_s;
            out
        })
        .join();
        em.oracle_case(&format!("{} call-order {}", suite, oi));
        match res {
            Ok(out) => {
                for (i, (shape, ok)) in out.iter().enumerate() {
                    em.count(&format!("call-order:{}:{}", shape, ok));
                    if !ok {
                        em.violation(&format!("{}:in-range-rejected:call-order", tag), format!("{}: an in-range {} statement is not created / accepted as call #{} of a fresh thread (earlier calls: {:?})", suite, shape, i + 1, out[..i].iter().map(|x| x.0.clone()).collect::<Vec<_>>()), json!({"suite": suite, "order": out.iter().map(|x| x.0.clone()).collect::<Vec<_>>() }));
                    }
                }
            }
            Err(_) => em.violation(&format!("{}:in-range-panicked:call-order", tag), format!("{}: a sequence of in-range range statements panicked on a fresh thread", suite), json!({"suite": suite})),
        }
    }
}

pub fn gen_c03(em: &mut Emitter, rng: &mut Rng) {
    em.rule = "random well-formed scenarios (1..3 credentials from distinct issuers, 3..6 claims of all five types, random disclosure subsets, \
               statement graphs over revocation / membership / equality / commitment / range (all bound patterns) / verifiable encryption (with and \
               without scalar decryption) / encrypt-and-decrypt, shuffled statement order, nonces of length 0/1/16/32): honest create must succeed and \
               verify, also after BARE, JSON and CBOR round trips; distinct by (suite, mix); edge value classes: zero-scalar claims (scalar 0, number −2^63) hidden / disclosed / under each predicate, \
               ends of the number domain, 40- and 128-claim credentials, six credentials under one equality statement".into();
    let n = em.n(14, 400);
    run_suite::<Bbs>(em, rng, "bbs", n);
    run_suite::<Ps>(em, rng, "ps", n);
    equality_graphs::<Bbs>(em, rng, "bbs");
    equality_graphs::<Ps>(em, rng, "ps");
    // equal signed values in other representations / at other positions, schema taken from its wire form
    let base = 2 * n + 8;
    if em.mine(base + 2) {
        edge_value_flows::<Bbs>(em, &mut rng.sub(9101), "bbs");
    }
    if em.mine(base + 3) {
        edge_value_flows::<Ps>(em, &mut rng.sub(9102), "ps");
    }
    if em.mine(base + 5) {
        blind_issued_flows::<Bbs>(em, &mut rng.sub(9105), "bbs");
        blind_issued_flows::<Ps>(em, &mut rng.sub(9106), "ps");
    }
    if em.mine(base + 6) {
        call_order_flows::<Bbs>(em, &mut rng.sub(9107), "bbs", "c03");
        call_order_flows::<Ps>(em, &mut rng.sub(9108), "ps", "c03");
    }
    if em.mine(base + 4) {
        crate::c06::revocation_claim_position::<Bbs>(em, &mut rng.sub(9103), "bbs", "c03");
        crate::c06::revocation_claim_position::<Ps>(em, &mut rng.sub(9104), "ps", "c03");
    }
    if em.mine(base) {
        crate::c05::c09_representations::<Bbs>(em, &mut rng.sub(9005), "bbs", "c03");
        crate::c05::equality_positions::<Bbs>(em, &mut rng.sub(9007), "bbs", "c03");
    }
    if em.mine(base + 1) {
        crate::c05::c09_representations::<Ps>(em, &mut rng.sub(9006), "ps", "c03");
        crate::c05::equality_positions::<Ps>(em, &mut rng.sub(9008), "ps", "c03");
    }
}
