//! C20 (structural part): structurally valid but inconsistent presentations, schemas, blind requests and
//! bundles, and corrupted encodings for every decoder — every entry point must return, never unwind.
use crate::common::*;
use crate::pres::*;
use credx::blind::{BlindCredentialBundle, BlindCredentialRequest};
use credx::claim::*;
use credx::credential::CredentialBundle;
use credx::issuer::{Issuer, IssuerPublic};
use credx::knox::short_group_sig_core::short_group_traits::ShortGroupSignatureScheme;
use credx::presentation::{Presentation, PresentationSchema};
use serde::de::DeserializeOwned;
use serde::Serialize;
use serde_json::{json, Map, Value};
use std::collections::BTreeMap;

/// all node paths of a JSON value (inner nodes included), with a cap on long homogeneous arrays
fn nodes(v: &Value, path: &mut Vec<String>, out: &mut Vec<Vec<String>>) {
    if !path.is_empty() {
        out.push(path.clone());
    }
    match v {
        Value::Object(m) => {
            for (k, x) in m {
                path.push(k.clone());
                nodes(x, path, out);
                path.pop();
            }
        }
        Value::Array(a) => {
            // long arrays of leaves (response vectors, byte arrays): first, second and last element only
            let leafy = a.len() > 6 && a.iter().all(|x| !x.is_object() && !x.is_array());
            for (i, x) in a.iter().enumerate() {
                if leafy && i > 1 && i + 1 != a.len() {
                    continue;
                }
                path.push(i.to_string());
                nodes(x, path, out);
                path.pop();
            }
        }
        _ => {}
    }
}

fn get<'a>(v: &'a Value, path: &[String]) -> Option<&'a Value> {
    let mut cur = v;
    for p in path {
        cur = match cur {
            Value::Object(m) => m.get(p)?,
            Value::Array(a) => a.get(p.parse::<usize>().ok()?)?,
            _ => return None,
        };
    }
    Some(cur)
}

fn remove(v: &mut Value, path: &[String]) -> Option<Value> {
    let (last, parent) = path.split_last()?;
    match get_mut(v, parent)? {
        Value::Object(m) => m.shift_remove(last),
        Value::Array(a) => {
            let i = last.parse::<usize>().ok()?;
            if i < a.len() {
                Some(a.remove(i))
            } else {
                None
            }
        }
        _ => None,
    }
}

/// rename a key in place (order preserved)
fn rename(v: &mut Value, path: &[String], new_key: &str) -> bool {
    let (last, parent) = match path.split_last() {
        Some(x) => x,
        None => return false,
    };
    if let Some(Value::Object(m)) = get_mut(v, parent) {
        if m.contains_key(new_key) || !m.contains_key(last) {
            return false;
        }
        let old: Vec<(String, Value)> = std::mem::take(m).into_iter().collect();
        let mut n = Map::new();
        for (k, x) in old {
            if &k == last {
                n.insert(new_key.to_string(), x);
            } else {
                n.insert(k, x);
            }
        }
        *m = n;
        return true;
    }
    false
}

/// structural mutations of `v`: delete / retarget / retype every key, index and reference
fn mutations(v: &Value, ids: &[String], rng: &mut Rng, cap: usize) -> Vec<(String, Value)> {
    let mut ps = vec![];
    nodes(v, &mut vec![], &mut ps);
    let mut out: Vec<(String, Value)> = vec![];
    let mut push = |d: String, m: Value| out.push((d, m));
    for p in &ps {
        let node = match get(v, p) {
            Some(n) => n.clone(),
            None => continue,
        };
        let name = p.join("/");
        // delete
        {
            let mut m = v.clone();
            if remove(&mut m, p).is_some() {
                push(format!("delete {}", name), m);
            }
        }
        // key level: rename to another identifier / index
        let last = p.last().unwrap();
        let parent_is_obj = matches!(get(v, &p[..p.len() - 1]), Some(Value::Object(_)));
        if parent_is_obj {
            let mut targets: Vec<String> = vec!["nonexistent".into()];
            if last.parse::<usize>().is_ok() {
                targets.extend(["0", "1", "2", "3", "4", "5", "6", "7", "8", "99", "4294967296", "18446744073709551615", "-1", "x"].iter().map(|s| s.to_string()));
            }
            if ids.contains(last) {
                targets.extend(ids.iter().filter(|i| *i != last).take(4).cloned());
            }
            for t in targets {
                let mut m = v.clone();
                if rename(&mut m, p, &t) {
                    push(format!("rename-key {} -> {}", name, t), m);
                }
            }
        }
        match &node {
            Value::String(s) => {
                if ids.contains(s) {
                    for t in ids.iter().filter(|i| *i != s).take(5).cloned().chain(["nonexistent".to_string(), String::new()]) {
                        let mut m = v.clone();
                        *get_mut(&mut m, p).unwrap() = json!(t);
                        push(format!("retarget {} -> {:?}", name, t), m);
                    }
                } else if leaf_kind(&node) == LeafKind::Other {
                    for t in ["", "x", "0"] {
                        if t != s {
                            let mut m = v.clone();
                            *get_mut(&mut m, p).unwrap() = json!(t);
                            push(format!("set-string {} -> {:?}", name, t), m);
                        }
                    }
                } else {
                    // hex material: truncated / emptied (content tampering is C11's subject)
                    for t in [String::new(), s[..s.len() / 2].to_string(), format!("{}00", s)] {
                        let mut m = v.clone();
                        *get_mut(&mut m, p).unwrap() = json!(t);
                        push(format!("resize-hex {} -> {} chars", name, t.len()), m);
                    }
                }
                let mut m = v.clone();
                *get_mut(&mut m, p).unwrap() = json!(7);
                push(format!("retype {} string->number", name), m);
            }
            Value::Number(n) => {
                let cur = n.as_u64();
                for t in [0u64, 1, 2, 3, 4, 5, 6, 7, 8, 31, 32, 255, 65535, 65536, 4294967295, 4294967296, u64::MAX] {
                    if Some(t) != cur {
                        let mut m = v.clone();
                        *get_mut(&mut m, p).unwrap() = json!(t);
                        push(format!("set-number {} -> {}", name, t), m);
                    }
                }
                if let Some(c) = cur {
                    let mut m = v.clone();
                    *get_mut(&mut m, p).unwrap() = json!(c + 1);
                    push(format!("set-number {} -> +1", name), m);
                }
                for t in [json!(-1), json!("7"), json!(1.5)] {
                    let mut m = v.clone();
                    *get_mut(&mut m, p).unwrap() = t.clone();
                    push(format!("retype {} number->{}", name, t), m);
                }
            }
            Value::Array(a) => {
                let mut m = v.clone();
                *get_mut(&mut m, p).unwrap() = json!([]);
                push(format!("empty-array {}", name), m);
                if let Some(f) = a.first() {
                    let mut m = v.clone();
                    if let Some(Value::Array(x)) = get_mut(&mut m, p) {
                        x.push(f.clone());
                    }
                    push(format!("duplicate-first {}", name), m);
                    let mut m = v.clone();
                    if let Some(Value::Array(x)) = get_mut(&mut m, p) {
                        x.truncate(1);
                    }
                    push(format!("truncate-to-1 {}", name), m);
                    if a.len() > 1 {
                        let mut m = v.clone();
                        if let Some(Value::Array(x)) = get_mut(&mut m, p) {
                            x.reverse();
                        }
                        push(format!("reverse {}", name), m);
                    }
                    if a.len() <= 8 {
                        let mut m = v.clone();
                        if let Some(Value::Array(x)) = get_mut(&mut m, p) {
                            let orig = x.clone();
                            for _ in 0..7 {
                                x.extend(orig.iter().cloned());
                            }
                        }
                        push(format!("repeat-x8 {}", name), m);
                    }
                }
                let mut m = v.clone();
                *get_mut(&mut m, p).unwrap() = json!({});
                push(format!("retype {} array->object", name), m);
            }
            Value::Object(o) => {
                let mut m = v.clone();
                *get_mut(&mut m, p).unwrap() = json!({});
                push(format!("empty-object {}", name), m);
                // every optional-looking member (number or null) absent at once (e.g. a range without bounds)
                let opt: Vec<String> = o.iter().filter(|(_, x)| x.is_null() || x.is_number()).map(|(k, _)| k.clone()).collect();
                if opt.len() >= 2 && p.len() <= 3 {
                    let mut m = v.clone();
                    if let Some(Value::Object(x)) = get_mut(&mut m, p) {
                        for k in &opt {
                            if k != "claim" {
                                x[k] = Value::Null;
                            }
                        }
                    }
                    push(format!("null-optionals {}", name), m);
                }
                // enum variant tag: a single-key object whose key is a variant name — swap the tag
                if o.len() == 1 {
                    let k = o.keys().next().unwrap().clone();
                    for t in ["Signature", "Revocation", "Equality", "Commitment", "VerifiableEncryption", "Range", "Membership", "VerifiableEncryptionDecryption", "Hashed", "Number", "Scalar", "Enumeration"] {
                        if t != k && k.chars().next().map(|c| c.is_uppercase()).unwrap_or(false) {
                            let mut m = v.clone();
                            let mut q = p.clone();
                            q.push(k.clone());
                            if rename(&mut m, &q, t) {
                                push(format!("retag {} {} -> {}", name, k, t), m);
                            }
                        }
                    }
                }
            }
            Value::Bool(b) => {
                let mut m = v.clone();
                *get_mut(&mut m, p).unwrap() = json!(!b);
                push(format!("flip {}", name), m);
            }
            Value::Null => {}
        }
        let mut m = v.clone();
        *get_mut(&mut m, p).unwrap() = Value::Null;
        push(format!("null {}", name), m);
    }
    // pairwise: swap the contents of two sibling entries of the same map (proof stored under another id)
    for p in &ps {
        if let Some(Value::Object(o)) = get(v, p) {
            let keys: Vec<String> = o.keys().cloned().collect();
            if keys.len() >= 2 && keys.iter().all(|k| ids.contains(k)) {
                for i in 0..keys.len() {
                    for j in i + 1..keys.len() {
                        let mut m = v.clone();
                        if let Some(Value::Object(x)) = get_mut(&mut m, p) {
                            let a = x[&keys[i]].clone();
                            let b = x[&keys[j]].clone();
                            x[&keys[i]] = b;
                            x[&keys[j]] = a;
                        }
                        out.push((format!("swap-entries {} {}<->{}", p.join("/"), keys[i], keys[j]), m));
                    }
                }
            }
        }
    }
    // top-level structure (whole proofs / statements / disclosed maps: paths of depth <= 2) is always kept;
    // the deeper mutations are sampled down to the cap
    let is_top = |d: &str| d.starts_with("null-optionals") || d.starts_with("repeat-x8") || d.split(' ').nth(1).map(|p| p.split('/').count() <= 2).unwrap_or(false);
    let (mut top, mut deep): (Vec<_>, Vec<_>) = out.into_iter().partition(|(d, _)| is_top(d));
    if deep.len() > cap {
        rng.shuffle(&mut deep);
        deep.truncate(cap);
    }
    top.extend(deep);
    top
}

/// only the always-kept part of `mutations`
fn top_mutations(v: &Value, ids: &[String], rng: &mut Rng) -> Vec<(String, Value)> {
    mutations(v, ids, rng, 0)
}

fn site_sig(entry: &str) -> (String, String) {
    let (file, at) = last_panic_site();
    // third-party crates: `<crate>-<version>/src/...` without the registry directory
    let file = match file.find("/registry/src/") {
        Some(i) => file[i + 14..].splitn(2, '/').nth(1).unwrap_or("").to_string(),
        None => file,
    };
    (format!("c20:panic:{}:{}", if file.is_empty() { "unknown".to_string() } else { file }, entry), at)
}

fn scenarios(rng: &mut Rng, thorough: bool) -> Vec<Mix> {
    let mut v = vec![
        // every cheap statement kind with all kinds of references
        Mix { n_creds: 2, n_claims: 5, disclosed: vec![vec!["city".into()], vec!["age".into()]], revocation: true, membership: true, equality: true, commitment: Some(2), range: None, verenc: Some((3, false)), ved: None, age: 40, shuffle: false, zero_ssn: false, same_issuer: false },
        // the same kinds in a shuffled order (range before its commitment, predicates before signatures)
        Mix { n_creds: 2, n_claims: 5, disclosed: vec![vec![], vec!["name".into()]], revocation: true, membership: false, equality: true, commitment: Some(2), range: Some((Some(0), None)), verenc: None, ved: Some(3), age: 40, shuffle: true, zero_ssn: false, same_issuer: false },
        Mix { n_creds: 1, n_claims: 4, disclosed: vec![vec!["name".into(), "age".into()]], commitment: Some(3), verenc: Some((3, true)), age: 20, shuffle: true, ..Default::default() },
    ];
    let extra = if thorough { 6 } else { 1 };
    for k in 0..extra {
        let mut m = Mix::random(rng, k % 2 == 0);
        m.shuffle = true;
        v.push(m);
    }
    v
}

fn structural<S: ShortGroupSignatureScheme>(em: &mut Emitter, rng: &mut Rng, suite: &str, si: usize, mix: &Mix) {
    let scn = Scn::<S>::build(rng, mix);
    let p = match scn.create() {
        Out::Ok(p) if scn.verify(&p).is_ok() => p,
        o => {
            em.count(&format!("scenario-unusable:{}:{}:{}", suite, si, o.class()));
            return;
        }
    };
    let mut ids: Vec<String> = scn.stmt_ids.iter().map(|(i, _)| i.clone()).collect();
    ids.extend(LABELS.iter().map(|s| s.to_string()));
    let vp = serde_json::to_value(&p).unwrap();
    let vs = serde_json::to_value(&scn.schema).unwrap();
    let heavy = mix.range.is_some() || mix.ved.is_some() || matches!(mix.verenc, Some((_, true)));
    let cap = match (em.thorough(), heavy) {
        (true, false) => 6000,
        (true, true) => 1500,
        (false, false) => 600,
        (false, true) => 160,
    };
    // (1) the verifier's untrusted input: the presentation
    for (mi, (d, m)) in mutations(&vp, &ids, rng, cap).into_iter().enumerate() {
        if !em.mine(mi) {
            continue;
        }
        em.oracle_case(&format!("{} {} verify {}", suite, si, d));
        match pres_from_value::<S>(&m) {
            Out::Ok(q) => {
                let (class, r) = plan_class(&q, &scn.schema, &scn.nonce);
                em.op(plan_line(&scn.schema, &q, suite), class);
                em.count(&format!("verify:{}:{}", r.class(), class));
                if let Out::Panic(msg) = r {
                    let (sig, at) = site_sig("verify");
                    em.violation(&sig, format!("{}: Presentation::verify panicked at {} on a presentation with '{}': {}", suite, at, d, msg), scn.replay(json!({"suite": suite, "mutation": d, "presentation": m})));
                }
            }
            Out::Err => em.count("presentation:undecodable"),
            Out::Panic(msg) => {
                let (sig, at) = site_sig("decode-presentation");
                em.violation(&sig, format!("{}: decoding a presentation with '{}' panicked at {}: {}", suite, d, at, msg), json!({"suite": suite, "mutation": d, "presentation": m}));
            }
        }
    }
    // (1b) the same statements listed in reverse order (predicates before signatures, range before its
    // commitment): honest presentation for that schema, whole-proof mutations
    {
        let rev: Vec<credx::statement::Statements<S>> = scn.schema.statements.values().rev().cloned().collect();
        let rschema = PresentationSchema::new_with_id(&rev, &scn.schema.id);
        match call(|| Presentation::create(&scn.credentials, &rschema, &scn.nonce)) {
            Out::Ok(rp) => {
                if !call(|| rp.verify(&rschema, &scn.nonce)).is_ok() {
                    em.count("reversed-order:honest-rejected");
                }
                let vrp = serde_json::to_value(&rp).unwrap();
                for (mi, (d, m)) in top_mutations(&vrp, &ids, rng).into_iter().enumerate() {
                    if !em.mine(mi + 4) {
                        continue;
                    }
                    em.oracle_case(&format!("{} {} verify-reversed {}", suite, si, d));
                    if let Out::Ok(q) = pres_from_value::<S>(&m) {
                        let r = call(|| q.verify(&rschema, &scn.nonce));
                        em.count(&format!("verify-reversed:{}", r.class()));
                        if let Out::Panic(msg) = r {
                            let (sig, at) = site_sig("verify");
                            em.violation(&sig, format!("{}: Presentation::verify panicked at {} on a presentation with '{}' (statements listed in reverse order): {}", suite, at, d, msg), json!({"suite": suite, "mutation": d, "presentation": m, "schema": serde_json::to_value(&rschema).unwrap_or(Value::Null), "nonce": hexs(&scn.nonce)}));
                        }
                    }
                }
            }
            Out::Panic(msg) => {
                let (sig, at) = site_sig("create");
                em.violation(&sig, format!("{}: Presentation::create panicked at {} with the statements listed in reverse order: {}", suite, at, msg), scn.replay(json!({"suite": suite, "order": "reversed"})));
            }
            Out::Err => em.count("reversed-order:create-err"),
        }
    }
    // (2) the holder's untrusted input: the verifier's schema
    for (mi, (d, m)) in mutations(&vs, &ids, rng, cap).into_iter().enumerate() {
        if !em.mine(mi + 1) {
            continue;
        }
        em.oracle_case(&format!("{} {} create {}", suite, si, d));
        match schema_from_value::<S>(&m) {
            Out::Ok(sch) => {
                let r = call(|| Presentation::create(&scn.credentials, &sch, &scn.nonce));
                em.count(&format!("create:{}", r.class()));
                match create_line(&scn.credentials, &sch) {
                    Some(line) => em.op(line, match &r {
                        Out::Ok(_) => "true",
                        Out::Err => "false",
                        Out::Panic(_) => "panic",
                    }),
                    None => em.count("create:model-line-skipped(key != id)"),
                }
                if !r.is_panic() {
                    if let Some((line, got)) = create_proofs_line(&scn.credentials, &sch, r.as_ok()) {
                        em.op(line, got);
                    }
                }
                match r {
                    Out::Panic(msg) => {
                        let (sig, at) = site_sig("create");
                        em.violation(&sig, format!("{}: Presentation::create panicked at {} on a schema with '{}': {}", suite, at, d, msg), scn.replay(json!({"suite": suite, "mutation": d, "mutated_schema": m})));
                    }
                    Out::Ok(q) => {
                        // what the holder produced for the inconsistent schema, checked by a verifier holding the same schema
                        if let Out::Panic(msg) = call(|| q.verify(&sch, &scn.nonce)) {
                            let (sig, at) = site_sig("verify");
                            em.violation(&sig, format!("{}: verify panicked at {} under a schema with '{}': {}", suite, at, d, msg), scn.replay(json!({"suite": suite, "mutation": d, "mutated_schema": m})));
                        }
                    }
                    Out::Err => {}
                }
                // the honest presentation against the other schema
                if let Out::Panic(msg) = call(|| p.verify(&sch, &scn.nonce)) {
                    let (sig, at) = site_sig("verify");
                    em.violation(&sig, format!("{}: verify of an honest presentation panicked at {} under a schema with '{}': {}", suite, at, d, msg), scn.replay(json!({"suite": suite, "mutation": d, "mutated_schema": m})));
                }
            }
            Out::Err => em.count("schema:undecodable"),
            Out::Panic(msg) => {
                let (sig, at) = site_sig("decode-schema");
                em.violation(&sig, format!("{}: decoding a schema with '{}' panicked at {}: {}", suite, d, at, msg), json!({"suite": suite, "mutation": d, "mutated_schema": m}));
            }
        }
    }
    // (3) credentials map handed to create: missing / extra / mistyped entries
    let keys: Vec<String> = scn.credentials.keys().cloned().collect();
    let mine_keys = em.mine(si);
    for k in keys.iter().filter(|_| mine_keys) {
        let mut c = scn.credentials.clone();
        c.shift_remove(k);
        em.oracle_case(&format!("{} {} create-without {}", suite, si, k));
        if let Out::Panic(msg) = call(|| Presentation::create(&c, &scn.schema, &scn.nonce)) {
            let (sig, at) = site_sig("create");
            em.violation(&sig, format!("{}: create panicked at {} without the credential for '{}': {}", suite, at, k, msg), scn.replay(json!({"suite": suite, "missing_credential": k})));
        }
        for k2 in &keys {
            if k != k2 {
                let mut c = scn.credentials.clone();
                let a = c[k].clone();
                let b = c[k2].clone();
                c.insert(k.clone(), b);
                c.insert(k2.clone(), a);
                if let Out::Panic(msg) = call(|| Presentation::create(&c, &scn.schema, &scn.nonce)) {
                    let (sig, at) = site_sig("create");
                    em.violation(&sig, format!("{}: create panicked at {} with credentials '{}' and '{}' swapped: {}", suite, at, k, k2, msg), scn.replay(json!({"suite": suite, "swapped": [k, k2]})));
                }
            }
        }
    }
}

fn blind<S: ShortGroupSignatureScheme>(em: &mut Emitter, rng: &mut Rng, suite: &str) {
    let n_claims = 5;
    let blindable = ["name", "ssn"];
    let schema = cred_schema(n_claims, &blindable);
    let (public, issuer) = Issuer::<S>::new(&schema);
    let claims = claim_vector(rng, n_claims, "blind-1", "Bob", 33);
    let mut hidden = BTreeMap::new();
    let mut known = BTreeMap::new();
    for (i, l) in LABELS[..n_claims].iter().enumerate() {
        if blindable.contains(l) {
            hidden.insert(l.to_string(), claims[i].clone());
        } else {
            known.insert(l.to_string(), claims[i].clone());
        }
    }
    let (req, blinder) = match BlindCredentialRequest::<S>::new(&public, &hidden) {
        Ok(x) => x,
        Err(_) => return,
    };
    let ids: Vec<String> = LABELS.iter().map(|s| s.to_string()).collect();
    let vr = serde_json::to_value(&req).unwrap();
    let cap = if em.thorough() { 3000 } else { 500 };
    // (1) the issuer's untrusted input: the request (and an inconsistent `known` map)
    for (mi, (d, m)) in mutations(&vr, &ids, rng, cap).into_iter().enumerate() {
        if !em.mine(mi + 2) {
            continue;
        }
        em.oracle_case(&format!("{} blind-request {}", suite, d));
        let text = serde_json::to_string(&m).unwrap();
        match call(|| serde_json::from_str::<BlindCredentialRequest<S>>(&text)) {
            Out::Ok(r) => {
                if let Out::Panic(msg) = call(|| r.verify(&issuer)) {
                    let (sig, at) = site_sig("blind-request-verify");
                    em.violation(&sig, format!("{}: BlindCredentialRequest::verify panicked at {} on a request with '{}': {}", suite, at, d, msg), json!({"suite": suite, "mutation": d, "request": m}));
                }
                let mut i2 = issuer.clone();
                let res = call(|| i2.blind_sign_credential(&r, &known));
                em.count(&format!("blind-sign:{}", res.class()));
                if let Out::Panic(msg) = res {
                    let (sig, at) = site_sig("blind-sign");
                    em.violation(&sig, format!("{}: blind_sign_credential panicked at {} on a request with '{}': {}", suite, at, d, msg), json!({"suite": suite, "mutation": d, "request": m}));
                }
            }
            Out::Err => em.count("blind-request:undecodable"),
            Out::Panic(msg) => {
                let (sig, at) = site_sig("decode-blind-request");
                em.violation(&sig, format!("{}: decoding a blind request with '{}' panicked at {}: {}", suite, d, at, msg), json!({"suite": suite, "mutation": d}));
            }
        }
    }
    // (1b) the holder's untrusted input when asking for a blind credential: the issuer's public data
    let vpub = serde_json::to_value(&public).unwrap();
    for (mi, (d, m)) in mutations(&vpub, &ids, rng, cap).into_iter().enumerate() {
        if !em.mine(mi + 7) {
            continue;
        }
        em.oracle_case(&format!("{} issuer-public {}", suite, d));
        let text = serde_json::to_string(&m).unwrap();
        match call(|| serde_json::from_str::<IssuerPublic<S>>(&text)) {
            Out::Ok(pb) => {
                let res = call(|| BlindCredentialRequest::<S>::new(&pb, &hidden));
                em.count(&format!("blind-request-new:{}", res.class()));
                if let Out::Panic(msg) = res {
                    let (sig, at) = site_sig("blind-request-new");
                    em.violation(&sig, format!("{}: BlindCredentialRequest::new panicked at {} on issuer public data with '{}': {}", suite, at, d, msg), json!({"suite": suite, "mutation": d, "issuer_public": m}));
                }
            }
            Out::Err => em.count("issuer-public:undecodable"),
            Out::Panic(msg) => {
                let (sig, at) = site_sig("decode-issuer-public");
                em.violation(&sig, format!("{}: decoding issuer public data with '{}' panicked at {}: {}", suite, d, at, msg), json!({"suite": suite, "mutation": d}));
            }
        }
    }
    let label_sets: Vec<Vec<&str>> = vec![vec![], vec!["id"], vec!["id", "age", "level"], vec!["id", "age", "level", "name"], vec!["id", "age", "level", "zzz"], vec!["age", "level"], vec!["id", "name", "age", "ssn", "level"]];
    let mine5 = em.mine(5);
    for ls in label_sets.iter().filter(|_| mine5) {
        let mut k2 = BTreeMap::new();
        for l in ls {
            let i = LABELS.iter().position(|x| x == l).unwrap_or(1).min(n_claims - 1);
            k2.insert(l.to_string(), claims[i].clone());
        }
        let mut i2 = issuer.clone();
        em.oracle_case(&format!("{} blind-known {:?}", suite, ls));
        if let Out::Panic(msg) = call(|| i2.blind_sign_credential(&req, &k2)) {
            let (sig, at) = site_sig("blind-sign");
            em.violation(&sig, format!("{}: blind_sign_credential panicked at {} with known labels {:?}: {}", suite, at, ls, msg), json!({"suite": suite, "known_labels": ls}));
        }
        // holder side: new request with label sets the schema does not have / does not allow
        let mut h2 = BTreeMap::new();
        for l in ls {
            let i = LABELS.iter().position(|x| x == l).unwrap_or(1).min(n_claims - 1);
            h2.insert(l.to_string(), claims[i].clone());
        }
        if let Out::Panic(msg) = call(|| BlindCredentialRequest::<S>::new(&public, &h2)) {
            let (sig, at) = site_sig("blind-request-new");
            em.violation(&sig, format!("{}: BlindCredentialRequest::new panicked at {} with hidden labels {:?}: {}", suite, at, ls, msg), json!({"suite": suite, "hidden_labels": ls}));
        }
    }
    // (2) the holder's untrusted input: the issuer's bundle (and an inconsistent hidden map)
    let mut i2 = issuer.clone();
    if let Ok(bundle) = i2.blind_sign_credential(&req, &known) {
        let vb = serde_json::to_value(&bundle).unwrap();
        for (mi, (d, m)) in mutations(&vb, &ids, rng, cap).into_iter().enumerate() {
            if !em.mine(mi + 3) {
                continue;
            }
            em.oracle_case(&format!("{} blind-bundle {}", suite, d));
            let text = serde_json::to_string(&m).unwrap();
            match call(|| serde_json::from_str::<BlindCredentialBundle<S>>(&text)) {
                Out::Ok(b) => {
                    let res = call(|| b.to_unblinded(&hidden, blinder));
                    em.count(&format!("unblind:{}", res.class()));
                    if let Out::Panic(msg) = res {
                        let (sig, at) = site_sig("unblind");
                        em.violation(&sig, format!("{}: to_unblinded panicked at {} on a bundle with '{}': {}", suite, at, d, msg), json!({"suite": suite, "mutation": d, "bundle": m}));
                    }
                }
                Out::Err => em.count("blind-bundle:undecodable"),
                Out::Panic(msg) => {
                    let (sig, at) = site_sig("decode-blind-bundle");
                    em.violation(&sig, format!("{}: decoding a blind bundle with '{}' panicked at {}: {}", suite, d, at, msg), json!({"suite": suite, "mutation": d}));
                }
            }
        }
        let mine6 = em.mine(6);
        for ls in label_sets.iter().filter(|_| mine6) {
            let mut h2 = BTreeMap::new();
            for l in ls {
                let i = LABELS.iter().position(|x| x == l).unwrap_or(1).min(n_claims - 1);
                h2.insert(l.to_string(), claims[i].clone());
            }
            em.oracle_case(&format!("{} unblind-hidden {:?}", suite, ls));
            let text = serde_json::to_string(&vb).unwrap();
            if let Ok(b) = serde_json::from_str::<BlindCredentialBundle<S>>(&text) {
                if let Out::Panic(msg) = call(|| b.to_unblinded(&h2, blinder)) {
                    let (sig, at) = site_sig("unblind");
                    em.violation(&sig, format!("{}: to_unblinded panicked at {} with hidden labels {:?}: {}", suite, at, ls, msg), json!({"suite": suite, "hidden_labels": ls}));
                }
            }
        }
    }
}

/// random and mutated byte strings for a decoder
fn bytes_fuzz<T: DeserializeOwned>(em: &mut Emitter, rng: &mut Rng, kind: &str, fmt: &str, valid: &[u8], dec: impl Fn(&[u8]) -> Result<T, ()>) {
    let n = em.n(60, 600);
    for k in 0..n {
        // every shard draws the same stream and keeps its share
        let keep = em.mine(k);
        let mut b = valid.to_vec();
        match k % 6 {
            0 => {
                if !b.is_empty() {
                    let i = rng.below(b.len() as u64) as usize;
                    b[i] ^= 1 << rng.below(8);
                }
            }
            1 => {
                let cut = rng.below(b.len() as u64 + 1) as usize;
                b.truncate(cut);
            }
            2 => {
                if !b.is_empty() {
                    let i = rng.below(b.len() as u64) as usize;
                    b[i] = *rng.pick(&[0u8, 1, 0x7f, 0x80, 0xff, 0xfe, 0x1f, 0x9f, 0xbf, 0x5f, 0x7b, 0x3b]);
                }
            }
            3 => {
                let i = rng.below(b.len() as u64 + 1) as usize;
                let n_ins = 1 + rng.below(4) as usize;
                let ins = rng.bytes(n_ins);
                b.splice(i..i, ins);
            }
            4 => {
                // several point mutations
                for _ in 0..(2 + rng.below(6)) {
                    if !b.is_empty() {
                        let i = rng.below(b.len() as u64) as usize;
                        b[i] = rng.next() as u8;
                    }
                }
            }
            _ => {
                let n_b = rng.below(64) as usize;
                b = rng.bytes(n_b);
            }
        }
        if !keep {
            continue;
        }
        em.oracle_case(&format!("{} {} bytes {}", kind, fmt, k));
        let r = call(|| dec(&b));
        em.count(&format!("decode:{}:{}", fmt, r.class()));
        if let Out::Panic(msg) = r {
            let (sig, at) = site_sig(&format!("decode-{}", fmt));
            em.violation(&sig, format!("{}: {} decoding panicked at {}: {}", kind, fmt, at, msg), json!({"kind": kind, "format": fmt, "bytes": hexs(&b)}));
        }
    }
}

fn decoders_for<T: Serialize + DeserializeOwned>(em: &mut Emitter, rng: &mut Rng, kind: &str, x: &T) {
    if let Ok(a) = serde_cbor::to_vec(x) {
        bytes_fuzz::<T>(em, rng, kind, "cbor", &a, |b| serde_cbor::from_slice::<T>(b).map_err(|_| ()));
    }
    if let Ok(a) = serde_bare::to_vec(x) {
        bytes_fuzz::<T>(em, rng, kind, "bare", &a, |b| serde_bare::from_slice::<T>(b).map_err(|_| ()));
    }
    if let Ok(a) = serde_json::to_vec(x) {
        bytes_fuzz::<T>(em, rng, kind, "json", &a, |b| serde_json::from_slice::<T>(b).map_err(|_| ()));
    }
}

fn decoders<S: ShortGroupSignatureScheme>(em: &mut Emitter, rng: &mut Rng, suite: &str) {
    let mix = Mix { n_creds: 2, n_claims: 5, disclosed: vec![vec!["city".into()], vec!["age".into()]], revocation: true, membership: true, equality: true, commitment: Some(2), range: Some((Some(0), Some(200))), verenc: Some((3, true)), ved: None, age: 40, shuffle: false, zero_ssn: false, same_issuer: false };
    let scn = Scn::<S>::build(rng, &mix);
    decoders_for::<PresentationSchema<S>>(em, rng, &format!("PresentationSchema<{}>", suite), &scn.schema);
    if let Out::Ok(p) = scn.create() {
        decoders_for::<Presentation<S>>(em, rng, &format!("Presentation<{}>", suite), &p);
    }
    decoders_for::<CredentialBundle<S>>(em, rng, &format!("CredentialBundle<{}>", suite), &scn.bundles[0]);
    decoders_for::<IssuerPublic<S>>(em, rng, &format!("IssuerPublic<{}>", suite), &scn.publics[0]);
    decoders_for::<Issuer<S>>(em, rng, &format!("Issuer<{}>", suite), &scn.issuers[0]);
    for c in &scn.bundles[0].credential.claims {
        decoders_for::<ClaimData>(em, rng, "ClaimData", c);
    }
    let schema = cred_schema(5, &["name"]);
    let (public, mut issuer) = Issuer::<S>::new(&schema);
    let claims = claim_vector(rng, 5, "dec-1", "Bob", 33);
    let mut hidden = BTreeMap::new();
    hidden.insert("name".to_string(), claims[1].clone());
    if let Ok((req, _)) = BlindCredentialRequest::<S>::new(&public, &hidden) {
        decoders_for::<BlindCredentialRequest<S>>(em, rng, &format!("BlindCredentialRequest<{}>", suite), &req);
        let mut known = BTreeMap::new();
        for (i, l) in LABELS[..5].iter().enumerate() {
            if *l != "name" {
                known.insert(l.to_string(), claims[i].clone());
            }
        }
        if let Ok(bb) = issuer.blind_sign_credential(&req, &known) {
            decoders_for::<BlindCredentialBundle<S>>(em, rng, &format!("BlindCredentialBundle<{}>", suite), &bb);
        }
    }
}

pub fn gen_c20_struct(em: &mut Emitter, rng: &mut Rng) {
    let mixes = scenarios(&mut rng.sub(50), em.thorough());
    for (si, mix) in mixes.iter().enumerate() {
        structural::<Bbs>(em, &mut rng.sub(100 + si as u64), "bbs", si, mix);
        structural::<Ps>(em, &mut rng.sub(200 + si as u64), "ps", si, mix);
    }
    blind::<Bbs>(em, &mut rng.sub(300), "bbs");
    blind::<Ps>(em, &mut rng.sub(301), "ps");
    decoders::<Bbs>(em, &mut rng.sub(400), "bbs");
    decoders::<Ps>(em, &mut rng.sub(401), "ps");
}
