//! C06: revocation end to end — histories of issue / blind-issue / revoke / refresh over many holders,
//! every handle class at every epoch, plus the membership-proof model tie.
use crate::common::*;
use crate::pres::*;
use credx::blind::BlindCredentialRequest;
use credx::claim::*;
use credx::credential::{Credential, CredentialBundle};
use credx::issuer::{Issuer, IssuerPublic};
use credx::knox::accumulator::vb20::{self, Accumulator, Coefficient, Element, MembershipProof, MembershipProofCommitting, MembershipWitness, ProofParams};
use credx::knox::short_group_sig_core::short_group_traits::ShortGroupSignatureScheme;
use credx::knox::short_group_sig_core::{HiddenMessage, ProofMessage};
use credx::presentation::{Presentation, PresentationCredential, PresentationSchema};
use credx::statement::{RevocationStatement, SignatureStatement, Statements};
use indexmap::IndexMap;
use serde_json::{json, Value};
use std::collections::BTreeMap;

struct Holder<S: ShortGroupSignatureScheme> {
    id: String,
    y: Scalar,
    cred: Credential<S>,
    revoked: bool,
    /// epoch (index into `epochs`) from which public updates still have to be applied to `cred.revocation_handle`
    handle_epoch: usize,
    /// handles that were valid at some earlier epoch: (epoch, handle)
    stale: Vec<(usize, MembershipWitness)>,
    blind: bool,
}

/// one published revocation batch
struct Epoch {
    old: Accumulator,
    new: Accumulator,
    dels: Vec<Element>,
    coefs: Vec<Coefficient>,
}

fn gt_log_bytes(log: &[merlin::vlog::Entry], label: &[u8]) -> Option<Vec<u8>> {
    log.iter().find(|e| e.kind == 0 && e.label == label).map(|e| e.data.clone())
}

fn v4(c: &[Scalar; 4]) -> String {
    format!("{},{},{},{}", sc_hex(&c[0]), sc_hex(&c[1]), sc_hex(&c[2]), sc_hex(&c[3]))
}

fn lin(b: &[G1Projective; 4], c: &[Scalar; 4]) -> G1Projective {
    b[0] * c[0] + b[1] * c[1] + b[2] * c[2] + b[3] * c[3]
}

fn bases_str(b: &[G1Projective; 4]) -> String {
    format!("{} {} {} {}", g1_hex_c(&b[0]), g1_hex_c(&b[1]), g1_hex_c(&b[2]), g1_hex_c(&b[3]))
}

/// sig + non-revocation presentation of `cred` with `handle`, against `value`
fn present<S: ShortGroupSignatureScheme>(public: &IssuerPublic<S>, cred: &Credential<S>, handle: MembershipWitness, value: Accumulator, nonce: &[u8]) -> (PresentationSchema<S>, Out<Presentation<S>>) {
    let mut issuer = public.clone();
    issuer.revocation_registry = value;
    let sig = SignatureStatement { disclosed: Default::default(), id: "sig".to_string(), issuer: issuer.clone() };
    let rev = RevocationStatement { id: "rev".to_string(), reference_id: "sig".to_string(), accumulator: value, verification_key: issuer.revocation_verifying_key, claim: 0 };
    let stmts: Vec<Statements<S>> = vec![sig.into(), rev.into()];
    let schema = PresentationSchema::new_with_id(&stmts, "c06");
    let mut c = cred.clone();
    c.revocation_handle = handle;
    let mut creds: IndexMap<String, PresentationCredential<S>> = IndexMap::new();
    creds.insert("sig".to_string(), c.into());
    let p = call(|| Presentation::create(&creds, &schema, nonce));
    (schema, p)
}

fn history<S: ShortGroupSignatureScheme>(em: &mut Emitter, rng: &mut Rng, suite: &str, hist: usize) {
    let n_claims = 3 + rng.below(2) as usize;
    let schema = cred_schema(n_claims, &["name"]);
    let (public, mut issuer) = Issuer::<S>::new(&schema);
    let alpha = issuer.revocation_key.0;
    let v0 = issuer.revocation_registry.value;
    let pk = public.revocation_verifying_key;
    let mut vcoef = Scalar::ONE; // registry value = vcoef · V0
    let mut holders: Vec<Holder<S>> = vec![];
    let mut epochs: Vec<Epoch> = vec![];
    let mut trace: Vec<String> = vec![];
    let n_ops = 6 + rng.below(if em.thorough() { 14 } else { 8 }) as usize;
    let mut next_id = 0usize;

    let issue = |issuer: &mut Issuer<S>, rng: &mut Rng, id: &str, blind: bool| -> Out<CredentialBundle<S>> {
        let age = rng.range(0, 90);
        let claims = claim_vector(rng, n_claims, id, &format!("Holder {}", id), age);
        if !blind {
            call(|| issuer.sign_credential(&claims))
        } else {
            let mut hidden = BTreeMap::new();
            hidden.insert("name".to_string(), claims[1].clone());
            let mut known = BTreeMap::new();
            for (i, l) in LABELS[..n_claims].iter().enumerate() {
                if *l != "name" {
                    known.insert(l.to_string(), claims[i].clone());
                }
            }
            call(|| {
                let (req, blinder) = BlindCredentialRequest::<S>::new(&public, &hidden)?;
                let bb = issuer.blind_sign_credential(&req, &known)?;
                bb.to_unblinded(&hidden, blinder)
            })
        }
    };

    for step in 0..=n_ops {
        let last = step == n_ops;
        let mut checkpoint = last;
        // `RevocationRegistry::add` on the public registry field: at a random step, and always before the final checkpoint
        let mut do_registry_add = last && !holders.is_empty();
        if !last {
            let r = rng.below(100);
            let active: Vec<usize> = (0..holders.len()).filter(|i| !holders[*i].revoked).collect();
            if r < 35 || holders.len() < 2 {
                // issue (plain or blind)
                let blind = rng.chance(1, 3);
                // identifiers in mixed case; every fourth one is the case-exchanged twin of an earlier identifier
                let id = if next_id % 4 == 3 && !holders.is_empty() {
                    let src = holders[rng.below(holders.len() as u64) as usize].id.clone();
                    // … or its twin with white space around it
                    let tw: String = match next_id % 3 {
                        0 => src.chars().map(|c| if c.is_ascii_lowercase() { c.to_ascii_uppercase() } else { c.to_ascii_lowercase() }).collect(),
                        1 => format!("{}  ", src.trim()),
                        _ => format!(" {}", src.trim()),
                    };
                    if holders.iter().any(|h| h.id == tw) { format!("Hx{}-{}-{}", hist, next_id, rng.below(1 << 20)) } else { tw }
                } else {
                    format!("{}{}-{}-{}", if next_id % 2 == 0 { "h" } else { "Holder" }, hist, next_id, rng.below(1 << 20))
                };
                next_id += 1;
                match issue(&mut issuer, rng, &id, blind) {
                    Out::Ok(b) => {
                        let y = RevocationClaim::from(id.as_str()).to_scalar();
                        trace.push(format!("{} {}", if blind { "blind-issue" } else { "issue" }, id));
                        holders.push(Holder { id, y, cred: b.credential, revoked: false, handle_epoch: epochs.len(), stale: vec![], blind });
                    }
                    o => em.violation("c06:issue-failed", format!("{}: issuing a fresh identifier failed ({})", suite, o.class()), json!({"suite": suite, "trace": trace})),
                }
            } else if r < 65 && !active.is_empty() {
                // revoke: single or batch
                let mut batch: Vec<usize> = vec![];
                let k = if rng.chance(1, 2) { 1 + rng.below(4.min(active.len() as u64)) as usize } else { 1 };
                let mut pool = active.clone();
                rng.shuffle(&mut pool);
                batch.extend(pool.into_iter().take(k));
                let claims: Vec<RevocationClaim> = batch.iter().map(|i| RevocationClaim::from(holders[*i].id.as_str())).collect();
                let old = issuer.revocation_registry.value;
                // each victim keeps the handle that was valid just before its revocation
                for i in &batch {
                    if let Out::Ok(w) = call(|| issuer.update_revocation_handle(RevocationClaim::from(holders[*i].id.as_str()))) {
                        let e = epochs.len();
                        holders[*i].stale.push((e, w));
                    }
                }
                match call(|| issuer.revoke_credentials(&claims)) {
                    Out::Ok(()) => {
                        let dels: Vec<Element> = batch.iter().map(|i| Element(holders[*i].y)).collect();
                        // the publisher's update data for the same batch
                        let (newv, coefs) = old.update(&issuer.revocation_key, &[], &dels);
                        if newv.0 != issuer.revocation_registry.value.0 {
                            em.violation("c06:published-value-differs", format!("{}: Accumulator::update and revoke_credentials disagree on the new value", suite), json!({"suite": suite, "trace": trace}));
                        }
                        for i in &batch {
                            holders[*i].revoked = true;
                            vcoef *= (holders[*i].y + alpha).invert().unwrap();
                        }
                        trace.push(format!("revoke {}", batch.iter().map(|i| holders[*i].id.clone()).collect::<Vec<_>>().join(",")));
                        epochs.push(Epoch { old, new: issuer.revocation_registry.value, dels, coefs });
                        checkpoint = true;
                        // a publication epoch in which nobody was revoked (issuance-only period, `revoke_credentials(&[])`):
                        // the value does not move and the published update data is empty
                        if rng.chance(1, 3) {
                            let cur = issuer.revocation_registry.value;
                            let r0 = call(|| issuer.revoke_credentials(&[]));
                            let (same, none) = cur.update(&issuer.revocation_key, &[], &[]);
                            if r0.is_ok() && issuer.revocation_registry.value.0 != cur.0 {
                                em.violation("c06:empty-revocation-moves-value", format!("{}: revoking nobody changed the registry value", suite), json!({"suite": suite, "trace": trace}));
                            } else if same.0 == cur.0 {
                                em.count(&format!("empty-epoch:{}", r0.class()));
                                trace.push("empty-epoch".to_string());
                                epochs.push(Epoch { old: cur, new: same, dels: vec![], coefs: none });
                            }
                        }
                    }
                    o => em.violation("c06:revoke-failed", format!("{}: revoking active identifiers failed ({})", suite, o.class()), json!({"suite": suite, "trace": trace})),
                }
            } else if r < 80 && !holders.is_empty() {
                // refresh from the issuer
                let i = rng.below(holders.len() as u64) as usize;
                let res = call(|| issuer.update_revocation_handle(RevocationClaim::from(holders[i].id.as_str())));
                em.oracle_case(&format!("{} refresh {} {}", suite, hist, step));
                match (res, holders[i].revoked) {
                    (Out::Ok(w), false) => {
                        let old = holders[i].cred.revocation_handle;
                        let e = holders[i].handle_epoch;
                        holders[i].stale.push((e, old));
                        holders[i].cred.revocation_handle = w;
                        holders[i].handle_epoch = epochs.len();
                        trace.push(format!("refresh {}", holders[i].id));
                    }
                    (Out::Ok(_), true) => em.violation("c06:revoked-refreshed", format!("{}: the issuer refreshed the handle of a revoked identifier", suite), json!({"suite": suite, "trace": trace, "id": holders[i].id})),
                    (Out::Err, true) => em.count("refresh-refused-revoked"),
                    (Out::Panic(m), true) => em.violation("c06:refresh-panic", format!("{}: refresh of a revoked identifier panicked: {}", suite, m), json!({"suite": suite, "trace": trace})),
                    (o, false) => em.violation("c06:active-refresh-failed", format!("{}: refresh of an active identifier failed ({})", suite, o.class()), json!({"suite": suite, "trace": trace, "id": holders[i].id})),
                }
            } else if r < 90 && holders.iter().any(|h| h.revoked) {
                // re-issuance attempt for a revoked identifier (plain or blind)
                let revoked: Vec<usize> = (0..holders.len()).filter(|i| holders[*i].revoked).collect();
                let i = *rng.pick(&revoked);
                let id = holders[i].id.clone();
                em.oracle_case(&format!("{} reissue {} {}", suite, hist, step));
                let blind = rng.coin();
                if let Out::Ok(b) = issue(&mut issuer, rng, &id, blind) {
                    // a credential for a revoked identifier: does it present?
                    let (sch, p) = present(&public, &b.credential, b.credential.revocation_handle, issuer.revocation_registry.value, b"reissue");
                    let accepted = matches!(&p, Out::Ok(p) if call(|| p.verify(&sch, b"reissue")).is_ok());
                    em.violation(
                        if accepted { "c06:revoked-reissued-presents" } else { "c06:revoked-reissued" },
                        format!("{}: a revoked identifier was issued a new credential ({}) (accepted presentation: {})", suite, if blind { "blind" } else { "plain" }, accepted),
                        json!({"suite": suite, "trace": trace, "id": id}),
                    );
                } else {
                    em.count("reissue-refused");
                }
                trace.push(format!("reissue-attempt {}", id));
            } else if !holders.is_empty() && rng.coin() {
                do_registry_add = true;
            } else if !holders.is_empty() {
                // persist / restore the issuer
                let txt = serde_json::to_string(&issuer).unwrap();
                issuer = serde_json::from_str(&txt).unwrap();
                trace.push("persist".to_string());
            }
        }
        if do_registry_add {
            // `RevocationRegistry::add` called directly on the issuer's public registry field with a list that mixes a
            // never-seen identifier with known ones (active and revoked): revoked identifiers must stay revoked
            let mut list = vec![format!("ghost-{}-{}", hist, step)];
            for h in holders.iter() {
                if rng.chance(2, 3) {
                    list.push(h.id.clone());
                }
            }
            list.push(format!("ghost2-{}-{}", hist, step));
            let value_before = issuer.revocation_registry.value;
            let r = call(|| {
                issuer.revocation_registry.add(&list);
                Ok::<_, ()>(())
            });
            em.oracle_case(&format!("{} registry-add {} {}", suite, hist, step));
            em.count("registry-add");
            trace.push(format!("registry.add {:?}", list));
            if r.is_panic() {
                em.violation("c06:registry-add-panic", format!("{}: RevocationRegistry::add panicked", suite), json!({"suite": suite, "trace": trace}));
            }
            if issuer.revocation_registry.value != value_before {
                em.violation("c06:registry-add-moves-value", format!("{}: RevocationRegistry::add changed the published value", suite), json!({"suite": suite, "trace": trace}));
            }
            for h in holders.iter().filter(|h| h.revoked) {
                let reactivated = issuer.revocation_registry.active.contains(&h.id);
                let refreshed = call(|| issuer.update_revocation_handle(RevocationClaim::from(h.id.as_str()))).is_ok();
                if reactivated || refreshed {
                    em.violation("c06:revoked-reactivated-by-add", format!("{}: after RevocationRegistry::add with a list naming a revoked identifier that identifier is active again (active set: {}, refresh succeeds: {})", suite, reactivated, refreshed), json!({"suite": suite, "trace": trace, "id": h.id}));
                }
            }
        }
        if !checkpoint || holders.is_empty() {
            continue;
        }
        // ---- checkpoint: every holder (bounded), every handle class, against the current value
        let value = issuer.revocation_registry.value;
        if (v0.0 * vcoef) != value.0 {
            em.violation("c06:value-not-product", format!("{}: registry value is not V0 / ∏(y+α) over the revoked identifiers", suite), json!({"suite": suite, "trace": trace}));
        }
        let nonce = rng.bytes(16);
        let params = ProofParams::new(pk, Some(&nonce));
        let bases = [v0.0, params.x, params.y, params.z];
        let mut idxs: Vec<usize> = (0..holders.len()).collect();
        rng.shuffle(&mut idxs);
        let cap = if em.thorough() { 8 } else { 4 };
        // always include a revoked and an active holder when present
        idxs.sort_by_key(|i| (holders[*i].revoked as u8) ^ (rng.next() as u8 & 1));
        for &i in idxs.iter().take(cap) {
            let h = &holders[i];
            let y = Element(h.y);
            // candidate handles: (class, handle, coordinates over [V0,X,Y,Z] when known, must_accept)
            let mut cands: Vec<(String, MembershipWitness, Option<[Scalar; 4]>, bool)> = vec![];
            let z = Scalar::ZERO;
            let inv_y = (h.y + alpha).invert().unwrap();
            cands.push(("held".into(), h.cred.revocation_handle, None, false));
            if let Out::Ok(w) = call(|| issuer.update_revocation_handle(RevocationClaim::from(h.id.as_str()))) {
                cands.push(("refreshed".into(), w, Some([vcoef * inv_y, z, z, z]), true));
            }
            // public updates from the epoch of the held handle: batch by batch, multi-batch, single-step where defined
            let since = &epochs[h.handle_epoch..];
            if !since.is_empty() {
                let mut w = h.cred.revocation_handle;
                for e in since {
                    w = w.batch_update(y, &[], &e.dels, &e.coefs);
                }
                cands.push(("public-batch".into(), w, None, !h.revoked));
                let deltas: Vec<(Vec<Element>, Vec<Element>, Vec<Coefficient>)> = since.iter().map(|e| (vec![], e.dels.clone(), e.coefs.clone())).collect();
                let mut held = h.cred.revocation_handle;
                let w2 = held.multi_batch_update(y, &deltas);
                cands.push(("public-multi".into(), w2, None, !h.revoked));
                if since.iter().all(|e| e.dels.len() <= 1) {
                    let mut w3 = h.cred.revocation_handle;
                    for e in since.iter().filter(|e| !e.dels.is_empty()) {
                        w3 = w3.update(y, e.old, e.new, &[], &e.dels);
                    }
                    cands.push(("public-single".into(), w3, None, !h.revoked));
                }
            } else {
                // held handle is of the current epoch
                if !h.revoked {
                    cands[0].3 = true;
                }
            }
            for (k, (e, w)) in h.stale.iter().enumerate().rev().take(2) {
                // a handle valid at epoch e, publicly updated as far as the data allows
                let mut w2 = *w;
                for ep in &epochs[*e..] {
                    w2 = w2.batch_update(y, &[], &ep.dels, &ep.coefs);
                }
                cands.push((format!("stale-{}", k), *w, None, false));
                cands.push((format!("stale-{}-updated", k), w2, None, false));
            }
            // borrowed from another active holder
            // (preferably an identifier that differs from this one only in case / surrounding white space)
            let twin = holders.iter().find(|o| !o.revoked && o.id != h.id && o.id.trim().eq_ignore_ascii_case(h.id.trim()));
            if let Some(o) = twin.or_else(|| holders.iter().find(|o| !o.revoked && o.id != h.id)) {
                if let Out::Ok(w) = call(|| issuer.update_revocation_handle(RevocationClaim::from(o.id.as_str()))) {
                    cands.push(("borrowed".into(), w, Some([vcoef * (o.y + alpha).invert().unwrap(), z, z, z]), false));
                }
            }
            // degenerate / random points
            cands.push(("identity".into(), MembershipWitness(G1Projective::IDENTITY), Some([z, z, z, z]), false));
            cands.push(("value-itself".into(), MembershipWitness(value.0), Some([vcoef, z, z, z]), false));
            let rc = [rng.scalar(), rng.scalar(), z, rng.scalar()];
            cands.push(("random".into(), MembershipWitness(lin(&bases, &rc)), Some(rc), false));
            for (class, w, coords, must_accept) in cands {
                let relation = w.verify(y, pk, value);
                let (sch, p) = present(&public, &h.cred, w, value, &nonce);
                let accepted = match &p {
                    Out::Ok(p) => call(|| p.verify(&sch, &nonce)).is_ok(),
                    _ => false,
                };
                em.oracle_case(&format!("{} {} {} {} {} {}", suite, hist, step, i, class, h.revoked));
                em.count(&format!("{}:{}:{}", if h.revoked { "revoked" } else { "active" }, class.split('-').take(2).collect::<Vec<_>>().join("-"), if accepted { "accepted" } else { "rejected" }));
                let replay = || json!({"suite": suite, "trace": trace, "holder": h.id, "blind_issued": h.blind, "class": class, "handle": g1_hex_c(&w.0), "value": g1_hex_c(&value.0), "nonce": hexs(&nonce),
                    "credential": serde_json::to_value(&h.cred).unwrap_or(Value::Null), "issuer": serde_json::to_value(&issuer).unwrap_or(Value::Null)});
                if h.revoked && accepted {
                    em.violation(&format!("c06:revoked-presents:{}", class.split('-').next().unwrap()), format!("{}: revoked identifier {} presents with a {} handle", suite, h.id, class), replay());
                }
                if !h.revoked && must_accept && !accepted {
                    em.violation(&format!("c06:active-cannot-present:{}", class), format!("{}: active identifier {} is rejected with its {} handle ({})", suite, h.id, class, p.class()), replay());
                }
                if accepted != relation {
                    em.violation(&format!("c06:verdict-vs-witness-relation:{}", class.split('-').next().unwrap()), format!("{}: presentation verdict {} but witness relation {} ({} handle)", suite, accepted, relation, class), replay());
                }
                // model verdict: honest algorithm with this handle, arbitrary coins and challenge
                if let Some(c) = coords {
                    let coins: Vec<String> = (0..7).map(|_| sc_hex(&rng.scalar())).collect();
                    em.op(
                        format!("mp.accepts {} {} {} {} {} {}", sc_hex(&alpha), sc_hex(&h.y), v4(&c), v4(&[vcoef, z, z, z]), coins.join(","), sc_hex(&rng.scalar())),
                        format!("{}", accepted),
                    );
                }
            }
        }
    }
    em.count_n("history-ops", trace.len() as u64);
    em.count_n("epochs", epochs.len() as u64);
}

/// tie of `MembershipProofCommitting::new / gen_proof` and `MembershipProof::finalize` to the model
fn proof_model_lines(em: &mut Emitter, rng: &mut Rng) {
    for k in 0..em.n(12, 60) {
        let sk = vb20::SecretKey::new(Some(&rng.bytes(32)));
        let pk = vb20::PublicKey::from(&sk);
        let alpha = sk.0;
        let v0 = Accumulator::random(rng.chacha());
        let nonce = rng.bytes(16);
        let params = ProofParams::new(pk, Some(&nonce));
        let bases = [v0.0, params.x, params.y, params.z];
        let z = Scalar::ZERO;
        let y = rng.scalar();
        // handle: valid, or a random multiple of V0
        let valid = k % 3 != 2;
        let wcoef = if valid { (y + alpha).invert().unwrap() } else { rng.scalar() };
        let witness = MembershipWitness(v0.0 * wcoef);
        // real prover, two challenges on one commitment → extract its coins
        merlin::vlog::take();
        merlin::vlog::enable(true);
        let committing = MembershipProofCommitting::new(ProofMessage::Hidden(HiddenMessage::ProofSpecificBlinding(y)), witness, params, pk);
        let mut t = merlin::Transcript::new(b"c06");
        committing.get_bytes_for_challenge(&mut t);
        merlin::vlog::enable(false);
        let log = merlin::vlog::take();
        let (c1, c2) = (rng.scalar(), rng.scalar());
        let p1 = committing.gen_proof(Element(c1));
        let p2 = committing.gen_proof(Element(c2));
        let j1 = serde_json::to_value(&p1).unwrap();
        let j2 = serde_json::to_value(&p2).unwrap();
        let f = |j: &Value, k: &str| sc_from_hex(j[k].as_str().unwrap_or("")).unwrap_or(Scalar::ZERO);
        let dinv = (c1 - c2).invert().unwrap();
        let ex = |k: &str| {
            let w = (f(&j1, k) - f(&j2, k)) * dinv; // witness component
            let r = f(&j1, k) - c1 * w; // coin
            (w, r)
        };
        let (sigma, r_sigma) = ex("s_sigma");
        let (rho, r_rho) = ex("s_rho");
        let (yy, r_y) = ex("s_y");
        let (_, r_ds) = ex("s_delta_sigma");
        let (_, r_dr) = ex("s_delta_rho");
        if yy != y {
            em.violation("c06:prover-sy-not-linear", "membership prover: s_y is not r_y + c·y", json!({"y": sc_hex(&y)}));
        }
        let coins = [sigma, rho, r_y, r_sigma, r_rho, r_ds, r_dr];
        let pt = |j: &Value, k: &str| j[k].as_str().unwrap_or("").to_string();
        let lg = |l: &[u8]| gt_log_bytes(&log, l).map(|b| hexs(&b)).unwrap_or_default();
        let impl_line = format!(
            "{} {} {} {} {} {} {} {} {} {} {} {} {}",
            pt(&j1, "e_c"), pt(&j1, "t_sigma"), pt(&j1, "t_rho"),
            sc_hex(&f(&j1, "s_sigma")), sc_hex(&f(&j1, "s_rho")), sc_hex(&f(&j1, "s_delta_sigma")), sc_hex(&f(&j1, "s_delta_rho")), sc_hex(&f(&j1, "s_y")),
            lg(b"R_E"), lg(b"R_sigma"), lg(b"R_rho"), lg(b"R_delta_sigma"), lg(b"R_delta_rho")
        );
        em.op(
            format!("mp.prove {} {} {} {} {} {}", bases_str(&bases), sc_hex(&alpha), sc_hex(&y), v4(&[wcoef, z, z, z]), coins.iter().map(sc_hex).collect::<Vec<_>>().join(","), sc_hex(&c1)),
            impl_line,
        );
        // the real verifier's recomputation for arbitrary proofs in known coordinates
        // m = 3..5: points at infinity (E_C alone, T_σ and T_ρ, all three with zero responses) — the recomputation is
        // the same linear map there as everywhere else
        for m in 0..6 {
            let rv = |rng: &mut Rng, full: bool| -> [Scalar; 4] { if full { [rng.scalar(), rng.scalar(), rng.scalar(), rng.scalar()] } else { [rng.scalar(), z, z, rng.scalar()] } };
            let ec = if m == 3 || m == 5 { [z, z, z, z] } else { rv(rng, m == 0) };
            let ts = if m == 4 || m == 5 { [z, z, z, z] } else if m == 2 { [z, rng.scalar(), z, z] } else { rv(rng, true) };
            let tr = if m == 4 || m == 5 { [z, z, z, z] } else if m == 2 { [z, z, rng.scalar(), z] } else { rv(rng, true) };
            let vc = if m == 1 { [rng.scalar(), z, z, z] } else { rv(rng, true) };
            let ss: Vec<Scalar> = (0..5).map(|i| if m == 5 && i < 4 { z } else { rng.scalar() }).collect();
            let c = rng.scalar();
            let mut j = j1.clone();
            j["e_c"] = json!(g1_hex_c(&lin(&bases, &ec)));
            j["t_sigma"] = json!(g1_hex_c(&lin(&bases, &ts)));
            j["t_rho"] = json!(g1_hex_c(&lin(&bases, &tr)));
            for (i, k) in ["s_sigma", "s_rho", "s_delta_sigma", "s_delta_rho", "s_y"].iter().enumerate() {
                j[*k] = json!(sc_hex(&ss[i]));
            }
            let text = serde_json::to_string(&j).unwrap();
            let proof: MembershipProof = match serde_json::from_str(&text) {
                Ok(p) => p,
                Err(_) => {
                    em.count("crafted-proof-undecodable");
                    continue;
                }
            };
            merlin::vlog::take();
            merlin::vlog::enable(true);
            let fin = proof.finalize(Accumulator(lin(&bases, &vc)), params, pk, Element(c));
            let mut t = merlin::Transcript::new(b"c06");
            fin.get_bytes_for_challenge(&mut t);
            merlin::vlog::enable(false);
            let log = merlin::vlog::take();
            let lg = |l: &[u8]| gt_log_bytes(&log, l).map(|b| hexs(&b)).unwrap_or_default();
            em.op(
                format!("mp.finalize {} {} {} {} {} {} {} {}", bases_str(&bases), sc_hex(&alpha), v4(&vc), sc_hex(&c), v4(&ec), v4(&ts), v4(&tr), ss.iter().map(sc_hex).collect::<Vec<_>>().join(",")),
                format!("{} {} {} {} {}", lg(b"R_E"), lg(b"R_sigma"), lg(b"R_rho"), lg(b"R_delta_sigma"), lg(b"R_delta_rho")),
            );
        }
    }
}

/// deviations inside an accepted presentation: every leaf of the revocation proof, and the link to the signature proof
/// the identifier claim at another position than 0 (middle, last) of the credential schema: issuance, presentation,
/// revocation and refresh must follow the schema's revocation claim wherever it sits
pub fn revocation_claim_position<S: ShortGroupSignatureScheme>(em: &mut Emitter, rng: &mut Rng, suite: &str, tag: &str) {
    use credx::credential::{ClaimSchema, CredentialSchema};
    for pos in [1usize, 3] {
        let mut cs = vec![
            ClaimSchema { claim_type: ClaimType::Hashed, label: "name".into(), print_friendly: true, validators: vec![] },
            ClaimSchema { claim_type: ClaimType::Number, label: "age".into(), print_friendly: true, validators: vec![] },
            ClaimSchema { claim_type: ClaimType::Scalar, label: "ssn".into(), print_friendly: false, validators: vec![] },
        ];
        cs.insert(pos, ClaimSchema { claim_type: ClaimType::Revocation, label: "id".into(), print_friendly: false, validators: vec![] });
        let schema = match CredentialSchema::new(Some("pos"), None, &[], &cs) {
            Ok(s) => s,
            Err(_) => continue,
        };
        let (public, mut issuer) = Issuer::<S>::new(&schema);
        let mk = |rng: &mut Rng, id: &str| -> Vec<ClaimData> {
            let mut v: Vec<ClaimData> = vec![HashedClaim::from(format!("Holder {}", id)).into(), NumberClaim::from(rng.range(0, 90) as isize).into(), ScalarClaim::from(rng.scalar()).into()];
            v.insert(pos, RevocationClaim::from(id).into());
            v
        };
        let ida = format!("pos{}-a-{}", pos, rng.below(1 << 20));
        let idb = format!("pos{}-b-{}", pos, rng.below(1 << 20));
        let (a, b) = match (call(|| issuer.sign_credential(&mk(rng, &ida))), call(|| issuer.sign_credential(&mk(rng, &idb)))) {
            (Out::Ok(a), Out::Ok(b)) => (a, b),
            _ => {
                em.violation(&format!("{}:issuance-failed:revocation-claim-position", tag), format!("{}: issuing with the identifier claim at position {} failed", suite, pos), json!({"suite": suite, "position": pos}));
                continue;
            }
        };
        let show = |issuer_pub: &IssuerPublic<S>, cred: &Credential<S>, handle: MembershipWitness, value: Accumulator, nonce: &[u8]| -> bool {
            let mut ip = issuer_pub.clone();
            ip.revocation_registry = value;
            let sig = SignatureStatement { disclosed: ["name".to_string()].into_iter().collect(), id: "sig".to_string(), issuer: ip.clone() };
            let rev = RevocationStatement { id: "rev".to_string(), reference_id: "sig".to_string(), accumulator: value, verification_key: ip.revocation_verifying_key, claim: pos };
            let stmts: Vec<Statements<S>> = vec![sig.into(), rev.into()];
            let sch = PresentationSchema::new_with_id(&stmts, "pos");
            let mut c = cred.clone();
            c.revocation_handle = handle;
            let mut creds: IndexMap<String, PresentationCredential<S>> = IndexMap::new();
            creds.insert("sig".to_string(), c.into());
            match call(|| Presentation::create(&creds, &sch, nonce)) {
                Out::Ok(p) => call(|| p.verify(&sch, nonce)).is_ok(),
                _ => false,
            }
        };
        let nonce = rng.bytes(16);
        let v0 = issuer.revocation_registry.value;
        em.oracle_case(&format!("{} revocation-claim-position {}", suite, pos));
        em.count(&format!("revocation-claim-position:{}", pos));
        for (who, cred) in [("a", &a.credential), ("b", &b.credential)] {
            if !show(&public, cred, cred.revocation_handle, v0, &nonce) {
                em.violation(&format!("{}:active-cannot-present:revocation-claim-position", tag), format!("{}: holder {} with the identifier claim at position {} is not accepted", suite, who, pos), json!({"suite": suite, "position": pos}));
            }
        }
        if call(|| issuer.revoke_credentials(&[RevocationClaim::from(ida.as_str())])).is_ok() {
            let v1 = issuer.revocation_registry.value;
            if v1.0 == v0.0 {
                em.violation(&format!("{}:revocation-did-not-move-value:revocation-claim-position", tag), format!("{}: revoking an identifier issued at claim position {} left the registry value unchanged", suite, pos), json!({"suite": suite, "position": pos}));
            }
            if show(&public, &a.credential, a.credential.revocation_handle, v1, &nonce) {
                em.violation(&format!("{}:revoked-presents:revocation-claim-position", tag), format!("{}: revoked holder (identifier claim at position {}) is accepted against the new value", suite, pos), json!({"suite": suite, "position": pos}));
            }
            if call(|| issuer.update_revocation_handle(RevocationClaim::from(ida.as_str()))).is_ok() {
                em.violation(&format!("{}:revoked-refreshed:revocation-claim-position", tag), format!("{}: revoked identifier (claim position {}) refreshed", suite, pos), json!({"suite": suite, "position": pos}));
            }
            match call(|| issuer.update_revocation_handle(RevocationClaim::from(idb.as_str()))) {
                Out::Ok(w) => {
                    if !show(&public, &b.credential, w, v1, &nonce) {
                        em.violation(&format!("{}:active-cannot-present:revocation-claim-position", tag), format!("{}: active holder (identifier claim at position {}) is not accepted after another holder's revocation", suite, pos), json!({"suite": suite, "position": pos}));
                    }
                }
                _ => em.violation(&format!("{}:active-refresh-failed:revocation-claim-position", tag), format!("{}: refresh failed for the active identifier (claim position {})", suite, pos), json!({"suite": suite, "position": pos})),
            }
        } else {
            em.violation(&format!("{}:revoke-failed:revocation-claim-position", tag), format!("{}: revoking an identifier issued at claim position {} failed", suite, pos), json!({"suite": suite, "position": pos}));
        }
    }
}

/// the holder-side bundle API (`CredentialBundle::update_revocation_handle`): whatever the bundle recorded before — a
/// borrowed handle, an incompletely updated one, the same registry value — storing the issuer's fresh handle makes the
/// (never revoked) holder presentable again
fn bundle_refresh<S: ShortGroupSignatureScheme>(em: &mut Emitter, rng: &mut Rng, suite: &str) {
    let n_claims = 3;
    let schema = cred_schema(n_claims, &[]);
    let (public, mut issuer) = Issuer::<S>::new(&schema);
    let mk = |issuer: &mut Issuer<S>, rng: &mut Rng, id: &str| issuer.sign_credential(&claim_vector(rng, n_claims, id, "N", 30));
    let tag = rng.below(1 << 20);
    let (mut alice, bob, carol, dave) = match (mk(&mut issuer, rng, &format!("alice-{}", tag)), mk(&mut issuer, rng, &format!("bob-{}", tag)), mk(&mut issuer, rng, &format!("carol-{}", tag)), mk(&mut issuer, rng, &format!("dave-{}", tag))) {
        (Ok(a), Ok(b), Ok(c), Ok(d)) => (a, b, c, d),
        _ => return,
    };
    let rc = |b: &CredentialBundle<S>| match &b.credential.claims[0] {
        ClaimData::Revocation(r) => r.clone(),
        _ => RevocationClaim::from(""),
    };
    // two epochs pass
    let _ = issuer.revoke_credentials(&[rc(&carol)]);
    let _ = issuer.revoke_credentials(&[rc(&dave)]);
    let value = issuer.revocation_registry.value;
    let nonce = rng.bytes(16);
    let shows = |b: &CredentialBundle<S>| -> bool {
        let (sch, p) = present(&public, &b.credential, b.credential.revocation_handle, b.issuer.revocation_registry, &nonce);
        // the verifier uses the issuer's current value
        let (sch_now, _) = present(&public, &b.credential, b.credential.revocation_handle, value, &nonce);
        let _ = sch;
        match p {
            Out::Ok(p) => call(|| p.verify(&sch_now, &nonce)).is_ok(),
            _ => false,
        }
    };
    let bob_handle = match call(|| issuer.update_revocation_handle(rc(&bob))) {
        Out::Ok(w) => w,
        _ => return,
    };
    for (case, bad) in [("borrowed-handle-recorded-at-current-value", bob_handle), ("stale-handle-recorded-at-current-value", alice.credential.revocation_handle), ("identity-recorded-at-current-value", MembershipWitness(G1Projective::IDENTITY))] {
        em.oracle_case(&format!("{} bundle-refresh {}", suite, case));
        alice.update_revocation_handle(bad, value);
        let before = shows(&alice);
        match call(|| issuer.update_revocation_handle(rc(&alice))) {
            Out::Ok(w) => {
                alice.update_revocation_handle(w, value);
                let after = shows(&alice);
                em.count(&format!("bundle-refresh:{}:{}→{}", case, before, after));
                if !after {
                    em.violation("c06:active-cannot-present:bundle-refresh", format!("{}: a never revoked holder that stores the issuer's fresh handle in its bundle ({}) still cannot present", suite, case), json!({"suite": suite, "case": case}));
                }
            }
            _ => em.violation("c06:active-refresh-failed", format!("{}: refresh of an active identifier failed", suite), json!({"suite": suite})),
        }
    }
}

/// identifiers that a lenient reader might identify (case exchanged, white space around): two registry entries must be two
/// accumulator elements — after one is revoked, nothing the issuer hands the other helps the revoked holder
fn identifier_twins<S: ShortGroupSignatureScheme>(em: &mut Emitter, rng: &mut Rng, suite: &str) {
    let n_claims = 3;
    let schema = cred_schema(n_claims, &[]);
    let tag = rng.below(1 << 20);
    let base = format!("ACC-2024-{:06}-x", tag);
    let variants: Vec<(&str, String)> = vec![
        ("case-exchanged", base.chars().map(|c| if c.is_ascii_lowercase() { c.to_ascii_uppercase() } else { c.to_ascii_lowercase() }).collect()),
        ("trailing-spaces", format!("{}   ", base)),
        ("leading-space", format!(" {}", base)),
        ("trailing-tab", format!("{}\t", base)),
        ("trailing-newline", format!("{}\n", base)),
    ];
    for (vname, twin) in variants {
        let (public, mut issuer) = Issuer::<S>::new(&schema);
        let a = issuer.sign_credential(&claim_vector(rng, n_claims, &base, "A", 30));
        let b = issuer.sign_credential(&claim_vector(rng, n_claims, &twin, "B", 31));
        let (a, b) = match (a, b) {
            (Ok(a), Ok(b)) => (a, b),
            _ => {
                em.count(&format!("identifier-twins:{}:issuance-refused", vname));
                continue;
            }
        };
        em.oracle_case(&format!("{} identifier-twins {}", suite, vname));
        if issuer.revoke_credentials(&[RevocationClaim::from(base.as_str())]).is_err() {
            continue;
        }
        let value = issuer.revocation_registry.value;
        let nonce = rng.bytes(16);
        match call(|| issuer.update_revocation_handle(RevocationClaim::from(twin.as_str()))) {
            Out::Ok(w) => {
                let (sch, pb) = present(&public, &b.credential, w, value, &nonce);
                if !matches!(&pb, Out::Ok(p) if call(|| p.verify(&sch, &nonce)).is_ok()) {
                    em.violation("c06:active-cannot-present:identifier-twin", format!("{}: the active holder of an identifier that differs from a revoked one only by {} cannot present after refreshing", suite, vname), json!({"suite": suite, "variant": vname}));
                }
                let (sch, pa) = present(&public, &a.credential, w, value, &nonce);
                if matches!(&pa, Out::Ok(p) if call(|| p.verify(&sch, &nonce)).is_ok()) {
                    em.violation("c06:revoked-presents:identifier-twin", format!("{}: a revoked holder presents with the refreshed handle of the identifier that differs from its own only by {}", suite, vname), json!({"suite": suite, "variant": vname}));
                }
            }
            _ => em.violation("c06:active-refresh-failed", format!("{}: refresh failed for the active twin identifier ({})", suite, vname), json!({"suite": suite, "variant": vname})),
        }
        if call(|| issuer.update_revocation_handle(RevocationClaim::from(base.as_str()))).is_ok() {
            em.violation("c06:revoked-refreshed", format!("{}: the issuer refreshed a revoked identifier", suite), json!({"suite": suite, "variant": vname}));
        }
    }
}

fn proof_deviations<S: ShortGroupSignatureScheme + 'static>(em: &mut Emitter, rng: &mut Rng, suite: &str) {
    let n_claims = 4;
    let schema = cred_schema(n_claims, &[]);
    let (public, mut issuer) = Issuer::<S>::new(&schema);
    let a = issuer.sign_credential(&claim_vector(rng, n_claims, "dev-a", "A", 30)).unwrap();
    let b = issuer.sign_credential(&claim_vector(rng, n_claims, "dev-b", "B", 31)).unwrap();
    issuer.revoke_credentials(&[RevocationClaim::from("dev-a")]).unwrap();
    let value = issuer.revocation_registry.value;
    let wb = issuer.update_revocation_handle(RevocationClaim::from("dev-b")).unwrap();
    let nonce = rng.bytes(16);
    // honest accepted presentation of the active holder b
    let (sch, pb) = present(&public, &b.credential, wb, value, &nonce);
    let pb = match pb {
        Out::Ok(p) if call(|| p.verify(&sch, &nonce)).is_ok() => p,
        _ => {
            em.violation("c06:active-cannot-present:refreshed", format!("{}: active holder rejected in the deviation scenario", suite), json!({"suite": suite}));
            return;
        }
    };
    let vb = serde_json::to_value(&pb).unwrap();
    // revoked holder a: honest algorithm with b's handle (rejected), then graft b's revocation proof into a's presentation
    let (_, pa) = present(&public, &a.credential, wb, value, &nonce);
    if let Out::Ok(pa) = pa {
        let mut va = serde_json::to_value(&pa).unwrap();
        va["proofs"]["rev"] = vb["proofs"]["rev"].clone();
        for fix in [false, true] {
            em.oracle_case(&format!("{} graft {}", suite, fix));
            if let Out::Ok(mut g) = pres_from_value::<S>(&va) {
                if fix {
                    crate::adv::fix_challenge(&mut g, &sch, &nonce, 3);
                }
                if call(|| g.verify(&sch, &nonce)).is_ok() {
                    em.violation("c06:revoked-presents:grafted-proof", format!("{}: a revoked holder's presentation with another holder's revocation proof grafted in is accepted", suite), json!({"suite": suite, "presentation": va}));
                }
            }
        }
        // degenerate revocation proofs in the revoked holder's own presentation: points at infinity and zero responses
        // (only s_y, which the verifier compares with the signature proof's response, is kept)
        {
            let mut ls = vec![];
            leaves(&va["proofs"]["rev"], &mut vec!["proofs".to_string(), "rev".to_string()], &mut ls);
            let pts: Vec<Vec<String>> = ls.iter().filter(|(_, l)| l.as_str().map(|s| s.len() == 96).unwrap_or(false)).map(|(p, _)| p.clone()).collect();
            let scs: Vec<Vec<String>> = ls.iter().filter(|(p, l)| l.as_str().map(|s| s.len() == 64).unwrap_or(false) && p.last().map(|x| x != "s_y").unwrap_or(true)).map(|(p, _)| p.clone()).collect();
            let named = |names: &[&str]| -> Vec<Vec<String>> { pts.iter().filter(|p| names.contains(&p.last().unwrap().as_str())).cloned().collect() };
            let variants: Vec<(&str, Vec<Vec<String>>, bool)> = vec![
                ("all-points-at-infinity-zero-responses", pts.clone(), true),
                ("all-points-at-infinity", pts.clone(), false),
                ("e_c-t_sigma-t_rho-at-infinity-zero-responses", named(&["e_c", "t_sigma", "t_rho"]), true),
                ("e_c-t_sigma-t_rho-at-infinity", named(&["e_c", "t_sigma", "t_rho"]), false),
                ("e_c-at-infinity-zero-responses", named(&["e_c"]), true),
            ];
            for (name, points, zero) in variants {
                let mut v = va.clone();
                for p in &points {
                    *get_mut(&mut v, p).unwrap() = json!(g1_hex_c(&G1Projective::IDENTITY));
                }
                if zero {
                    for p in &scs {
                        *get_mut(&mut v, p).unwrap() = json!(sc_hex(&Scalar::ZERO));
                    }
                }
                for fix in [false, true] {
                    em.oracle_case(&format!("{} degenerate-proof {} {}", suite, name, fix));
                    if let Out::Ok(mut g) = pres_from_value::<S>(&v) {
                        if fix {
                            crate::adv::fix_challenge(&mut g, &sch, &nonce, 3);
                        }
                        if call(|| g.verify(&sch, &nonce)).is_ok() {
                            em.violation("c06:revoked-presents:degenerate-proof", format!("{}: a revoked holder's presentation whose revocation proof is degenerate ({}) is accepted", suite, name), json!({"suite": suite, "variant": name, "presentation": v}));
                        }
                    } else {
                        em.count("degenerate-proof:undecodable");
                    }
                }
            }
        }
        // the same degenerate proof, answered properly: if what the verifier hashes for the revocation proof does not
        // depend on the challenge, the holder learns those items in a dry run and lets the real signature prover answer
        // the challenge over (public part, signature proof, learned items) — no handle needed
        {
            let sig_only: Vec<Statements<S>> = sch.statements.values().filter(|s| matches!(s, Statements::Signature(_))).cloned().collect();
            let prover_schema = PresentationSchema::new_with_id(&sig_only, &sch.id);
            let mut creds: IndexMap<String, PresentationCredential<S>> = IndexMap::new();
            creds.insert("sig".to_string(), a.credential.clone().into());
            let mut ls = vec![];
            leaves(&vb["proofs"]["rev"], &mut vec![], &mut ls);
            let slot = if suite == "bbs" { 0 } else { 2 };
            let mk = |which: &str, sig_json: &Value| -> Value {
                let mut deg = vb["proofs"]["rev"].clone();
                for (p, l) in &ls {
                    let len = l.as_str().map(|s| s.len()).unwrap_or(0);
                    let name = p.last().map(|x| x.as_str()).unwrap_or("");
                    if len == 96 && (which == "all" || ["e_c", "t_sigma", "t_rho"].contains(&name)) {
                        *get_mut(&mut deg, p).unwrap() = json!(g1_hex_c(&G1Projective::IDENTITY));
                    } else if len == 64 && name == "s_y" {
                        *get_mut(&mut deg, p).unwrap() = sig_json["Signature"]["pok"]["proof"][slot].clone();
                    } else if len == 64 {
                        *get_mut(&mut deg, p).unwrap() = json!(sc_hex(&Scalar::ZERO));
                    }
                }
                deg
            };
            for which in ["all", "three"] {
                em.oracle_case(&format!("{} degenerate-proof-answered {}", suite, which));
                let p0 = match crate::adv::steered_create(&creds, &prover_schema, &sch, &nonce, None) {
                    Out::Ok(p) => p,
                    _ => continue,
                };
                let mut v0 = serde_json::to_value(&p0).unwrap();
                let sig0 = v0["proofs"]["sig"].clone();
                v0["proofs"]["rev"] = mk(which, &sig0);
                let q0 = match pres_from_value::<S>(&v0) {
                    Out::Ok(q) => q,
                    _ => continue,
                };
                let (_, _, log) = verify_logged(&q0, &sch, &nonce);
                let items = crate::adv::main_items(&log);
                // everything after (public part of the verifier's schema, what the signature proof contributes)
                let (_, _, log0) = verify_logged(&p0, &prover_schema, &nonce);
                let n_sig = crate::adv::main_items(&log0).len().saturating_sub(crate::adv::public_prefix(&prover_schema, &nonce).len());
                let tail_start = crate::adv::public_prefix(&sch, &nonce).len() + n_sig;
                if n_sig == 0 || tail_start >= items.len() {
                    em.count("degenerate-proof-answered:no-items-learned");
                    continue;
                }
                let extra: Vec<(Vec<u8>, Vec<u8>)> = items[tail_start..].to_vec();
                if let Out::Ok(p1) = crate::adv::steered_create_ext(&creds, &prover_schema, &sch, &nonce, None, extra) {
                    let mut v1 = serde_json::to_value(&p1).unwrap();
                    let sig1 = v1["proofs"]["sig"].clone();
                    v1["proofs"]["rev"] = mk(which, &sig1);
                    if let Out::Ok(q1) = pres_from_value::<S>(&v1) {
                        let acc = call(|| q1.verify(&sch, &nonce)).is_ok();
                        em.count(&format!("degenerate-proof-answered:{}:{}", which, if acc { "accepted" } else { "rejected" }));
                        if acc {
                            em.violation("c06:revoked-presents:degenerate-proof", format!("{}: a revoked holder without any handle presents with a revocation proof made of points at infinity ({}) answered under a challenge computed in advance", suite, which), json!({"suite": suite, "variant": which, "presentation": v1}));
                        }
                    }
                }
            }
        }
        // and the other way round: b's presentation with a's signature proof
        let mut vc = vb.clone();
        vc["proofs"]["sig"] = va["proofs"]["sig"].clone();
        for fix in [false, true] {
            em.oracle_case(&format!("{} graft-sig {}", suite, fix));
            if let Out::Ok(mut g) = pres_from_value::<S>(&vc) {
                if fix {
                    crate::adv::fix_challenge(&mut g, &sch, &nonce, 3);
                }
                if call(|| g.verify(&sch, &nonce)).is_ok() {
                    em.violation("c06:revoked-presents:grafted-signature-proof", format!("{}: another holder's accepted revocation proof carries a revoked holder's signature proof", suite), json!({"suite": suite, "presentation": vc}));
                }
            }
        }
    }
    // every leaf of the revocation proof of an accepted presentation
    let mut ls = vec![];
    leaves(&vb["proofs"]["rev"], &mut vec!["proofs".to_string(), "rev".to_string()], &mut ls);
    for (path, leaf) in ls {
        let s = match leaf.as_str() {
            Some(s) => s.to_string(),
            None => continue,
        };
        let repl: Vec<String> = if s.len() == 96 {
            vec![g1_hex_c(&(G1Projective::GENERATOR * rng.scalar())), g1_hex_c(&G1Projective::IDENTITY), g1_hex_c(&value.0)]
        } else if s.len() == 64 {
            match sc_from_hex(&s) {
                Some(x) => vec![sc_hex(&(x + Scalar::ONE)), sc_hex(&Scalar::ZERO), sc_hex(&-x)],
                None => continue,
            }
        } else {
            continue;
        };
        for r in repl {
            if r == s {
                continue;
            }
            for fix in [false, true] {
                let mut v = vb.clone();
                *get_mut(&mut v, &path).unwrap() = json!(r);
                em.oracle_case(&format!("{} leaf {} {} {}", suite, path.join("/"), r.len(), fix));
                if let Out::Ok(mut g) = pres_from_value::<S>(&v) {
                    if fix {
                        crate::adv::fix_challenge(&mut g, &sch, &nonce, 3);
                    }
                    if call(|| g.verify(&sch, &nonce)).is_ok() {
                        em.violation(&format!("c06:mutated-revocation-proof-accepted:{}", path.last().unwrap()), format!("{}: a presentation whose revocation proof field {} was replaced is accepted", suite, path.join("/")), json!({"suite": suite, "path": path, "presentation": v}));
                    }
                }
            }
        }
    }
    // verifier uses an older registry value → the property is about "that registry value": a revoked holder's
    // pre-revocation handle is accepted against the *old* value (expected, counted), never against the new one
    em.count("deviation-scenarios");
}

/// every ordered batch of 2..3 identifiers out of 4 (optionally after an earlier single revocation):
/// the issuer must refuse to refresh / re-issue each revoked identifier, whose presentations fail,
/// while every other holder still presents
fn batch_orders<S: ShortGroupSignatureScheme>(em: &mut Emitter, rng: &mut Rng, suite: &str) {
    let n_claims = 3;
    let schema = cred_schema(n_claims, &[]);
    let n = 4usize;
    let mut batches: Vec<Vec<usize>> = vec![];
    for a in 0..n {
        for b in 0..n {
            if a != b {
                batches.push(vec![a, b]);
                for c in 0..n {
                    if c != a && c != b {
                        batches.push(vec![a, b, c]);
                    }
                }
            }
        }
    }
    for (bi, batch) in batches.iter().enumerate() {
        for prior in [false, true] {
            if !em.thorough() && ((batch.len() == 3 && bi % 3 != 0) || (prior && bi % 2 != 0)) {
                continue;
            }
            let (public, mut issuer) = Issuer::<S>::new(&schema);
            let total = if prior { n + 1 } else { n };
            let ids: Vec<String> = (0..total).map(|i| format!("b{}-{}", bi, i)).collect();
            let mut creds = vec![];
            for id in &ids {
                let age = rng.range(0, 90);
                match call(|| issuer.sign_credential(&claim_vector(rng, n_claims, id, "N", age))) {
                    Out::Ok(b) => creds.push(b.credential),
                    _ => return,
                }
            }
            let mut revoked: Vec<usize> = vec![];
            if prior {
                // an earlier revocation of the first identifier issued (reshuffles any swap-based bookkeeping)
                if call(|| issuer.revoke_credentials(&[RevocationClaim::from(ids[n].as_str())])).is_ok() {
                    revoked.push(n);
                }
                // note: the extra holder is index n, issued last
            }
            let before: Vec<Option<MembershipWitness>> = ids.iter().map(|id| issuer.update_revocation_handle(RevocationClaim::from(id.as_str())).ok()).collect();
            let claims: Vec<RevocationClaim> = batch.iter().map(|i| RevocationClaim::from(ids[*i].as_str())).collect();
            let trace = json!({"suite": suite, "issued": ids, "prior_revocation": if prior { Some(ids[n].clone()) } else { None }, "batch": batch.iter().map(|i| ids[*i].clone()).collect::<Vec<_>>()});
            if !call(|| issuer.revoke_credentials(&claims)).is_ok() {
                em.violation("c06:revoke-failed", format!("{}: revoking a batch of active identifiers failed", suite), trace.clone());
                continue;
            }
            revoked.extend(batch.iter().cloned());
            let value = issuer.revocation_registry.value;
            let nonce = rng.bytes(8);
            for i in 0..total {
                let is_rev = revoked.contains(&i);
                em.oracle_case(&format!("{} batch {} {} {}", suite, bi, prior, i));
                let fresh = call(|| issuer.update_revocation_handle(RevocationClaim::from(ids[i].as_str())));
                match (&fresh, is_rev) {
                    (Out::Ok(w), true) => {
                        let (sch, p) = present(&public, &creds[i], *w, value, &nonce);
                        let accepted = matches!(&p, Out::Ok(p) if call(|| p.verify(&sch, &nonce)).is_ok());
                        em.violation(
                            if accepted { "c06:revoked-presents:refreshed" } else { "c06:revoked-refreshed" },
                            format!("{}: {} was revoked in a batch, yet the issuer refreshed its handle (presentation accepted: {})", suite, ids[i], accepted),
                            json!({"history": trace, "id": ids[i]}),
                        );
                    }
                    (Out::Ok(w), false) => {
                        if i == (bi % total) || em.thorough() {
                            let (sch, p) = present(&public, &creds[i], *w, value, &nonce);
                            if !matches!(&p, Out::Ok(p) if call(|| p.verify(&sch, &nonce)).is_ok()) {
                                em.violation("c06:active-cannot-present:refreshed", format!("{}: active identifier {} is rejected with its refreshed handle", suite, ids[i]), json!({"history": trace, "id": ids[i]}));
                            }
                        }
                    }
                    (_, false) => em.violation("c06:active-refresh-failed", format!("{}: refresh of the active identifier {} failed after a batch revocation", suite, ids[i]), json!({"history": trace, "id": ids[i]})),
                    (_, true) => {
                        // pre-revocation handle against the new value
                        if let Some(w) = before[i] {
                            if i == batch[batch.len() - 1] || em.thorough() {
                                let (sch, p) = present(&public, &creds[i], w, value, &nonce);
                                if matches!(&p, Out::Ok(p) if call(|| p.verify(&sch, &nonce)).is_ok()) {
                                    em.violation("c06:revoked-presents:stale", format!("{}: revoked identifier {} presents with its pre-revocation handle", suite, ids[i]), json!({"history": trace, "id": ids[i]}));
                                }
                            }
                        }
                        let age = rng.range(0, 90);
                        if call(|| issuer.sign_credential(&claim_vector(rng, n_claims, &ids[i], "N", age))).is_ok() {
                            em.violation("c06:revoked-reissued", format!("{}: revoked identifier {} was issued a new credential", suite, ids[i]), json!({"history": trace, "id": ids[i]}));
                        }
                    }
                }
            }
            em.count(&format!("ordered-batch:{}{}", batch.len(), if prior { ":after-prior" } else { "" }));
        }
    }
}

pub fn gen_c06(em: &mut Emitter, rng: &mut Rng) {
    em.rule = "random histories of issue / blind-issue / revoke (single, batch) / refresh / re-issuance attempts / persist over one issuer and many holders, both suites; \
               after every revocation and at the end, for sampled holders every handle class (held, issuer-refreshed, public batch / multi-batch / single-step update, stale of every earlier epoch \
               with and without public updates, pre-revocation, borrowed, identity, value, random) is presented with the real Presentation::create / verify against the current value: \
               revoked ⇒ rejected for every class; active ⇒ accepted with refreshed and publicly updated handles; verdict == witness relation == model verdict; \
               real prover's coins extracted from two challenges and the model prover / verifier compared point by point; proof-grafting, degenerate and per-leaf deviations; identifier claim at positions 1 and 3 of the schema".into();
    let n = em.n(10, 60);
    for k in 0..n {
        if em.mine(k) {
            let mut r = rng.sub(k as u64 + 1);
            if k % 2 == 0 {
                history::<Bbs>(em, &mut r, "bbs", k);
            } else {
                history::<Ps>(em, &mut r, "ps", k);
            }
        }
    }
    if em.mine(n) {
        proof_model_lines(em, &mut rng.sub(1000));
    }
    if em.mine(n + 1) {
        proof_deviations::<Bbs>(em, &mut rng.sub(1001), "bbs");
        proof_deviations::<Ps>(em, &mut rng.sub(1002), "ps");
    }
    if em.mine(n + 2) {
        batch_orders::<Bbs>(em, &mut rng.sub(1003), "bbs");
    }
    if em.mine(n + 3) {
        batch_orders::<Ps>(em, &mut rng.sub(1004), "ps");
    }
    if em.mine(n + 6) {
        identifier_twins::<Bbs>(em, &mut rng.sub(1009), "bbs");
        identifier_twins::<Ps>(em, &mut rng.sub(1010), "ps");
    }
    if em.mine(n + 5) {
        bundle_refresh::<Bbs>(em, &mut rng.sub(1007), "bbs");
        bundle_refresh::<Ps>(em, &mut rng.sub(1008), "ps");
    }
    if em.mine(n + 4) {
        revocation_claim_position::<Bbs>(em, &mut rng.sub(1005), "bbs", "c06");
        revocation_claim_position::<Ps>(em, &mut rng.sub(1006), "ps", "c06");
    }
}
